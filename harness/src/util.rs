//! Shared helpers: float <-> bit-pattern strings, scripted randomness.
use serde_json::Value;

/// Floats travel as decimal strings of their u64 bit pattern (JSON numbers would lose NaN payloads).
pub fn f64_of(v: &Value) -> f64 {
    let bits: u64 = match v {
        Value::String(s) => s.parse().expect("bits"),
        Value::Number(n) => n.as_u64().expect("bits"),
        _ => panic!("bits expected"),
    };
    f64::from_bits(bits)
}

pub fn bits_of(x: f64) -> Value {
    Value::String(x.to_bits().to_string())
}

pub fn f64s_of(v: &Value) -> Vec<f64> {
    v.as_array().expect("array").iter().map(f64_of).collect()
}

pub fn ord_of(o: std::cmp::Ordering) -> i64 {
    match o {
        std::cmp::Ordering::Less => -1,
        std::cmp::Ordering::Equal => 0,
        std::cmp::Ordering::Greater => 1,
    }
}

pub fn i64_of(v: &Value) -> i64 {
    match v {
        Value::String(s) => s.parse().expect("int"),
        Value::Number(n) => n.as_i64().expect("int"),
        _ => panic!("int expected"),
    }
}

pub fn usize_of(v: &Value) -> usize {
    i64_of(v) as usize
}

pub fn i64s_of(v: &Value) -> Vec<i64> {
    v.as_array().expect("array").iter().map(i64_of).collect()
}

/// splitmix64: the single PRNG used for scripted randomness in the harness.
#[derive(Clone)]
pub struct SplitMix(pub u64);
impl SplitMix {
    pub fn next(&mut self) -> u64 {
        self.0 = self.0.wrapping_add(0x9E3779B97F4A7C15);
        let mut z = self.0;
        z = (z ^ (z >> 30)).wrapping_mul(0xBF58476D1CE4E5B9);
        z = (z ^ (z >> 27)).wrapping_mul(0x94D049BB133111EB);
        z ^ (z >> 31)
    }
}
