//! Shared builders: turn a JSON case (matrix, vehicle, tour, job) into real vrp-core objects.
//! Numbers are integers; the string "inf" stands for f64::MAX (unbounded window / shift end).
use crate::util::*;
use serde_json::{json, Value};
use std::sync::Arc;
use vrp_core::construction::enablers::{TotalDistanceTourState, TotalDurationTourState};
use vrp_core::construction::features::*;
use vrp_core::construction::heuristics::*;
use vrp_core::models::common::*;
use vrp_core::models::problem::*;
use vrp_core::models::solution::{Activity, Place as ActPlace};
use vrp_core::models::*;
use vrp_core::prelude::{GenericResult, SimpleTransportCost};
use vrp_core::rosomaxa::prelude::Environment;

pub fn t_of(v: &Value) -> f64 {
    match v {
        Value::String(s) if s == "inf" => f64::MAX,
        _ => i64_of(v) as f64,
    }
}

pub fn t_out(x: f64) -> Value {
    if x >= 1e300 {
        json!("inf")
    } else if x == x.trunc() && x.abs() < 9e15 {
        json!(x as i64)
    } else {
        json!(format!("nonint:{}", x))
    }
}

pub fn demand_of(v: &Value) -> Demand<SingleDimLoad> {
    let d = i64s_of(v);
    Demand {
        pickup: (SingleDimLoad::new(d[0] as i32), SingleDimLoad::new(d[1] as i32)),
        delivery: (SingleDimLoad::new(d[2] as i32), SingleDimLoad::new(d[3] as i32)),
    }
}

pub fn place_of(v: &Value) -> Place {
    Place {
        location: if v["loc"].is_null() { None } else { Some(usize_of(&v["loc"])) },
        duration: t_of(&v["svc"]),
        times: v["tws"]
            .as_array()
            .unwrap()
            .iter()
            .map(|w| TimeSpan::Window(TimeWindow::new(t_of(&w[0]), t_of(&w[1]))))
            .collect(),
    }
}

/// key of the optional job value dimension (read by the value objective of the "…+value+…" goal kinds)
pub struct JobValueKey;

pub fn job_value(job: &Job) -> f64 {
    job.dimens().get_value::<JobValueKey, f64>().copied().unwrap_or(0.)
}

pub fn single_of(v: &Value) -> Single {
    let mut dimens = Dimensions::default();
    dimens.set_job_id(format!("j{}", i64_of(&v["id"])));
    if !v["dem"].is_null() {
        dimens.set_job_demand(demand_of(&v["dem"]));
    }
    if !v["value"].is_null() {
        dimens.set_value::<JobValueKey, f64>(i64_of(&v["value"]) as f64);
    }
    Single { places: v["places"].as_array().unwrap().iter().map(place_of).collect(), dimens }
}

/// candidate job of a case: a single job, or {"id", "multi": [single, ...], "value"?} as a Multi job (sub-jobs in the given order)
pub fn job_of(v: &Value) -> Job {
    if v["multi"].is_null() {
        Job::Single(Arc::new(single_of(v)))
    } else {
        let mut b = MultiBuilder::default().id(&format!("m{}", i64_of(&v["id"])));
        if !v["value"].is_null() {
            let value = i64_of(&v["value"]) as f64;
            b = b.dimension(move |dimens| dimens.set_value::<JobValueKey, f64>(value));
        }
        for s in v["multi"].as_array().unwrap().iter().map(single_of) {
            b = b.add_job(s);
        }
        b.build_as_job().unwrap()
    }
}

/// a tour activity description {job, loc, svc, tws, twe, dem} as a single-place single-window job
pub fn single_of_act(v: &Value) -> Single {
    let mut dimens = Dimensions::default();
    dimens.set_job_id(format!("j{}", i64_of(&v["job"])));
    dimens.set_job_demand(demand_of(&v["dem"]));
    if !v["value"].is_null() {
        dimens.set_value::<JobValueKey, f64>(i64_of(&v["value"]) as f64);
    }
    Single {
        places: vec![Place {
            location: Some(usize_of(&v["loc"])),
            duration: t_of(&v["svc"]),
            times: vec![TimeSpan::Window(TimeWindow::new(t_of(&v["tws"]), t_of(&v["twe"])))],
        }],
        dimens,
    }
}

pub fn activity_of(v: &Value, single: Arc<Single>) -> Activity {
    Activity {
        place: ActPlace {
            idx: 0,
            location: usize_of(&v["loc"]),
            duration: t_of(&v["svc"]),
            time: TimeWindow::new(t_of(&v["tws"]), t_of(&v["twe"])),
        },
        schedule: Schedule::new(0., 0.),
        job: Some(single),
        commute: None,
    }
}

pub fn vehicle_of(v: &Value, id: &str) -> Vehicle {
    let costs = i64s_of(&v["costs"]);
    let mut dimens = Dimensions::default();
    dimens.set_vehicle_id(id.to_string());
    dimens.set_vehicle_capacity(SingleDimLoad::new(i64_of(&v["cap"]) as i32));
    let start = VehiclePlace {
        location: usize_of(&v["start"]),
        time: TimeInterval { earliest: Some(t_of(&v["shift_start"])), latest: Some(t_of(&v["shift_start"])) },
    };
    let end = if v["end"].is_null() {
        None
    } else {
        let se = t_of(&v["shift_end"]);
        Some(VehiclePlace {
            location: usize_of(&v["end"]),
            time: TimeInterval { earliest: None, latest: if se == f64::MAX { None } else { Some(se) } },
        })
    };
    // optional "cost_shift": s  => every cost rate is multiplied by 2^-s (exact in f64); callers multiply reported costs
    // by 2^s again, so the integer-valued comparison is unchanged while the float magnitudes are tiny (tolerance-sensitive)
    let k = if v["cost_shift"].is_null() { 1.0 } else { (0.5f64).powi(i64_of(&v["cost_shift"]) as i32) };
    Vehicle {
        profile: Profile::default(),
        costs: Costs {
            fixed: costs[0] as f64 * k,
            per_distance: costs[1] as f64 * k,
            per_driving_time: costs[2] as f64 * k,
            per_waiting_time: costs[3] as f64 * k,
            per_service_time: costs[4] as f64 * k,
        },
        dimens,
        details: vec![VehicleDetail { start: Some(start), end }],
    }
}

pub struct World {
    pub problem: Arc<Problem>,
    pub transport: Arc<dyn TransportCost>,
}

/// goal kinds: "cost" (single layer: minimize cost), "unassigned+cost", "distance", "unassigned+tours+cost"
pub fn build_goal(kind: &str, transport: Arc<dyn TransportCost>) -> GenericResult<GoalContext> {
    let tf = || TransportFeatureBuilder::new("transport").set_transport_cost(transport.clone()).set_violation_code(ViolationCode(1));
    let capacity = CapacityFeatureBuilder::<SingleDimLoad>::new("capacity").set_violation_code(ViolationCode(2)).build()?;
    let features = match kind {
        "cost" => vec![tf().build_minimize_cost()?, capacity],
        "distance" => vec![tf().build_minimize_distance()?, capacity],
        "duration" => vec![tf().build_minimize_duration()?, capacity],
        "unassigned+cost" => {
            vec![MinimizeUnassignedBuilder::new("min-unassigned").build()?, tf().build_minimize_cost()?, capacity]
        }
        "unassigned+tours+cost" => vec![
            MinimizeUnassignedBuilder::new("min-unassigned").build()?,
            create_minimize_tours_feature("min-tours")?,
            tf().build_minimize_cost()?,
            capacity,
        ],
        "unassigned+tours+distance" => vec![
            MinimizeUnassignedBuilder::new("min-unassigned").build()?,
            create_minimize_tours_feature("min-tours")?,
            tf().build_minimize_distance()?,
            capacity,
        ],
        "unassigned+value+distance" | "unassigned+value+cost" => {
            let value = create_maximize_total_job_value_feature(
                "max-value",
                JobReadValueFn::Left(Arc::new(job_value)),
                Arc::new(|job, _| job),
                ViolationCode(3),
            )?;
            let last = if kind.ends_with("distance") { tf().build_minimize_distance()? } else { tf().build_minimize_cost()? };
            vec![MinimizeUnassignedBuilder::new("min-unassigned").build()?, value, last, capacity]
        }
        _ => return Err(format!("unknown goal kind {kind}").into()),
    };
    GoalContextBuilder::with_features(&features)?.build()
}

pub fn build_world(case: &Value, vehicles: Vec<Vehicle>, jobs: Vec<Job>, goal_kind: &str) -> World {
    let n = usize_of(&case["n"]);
    let dur: Vec<f64> = i64s_of(&case["dur"]).into_iter().map(|x| x as f64).collect();
    let dist: Vec<f64> = i64s_of(&case["dist"]).into_iter().map(|x| x as f64).collect();
    assert_eq!(dur.len(), n * n);
    assert_eq!(dist.len(), n * n);
    let transport: Arc<dyn TransportCost> = Arc::new(SimpleTransportCost::new(dur, dist).unwrap());
    let goal = build_goal(goal_kind, transport.clone()).unwrap();
    let problem = ProblemBuilder::default()
        .add_jobs(jobs.into_iter())
        .add_vehicles(vehicles.into_iter())
        .with_goal(goal)
        .with_transport_cost(transport.clone())
        .build()
        .unwrap();
    World { problem: Arc::new(problem), transport }
}

pub fn new_ctx(world: &World) -> InsertionContext {
    InsertionContext::new_empty(world.problem.clone(), Arc::new(Environment::default()))
}

/// builds a route for `actor_idx` holding the given activities (in order) and refreshes all cached state
pub fn add_route(ctx: &mut InsertionContext, actor_idx: usize, acts: &[(Value, Arc<Single>)]) -> usize {
    let actor = ctx.problem.fleet.actors[actor_idx].clone();
    let mut route_ctx = ctx.solution.registry.get_route(&actor).expect("actor available");
    for (v, s) in acts {
        route_ctx.route_mut().tour.insert_last(activity_of(v, s.clone()));
    }
    ctx.problem.goal.accept_route_state(&mut route_ctx);
    ctx.solution.routes.push(route_ctx);
    ctx.solution.routes.len() - 1
}

pub fn dump_schedule(route_ctx: &RouteContext) -> Value {
    let acts: Vec<Value> = route_ctx
        .route()
        .tour
        .all_activities()
        .map(|a| json!([t_out(a.schedule.arrival), t_out(a.schedule.departure)]))
        .collect();
    json!({
        "sched": acts,
        "dist": route_ctx.state().get_total_distance().map(|d| t_out(*d)),
        "dur": route_ctx.state().get_total_duration().map(|d| t_out(*d)),
    })
}

pub fn job_id(job: &Job) -> String {
    job.dimens().get_job_id().cloned().unwrap_or_default()
}
