//! C06, sub-stream `c06_time`: the transport feature (TransportConstraint / TransportState / CostObjective) over the NON-trivial
//! cost providers of vrp-core, on tours built through the public API:
//!  * reserved times (required breaks): DynamicTransportCost + DynamicActivityCost over a ReservedTimesIndex of the actor
//!    (case["reserved"] = {"offset": bool, "spans": [[start, end, duration], ..]}),
//!  * time-dependent routing: create_matrix_transport_cost with several MatrixData of one profile, each with a timestamp
//!    (case["td"] = [{"ts": t, "dur": [..], "dist": [..]}, ..]; TimeAwareMatrixTransportCost, linear interpolation).
//! Reported: schedule and cached state of the tour, the route-level verdict, the verdict of EVERY (leg, place, window) alternative
//! through the real goal, the result of eval_job_insertion_in_route, and the schedule after the insertion was really carried out.
use serde_json::{json, Value};
use std::sync::Arc;
use vh::core::*;
use vh::util::*;
use vrp_core::construction::enablers::*;
use vrp_core::construction::features::*;
use vrp_core::construction::heuristics::*;
use vrp_core::models::common::*;
use vrp_core::models::problem::*;
use vrp_core::models::solution::{Activity, Place as ActPlace};
use vrp_core::models::*;
use vrp_core::prelude::{InfoLogger, SimpleTransportCost};
use vrp_core::rosomaxa::prelude::Environment;

fn verdict_out(v: Option<ConstraintViolation>) -> Value {
    match v {
        Some(v) => json!({"code": v.code.0, "stopped": v.stopped}),
        None => Value::Null,
    }
}

fn floats(v: &Value) -> Vec<f64> {
    i64s_of(v).into_iter().map(|x| x as f64).collect()
}

fn build(case: &Value, jobs: Vec<Job>) -> Arc<Problem> {
    let n = usize_of(&case["n"]);
    let base: Arc<dyn TransportCost> = if case["td"].is_null() {
        let (dur, dist) = (floats(&case["dur"]), floats(&case["dist"]));
        assert_eq!(dur.len(), n * n);
        Arc::new(SimpleTransportCost::new(dur, dist).unwrap())
    } else {
        let data: Vec<MatrixData> = case["td"]
            .as_array()
            .unwrap()
            .iter()
            .map(|m| MatrixData::new(0, Some(i64_of(&m["ts"]) as f64), floats(&m["dur"]), floats(&m["dist"])))
            .collect();
        create_matrix_transport_cost(data).unwrap()
    };
    let vehicle = vehicle_of(&case["veh"], "v0");
    let driver = Driver {
        costs: Costs { fixed: 0., per_distance: 0., per_driving_time: 0., per_waiting_time: 0., per_service_time: 0. },
        dimens: Default::default(),
        details: vec![],
    };
    let fleet = Arc::new(Fleet::new(vec![Arc::new(driver)], vec![Arc::new(vehicle)], |_| |a: &Actor| a.vehicle.profile.index));

    let (transport, activity): (Arc<dyn TransportCost>, Arc<dyn ActivityCost>) = if case["reserved"].is_null() {
        (base, Arc::new(SimpleActivityCost::default()))
    } else {
        let r = &case["reserved"];
        let offset = r["offset"].as_bool().unwrap_or(false);
        let spans: Vec<ReservedTimeSpan> = r["spans"]
            .as_array()
            .unwrap()
            .iter()
            .map(|s| {
                let (a, b, d) = (i64_of(&s[0]) as f64, i64_of(&s[1]) as f64, i64_of(&s[2]) as f64);
                let time = if offset { TimeSpan::Offset(TimeOffset::new(a, b)) } else { TimeSpan::Window(TimeWindow::new(a, b)) };
                ReservedTimeSpan { time, duration: d }
            })
            .collect();
        let index: ReservedTimesIndex = fleet.actors.iter().map(|actor| (actor.clone(), spans.clone())).collect();
        let transport = DynamicTransportCost::new(index.clone(), base).expect("reserved times accepted");
        let activity = DynamicActivityCost::new(index).expect("reserved times accepted");
        (Arc::new(transport), Arc::new(activity))
    };

    let tf = TransportFeatureBuilder::new("transport")
        .set_transport_cost(transport.clone())
        .set_activity_cost(activity.clone())
        .set_violation_code(ViolationCode(1));
    let transport_feature = match case["goal"].as_str().unwrap_or("cost") {
        "distance" => tf.build_minimize_distance().unwrap(),
        _ => tf.build_minimize_cost().unwrap(),
    };
    let capacity = CapacityFeatureBuilder::<SingleDimLoad>::new("capacity").set_violation_code(ViolationCode(2)).build().unwrap();
    let goal = GoalContextBuilder::with_features(&[transport_feature, capacity]).unwrap().build().unwrap();
    let logger: InfoLogger = Arc::new(|_| {});
    let jobs_index = Arc::new(Jobs::new(fleet.as_ref(), jobs, transport.as_ref(), &logger).unwrap());
    Arc::new(Problem {
        fleet,
        jobs: jobs_index,
        locks: vec![],
        goal: Arc::new(goal),
        activity,
        transport,
        extras: Arc::new(Extras::default()),
    })
}

fn target_activity(single: &Arc<Single>, prev: &Activity, place_idx: usize, place: &Place, tw: &TimeWindow) -> Activity {
    Activity {
        place: ActPlace { idx: place_idx, location: place.location.unwrap_or(prev.place.location), duration: place.duration, time: tw.clone() },
        schedule: Schedule::new(0., 0.),
        job: Some(single.clone()),
        commute: None,
    }
}

fn run_case(case: &Value) -> Value {
    // a rejected reserved-times index (create_reserved_times_fn returns Err) is reported, not a panic
    if case["mode"].as_str() == Some("create") {
        let r = &case["reserved"];
        let spans: Vec<ReservedTimeSpan> = r["spans"]
            .as_array()
            .unwrap()
            .iter()
            .map(|s| ReservedTimeSpan {
                time: TimeSpan::Window(TimeWindow::new(i64_of(&s[0]) as f64, i64_of(&s[1]) as f64)),
                duration: i64_of(&s[2]) as f64,
            })
            .collect();
        let vehicle = vehicle_of(&case["veh"], "v0");
        let driver = Driver {
            costs: Costs { fixed: 0., per_distance: 0., per_driving_time: 0., per_waiting_time: 0., per_service_time: 0. },
            dimens: Default::default(),
            details: vec![],
        };
        let fleet = Fleet::new(vec![Arc::new(driver)], vec![Arc::new(vehicle)], |_| |a: &Actor| a.vehicle.profile.index);
        let index: ReservedTimesIndex = fleet.actors.iter().map(|actor| (actor.clone(), spans.clone())).collect();
        return json!({"created": DynamicActivityCost::new(index).is_ok()});
    }

    let tour_desc = case["tour"].as_array().unwrap();
    let tour_singles: Vec<Arc<Single>> = tour_desc.iter().map(|a| Arc::new(single_of_act(a))).collect();
    let cand_single = Arc::new(single_of(&case["job"]));
    let cand = Job::Single(cand_single.clone());
    let mut jobs: Vec<Job> = tour_singles.iter().map(|s| Job::Single(s.clone())).collect();
    jobs.push(cand.clone());
    let problem = build(case, jobs);
    let mut ctx = InsertionContext::new_empty(problem.clone(), Arc::new(Environment::default()));
    let acts: Vec<(Value, Arc<Single>)> = tour_desc.iter().cloned().zip(tour_singles.iter().cloned()).collect();
    let ridx = add_route(&mut ctx, 0, &acts);
    let goal = problem.goal.clone();
    let route_ctx = &ctx.solution.routes[ridx];
    let before = dump_schedule(route_ctx);
    let digest = route_ctx.state().verif_digest();
    let route_verdict = verdict_out(goal.evaluate(&MoveContext::route(&ctx.solution, route_ctx, &cand)));

    let mut alts: Vec<Value> = vec![];
    for (items, index) in route_ctx.route().tour.legs() {
        let (prev, next) = match items {
            [prev] => (prev, None),
            [prev, next] => (prev, Some(next)),
            _ => continue,
        };
        for (pi, place) in cand_single.places.iter().enumerate() {
            for span in place.times.iter() {
                let tw = span.to_time_window(0.);
                let target = target_activity(&cand_single, prev, pi, place, &tw);
                let actx = ActivityContext { index, prev, target: &target, next };
                let mctx = MoveContext::activity(&ctx.solution, route_ctx, &actx);
                let whole = verdict_out(goal.evaluate(&mctx));
                let est: Vec<Value> = goal.estimate(&mctx).iter().map(t_out).collect();
                // the tour with this alternative really inserted (whatever the verdict): its schedule is what the oracle simulates
                let mut copy = route_ctx.deep_copy();
                copy.route_mut().tour.insert_at(target.deep_copy(), index + 1);
                goal.accept_route_state(&mut copy);
                alts.push(json!({"idx": index, "place": pi, "tws": t_out(tw.start), "twe": t_out(tw.end), "goal": whole, "est": est,
                                 "sched": dump_schedule(&copy)["sched"]}));
            }
        }
    }

    let position = match &case["pos"] {
        Value::String(s) if s == "any" => InsertionPosition::Any,
        Value::String(s) if s == "last" => InsertionPosition::Last,
        v => InsertionPosition::Concrete(usize_of(&v[1])),
    };
    let selector = BestResultSelector::default();
    let eval_ctx = EvaluationContext { goal: &problem.goal, job: &cand, leg_selection: &LegSelection::Exhaustive, result_selector: &selector };
    let res = match eval_job_insertion_in_route(&ctx, &eval_ctx, route_ctx, position, InsertionResult::make_failure()) {
        InsertionResult::Success(s) => {
            let acts: Vec<Value> = s
                .activities
                .iter()
                .map(|(a, idx)| {
                    json!({"index": idx, "place": a.place.idx, "loc": a.place.location, "svc": t_out(a.place.duration),
                           "tws": t_out(a.place.time.start), "twe": t_out(a.place.time.end)})
                })
                .collect();
            let mut copy = route_ctx.deep_copy();
            for (a, idx) in s.activities.iter() {
                copy.route_mut().tour.insert_at(a.deep_copy(), idx + 1);
            }
            goal.accept_route_state(&mut copy);
            json!({"ok": true, "cost": s.cost.iter().map(t_out).collect::<Vec<_>>(), "acts": acts,
                   "after": dump_schedule(&copy), "after_digest": copy.state().verif_digest()})
        }
        InsertionResult::Failure(f) => json!({"ok": false, "code": f.constraint.0, "stopped": f.stopped}),
    };
    json!({"before": before, "digest": digest, "route": route_verdict, "alts": alts, "eval": res})
}

fn main() {
    vh::main_loop(run_case);
}
