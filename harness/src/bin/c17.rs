//! C17: lkh_optimize, dbscan::create_clusters, create_kmedoids, create_hierarchical_kmedoids on the real code, plus the
//! job-/location-level wrappers the solver uses: construction::clustering::dbscan::create_job_clusters (also through
//! Jobs::new -> Jobs::clusters(), the path of the cluster-removal ruin) and construction::clustering::kmedoids::
//! create_multi_tier_clusters, both on a real `Problem` built from the case.
//! All data are integers (cost / distance matrices of integer-valued f64), so float arithmetic is exact.
use serde_json::{json, Value};
use std::collections::{HashMap, HashSet};
use std::sync::Arc;
use vrp_core::construction::clustering::dbscan::create_job_clusters;
use vrp_core::construction::clustering::kmedoids::create_multi_tier_clusters;
use vrp_core::models::common::{Dimensions, Distance, Duration as TravelDuration, Location, Profile, TimeInterval, TimeSpan, TimeWindow, Timestamp};
use vrp_core::models::problem::{
    Costs, Job, JobIdDimension, MultiBuilder, Place, Single, TransportCost, TravelTime, Vehicle,
    VehicleDetail, VehicleIdDimension, VehiclePlace,
};
use vrp_core::models::solution::{Activity, Place as ActPlace, Route};
use vrp_core::models::common::Schedule;
use vrp_core::construction::heuristics::InsertionContext;
use vrp_core::rosomaxa::evolution::TelemetryMode;
use vrp_core::rosomaxa::prelude::{Environment, HeuristicSearchOperator};
use vrp_core::solver::search::{LKHSearch, LKHSearchMode};
use vrp_core::solver::{create_elitism_population, RefinementContext};
use vrp_core::models::{Problem, ProblemBuilder};
use vrp_cli::extensions::analyze::{get_dbscan_clusters, get_k_medoids_clusters};
use vrp_pragmatic::format::problem::{deserialize_matrix, deserialize_problem, PragmaticProblem};
use vrp_pragmatic::format::{CoordIndexExtraProperty, Location as ApiLocation};
use std::panic::{catch_unwind, AssertUnwindSafe};
use std::sync::atomic::{AtomicU64, AtomicUsize, Ordering};
use std::sync::mpsc::channel;
use std::time::Duration;
use vh::util::*;
use vrp_core::algorithms::clustering::dbscan::create_clusters;
use vrp_core::algorithms::clustering::kmedoids::{create_hierarchical_kmedoids, create_kmedoids};
use vrp_core::algorithms::lkh::{lkh_optimize, AdjacencySpec, Cost, Edge, Node};

static TIMEOUTS: AtomicUsize = AtomicUsize::new(0);

struct Adj {
    cost: Vec<Vec<f64>>,
    nbr: Vec<Vec<usize>>,
    empty: Vec<usize>,
}

impl AdjacencySpec for Adj {
    fn cost(&self, edge: &Edge) -> Cost {
        self.cost[edge.0][edge.1]
    }
    fn neighbours(&self, node: Node) -> &[Node] {
        self.nbr.get(node).unwrap_or(&self.empty).as_slice()
    }
}

/// AdjacencySpec over arbitrary f64 costs that counts the calls of `cost`: past the budget it panics (caught by the caller), so a
/// search that never ends becomes a result value without leaving a spinning thread behind (deterministic, unlike a timeout).
struct BudgetAdj {
    cost: Vec<Vec<f64>>,
    nbr: Vec<Vec<usize>>,
    empty: Vec<usize>,
    calls: Arc<AtomicU64>,
    budget: u64,
}

const BUDGET_MSG: &str = "c17-cost-call-budget-exceeded";

fn panic_text(e: &Box<dyn std::any::Any + Send>) -> String {
    e.downcast_ref::<String>().cloned().or_else(|| e.downcast_ref::<&str>().map(|s| s.to_string())).unwrap_or_else(|| "panic".to_string())
}

impl AdjacencySpec for BudgetAdj {
    fn cost(&self, edge: &Edge) -> Cost {
        if self.calls.fetch_add(1, Ordering::SeqCst) + 1 > self.budget {
            panic!("{}", BUDGET_MSG);
        }
        self.cost[edge.0][edge.1]
    }
    fn neighbours(&self, node: Node) -> &[Node] {
        self.nbr.get(node).unwrap_or(&self.empty).as_slice()
    }
}

/// TransportCost over an arbitrary f64 distance matrix (durations are zero) that counts distance_approx calls while `armed`
/// and panics past the budget: a non-terminating LKHSearch becomes a result value
struct BudgetTransport {
    size: usize,
    dist: Vec<f64>,
    calls: Arc<AtomicU64>,
    armed: Arc<AtomicUsize>,
    budget: u64,
}

impl TransportCost for BudgetTransport {
    fn duration_approx(&self, _: &Profile, _: Location, _: Location) -> TravelDuration {
        0.
    }
    fn distance_approx(&self, _: &Profile, from: Location, to: Location) -> Distance {
        if self.armed.load(Ordering::SeqCst) == 1 && self.calls.fetch_add(1, Ordering::SeqCst) + 1 > self.budget {
            panic!("{}", BUDGET_MSG);
        }
        self.dist[from * self.size + to]
    }
    fn duration(&self, _: &Route, _: Location, _: Location, _: TravelTime) -> TravelDuration {
        0.
    }
    fn distance(&self, route: &Route, from: Location, to: Location, _: TravelTime) -> Distance {
        self.dist[from * self.size + to]
    }
    fn size(&self) -> usize {
        self.size
    }
}

fn matrix_of(v: &Value) -> Vec<Vec<i64>> {
    v.as_array().expect("matrix").iter().map(i64s_of).collect()
}

fn usizes_of(v: &Value) -> Vec<usize> {
    i64s_of(v).into_iter().map(|x| x as usize).collect()
}

fn canon(map: &HashMap<usize, Vec<usize>>) -> Value {
    let mut items: Vec<(usize, Vec<usize>)> = map
        .iter()
        .map(|(k, v)| {
            let mut v = v.clone();
            v.sort();
            (*k, v)
        })
        .collect();
    items.sort();
    Value::Array(items.into_iter().map(|(k, v)| json!([k, v])).collect())
}

/// routing data that depend on the profile: matrix `profile.index` (the last one for larger indices), row-major
struct ProfiledMatrices {
    size: usize,
    dist: Vec<Vec<f64>>,
    dur: Vec<Vec<f64>>,
}

impl ProfiledMatrices {
    fn pick<'a>(&self, ms: &'a [Vec<f64>], profile: &Profile) -> &'a Vec<f64> {
        &ms[profile.index.min(ms.len() - 1)]
    }
}

impl TransportCost for ProfiledMatrices {
    fn duration_approx(&self, profile: &Profile, from: Location, to: Location) -> TravelDuration {
        self.pick(&self.dur, profile)[from * self.size + to]
    }
    fn distance_approx(&self, profile: &Profile, from: Location, to: Location) -> Distance {
        self.pick(&self.dist, profile)[from * self.size + to]
    }
    fn duration(&self, route: &Route, from: Location, to: Location, _: TravelTime) -> TravelDuration {
        self.duration_approx(&route.actor.vehicle.profile, from, to)
    }
    fn distance(&self, route: &Route, from: Location, to: Location, _: TravelTime) -> Distance {
        self.distance_approx(&route.actor.vehicle.profile, from, to)
    }
    fn size(&self) -> usize {
        self.size
    }
}

fn matrices_of(v: &Value, size: usize) -> Vec<Vec<f64>> {
    v.as_array()
        .expect("matrices")
        .iter()
        .map(|m| {
            let flat: Vec<f64> = matrix_of(m).into_iter().flatten().map(|x| x as f64).collect();
            assert_eq!(flat.len(), size * size);
            flat
        })
        .collect()
}

fn place_at(loc: &Value) -> Place {
    Place {
        location: if loc.is_null() { None } else { Some(usize_of(loc)) },
        duration: 0.,
        times: vec![TimeSpan::Window(TimeWindow::max())],
    }
}

fn single_at(id: Option<usize>, locs: &Value) -> Single {
    let mut dimens = Dimensions::default();
    if let Some(id) = id {
        dimens.set_job_id(format!("{id}"));
    }
    Single { places: locs.as_array().expect("places").iter().map(place_at).collect(), dimens }
}

/// {"places": [loc|null, ..]} = single job with these alternative places; {"multi": [[loc|null, ..], ..]} = multi job
fn cluster_job_of(id: usize, v: &Value) -> Job {
    if v["multi"].is_null() {
        Job::Single(Arc::new(single_at(Some(id), &v["places"])))
    } else {
        let mut b = MultiBuilder::default().id(&format!("{id}"));
        for locs in v["multi"].as_array().unwrap() {
            b = b.add_job(single_at(None, locs));
        }
        b.build_as_job().unwrap()
    }
}

fn id_of(job: &Job) -> usize {
    job.dimens().get_job_id().expect("job id").parse().expect("numeric job id")
}

fn int_cost(c: f64) -> Value {
    assert!(c.fract() == 0. && c.abs() < 9.0e15, "non-integer neighbour cost {c}");
    json!(c as i64)
}

fn sorted_ids(cluster: &HashSet<Job>) -> Vec<usize> {
    let mut ids: Vec<usize> = cluster.iter().map(id_of).collect();
    ids.sort();
    ids
}

fn cluster_problem(case: &Value) -> (Arc<Problem>, Arc<dyn TransportCost>) {
    let size = usize_of(&case["size"]);
    let transport: Arc<dyn TransportCost> = Arc::new(ProfiledMatrices {
        size,
        dist: matrices_of(&case["dist"], size),
        dur: matrices_of(&case["dur"], size),
    });
    let jobs: Vec<Job> = case["jobs"].as_array().unwrap().iter().enumerate().map(|(i, j)| cluster_job_of(i, j)).collect();
    let vehicles: Vec<Vehicle> = case["vehicles"]
        .as_array()
        .unwrap()
        .iter()
        .enumerate()
        .map(|(i, v)| {
            let mut dimens = Dimensions::default();
            dimens.set_vehicle_id(format!("v{i}"));
            let start = VehiclePlace {
                location: usize_of(&v["start"]),
                time: TimeInterval { earliest: Some(0.), latest: None },
            };
            Vehicle {
                profile: Profile::new(usize_of(&v["profile"]), None),
                costs: Costs {
                    fixed: 0.,
                    per_distance: i64_of(&v["per_distance"]) as f64,
                    per_driving_time: i64_of(&v["per_time"]) as f64,
                    per_waiting_time: 0.,
                    per_service_time: 0.,
                },
                dimens,
                details: vec![VehicleDetail { start: Some(start), end: None }],
            }
        })
        .collect();
    let goal = vh::core::build_goal("cost", transport.clone()).unwrap();
    let problem = ProblemBuilder::default()
        .add_jobs(jobs.into_iter())
        .add_vehicles(vehicles.into_iter())
        .with_goal(goal)
        .with_transport_cost(transport.clone())
        .build()
        .unwrap();
    (Arc::new(problem), transport)
}

fn with_pool<R: Send>(threads: usize, f: impl FnOnce() -> R + Send) -> R {
    if threads == 0 {
        f()
    } else {
        rayon::ThreadPoolBuilder::new().num_threads(threads).build().expect("pool").install(f)
    }
}

static CLUSTER_TIMEOUTS: AtomicUsize = AtomicUsize::new(0);

/// Every clustering call runs on its own thread under a watchdog: a case that does not return within the limit is reported as
/// {"timeout": true} (oracle class `clustering-does-not-terminate`), the thread is abandoned (it cannot be killed); after a few
/// of them further clustering cases are skipped because the abandoned threads keep spinning.
pub fn run_case(case: &Value) -> Value {
    let op = case["op"].as_str().unwrap().to_string();
    if op == "lkh" || op == "lkhf" || op == "lkhsearch" {
        return run_inner(case); // has its own watchdog (shorter limit / call budget)
    }
    if CLUSTER_TIMEOUTS.load(Ordering::SeqCst) >= 4 {
        return json!({ "skipped": true });
    }
    let owned = case.clone();
    let (tx, rx) = channel();
    std::thread::spawn(move || {
        let r = catch_unwind(AssertUnwindSafe(|| run_inner(&owned)));
        let _ = tx.send(r.map_err(|e| {
            if let Some(s) = e.downcast_ref::<&str>() {
                s.to_string()
            } else if let Some(s) = e.downcast_ref::<String>() {
                s.clone()
            } else {
                "panic".to_string()
            }
        }));
    });
    // 20 s for the first case that hangs in this process, 5 s for the next ones (all cases normally finish within milliseconds)
    let default_limit = if CLUSTER_TIMEOUTS.load(Ordering::SeqCst) == 0 { 20000 } else { 5000 };
    let limit = case.get("timeout_ms").and_then(|v| v.as_u64()).unwrap_or(default_limit);
    match rx.recv_timeout(Duration::from_millis(limit)) {
        Ok(Ok(v)) => v,
        Ok(Err(msg)) => panic!("{}", msg),
        Err(_) => {
            CLUSTER_TIMEOUTS.fetch_add(1, Ordering::SeqCst);
            json!({ "timeout": true })
        }
    }
}

fn run_inner(case: &Value) -> Value {
    let op = case["op"].as_str().unwrap();
    match op {
        "analyze" => {
            // the path of `vrp-cli analyze dbscan|kmedoids pragmatic <problem>` (the repository's commands::analyze tests):
            // a pragmatic document (geo coordinates -> approximated float distances, or indices + matrix) read by the real reader
            let problem_text = case["problem"].to_string();
            let matrices: Vec<String> =
                case["matrices"].as_array().map(|ms| ms.iter().map(|m| m.to_string()).collect()).unwrap_or_default();
            // as vrp-cli commands::get_core_problem: no matrix => Option::None => distances approximated from the coordinates
            let api_problem = match deserialize_problem(std::io::BufReader::new(problem_text.as_bytes())) {
                Ok(p) => p,
                Err(errs) => return json!({ "read_error": format!("{}", errs) }),
            };
            let api_matrices = if matrices.is_empty() {
                None
            } else {
                match matrices.iter().map(|m| deserialize_matrix(std::io::BufReader::new(m.as_bytes()))).collect::<Result<Vec<_>, _>>() {
                    Ok(ms) => Some(ms),
                    Err(errs) => return json!({ "read_error": format!("{}", errs) }),
                }
            };
            let problem = match (api_problem, api_matrices).read_pragmatic() {
                Ok(p) => p,
                Err(errs) => return json!({ "read_error": format!("{}", errs) }),
            };
            let min_points = if case["minp"].is_null() { None } else { Some(usize_of(&case["minp"])) };
            let epsilon = if case["eps"].is_null() { None } else { Some(case["eps"].as_f64().expect("eps")) };
            let k = usize_of(&case["k"]);
            let coord_index = problem.extras.get_coord_index().expect("coord index");
            let loc_index = |l: &ApiLocation| coord_index.get_by_loc(l).map(|i| json!(i)).unwrap_or(Value::Null);
            let dbscan = match get_dbscan_clusters(&problem, min_points, epsilon) {
                Ok(items) => json!(items.iter().map(|(id, l, c)| json!([id, loc_index(l), c])).collect::<Vec<_>>()),
                Err(e) => json!({ "err": e.to_string() }),
            };
            let kmedoids = match with_pool(1, || get_k_medoids_clusters(&problem, k)) {
                Ok(items) => json!(items.iter().map(|(id, l, c)| json!([id, loc_index(l), c])).collect::<Vec<_>>()),
                Err(e) => json!({ "err": e.to_string() }),
            };
            // what the k-medoids call measured: distance_approx(first profile, from, to) for all matrix locations (floats travel
            // as their bit patterns: the oracle only COMPARES them)
            let size = problem.transport.size();
            let profile = problem.fleet.profiles.first().cloned().unwrap_or_default();
            let dist: Vec<Vec<Value>> = (0..size)
                .map(|a| (0..size).map(|b| bits_of(problem.transport.distance_approx(&profile, a, b))).collect())
                .collect();
            let job_ids: Vec<String> =
                problem.jobs.all().iter().map(|j| j.dimens().get_job_id().cloned().unwrap_or_default()).collect();
            // the neighbourhood rows the wrapper is fed with, per fleet profile and job (in jobs.all() order): [neighbour, cost bits]
            let pos: HashMap<Job, usize> = problem.jobs.all().iter().enumerate().map(|(i, j)| (j.clone(), i)).collect();
            let rows: Vec<Value> = problem
                .fleet
                .profiles
                .iter()
                .map(|profile| {
                    Value::Array(
                        problem
                            .jobs
                            .all()
                            .iter()
                            .map(|job| {
                                Value::Array(
                                    problem
                                        .jobs
                                        .neighbors(profile, job, Timestamp::default())
                                        .map(|(j, c)| json!([pos[j], bits_of(c)]))
                                        .collect(),
                                )
                            })
                            .collect(),
                    )
                })
                .collect();
            let solver: Vec<Vec<String>> = problem
                .jobs
                .clusters()
                .iter()
                .map(|c| {
                    let mut ids: Vec<String> = c.iter().map(|j| j.dimens().get_job_id().cloned().unwrap_or_default()).collect();
                    ids.sort();
                    ids
                })
                .collect();
            json!({ "dbscan": dbscan, "kmedoids": kmedoids, "size": size, "dist": dist, "jobs": job_ids, "rows": rows, "solver_clusters": solver })
        }
        "dbscan" => {
            let n = usize_of(&case["n"]);
            let universe: Vec<usize> = (0..n).collect();
            let nbr: Vec<Vec<usize>> = case["nbr"].as_array().unwrap().iter().map(usizes_of).collect();
            let pts: Vec<&usize> = usizes_of(&case["pts"]).into_iter().map(|i| &universe[i]).collect();
            let minp = usize_of(&case["minp"]);
            let empty: Vec<usize> = vec![];
            let (nbr, universe_ref, empty) = (&nbr, &universe, &empty);
            let clusters = create_clusters(pts.iter().copied(), minp, move |p: &usize| {
                nbr.get(*p).unwrap_or(empty).iter().map(move |&j| &universe_ref[j])
            });
            let out: Vec<Vec<usize>> = clusters.iter().map(|c| c.iter().map(|p| **p).collect()).collect();
            json!({ "clusters": out })
        }
        "lkh" => {
            // every timed-out run leaves a spinning thread behind: after a few of them stop running the search
            if TIMEOUTS.load(Ordering::SeqCst) >= 6 {
                return json!({ "skipped": true });
            }
            let cost: Vec<Vec<f64>> =
                matrix_of(&case["cost"]).into_iter().map(|r| r.into_iter().map(|x| x as f64).collect()).collect();
            let nbr: Vec<Vec<usize>> = case["nbr"].as_array().unwrap().iter().map(usizes_of).collect();
            let path = usizes_of(&case["path"]);
            let (tx, rx) = channel();
            // the search may not terminate if the code is broken: run it on a thread that is abandoned on timeout
            std::thread::spawn(move || {
                let adj = Adj { cost, nbr, empty: vec![] };
                let r = catch_unwind(AssertUnwindSafe(|| lkh_optimize(adj, path)));
                let _ = tx.send(r.map_err(|e| {
                    if let Some(s) = e.downcast_ref::<&str>() {
                        s.to_string()
                    } else if let Some(s) = e.downcast_ref::<String>() {
                        s.clone()
                    } else {
                        "panic".to_string()
                    }
                }));
            });
            let limit = case.get("timeout_ms").and_then(|v| v.as_u64()).unwrap_or(4000);
            match rx.recv_timeout(Duration::from_millis(limit)) {
                Ok(Ok(paths)) => json!({ "paths": paths }),
                Ok(Err(msg)) => panic!("{}", msg),
                Err(_) => {
                    // asymmetric matrices are outside the property and may legitimately cycle: not counted
                    if case["shape"].as_str() != Some("malformed-asymmetric") {
                        TIMEOUTS.fetch_add(1, Ordering::SeqCst);
                    }
                    json!({ "timeout": true })
                }
            }
        }
        "lkhf" => {
            // arbitrary f64 costs (bit patterns); termination is decided by a budget of AdjacencySpec::cost calls
            let cost: Vec<Vec<f64>> = case["fcost"].as_array().unwrap().iter().map(f64s_of).collect();
            let nbr: Vec<Vec<usize>> = case["nbr"].as_array().unwrap().iter().map(usizes_of).collect();
            let path = usizes_of(&case["path"]);
            let budget = case.get("budget").and_then(|v| v.as_u64()).unwrap_or(300_000);
            let calls = Arc::new(AtomicU64::new(0));
            let adj = BudgetAdj { cost, nbr, empty: vec![], calls: calls.clone(), budget };
            match catch_unwind(AssertUnwindSafe(move || lkh_optimize(adj, path))) {
                Ok(paths) => json!({ "paths": paths, "calls": calls.load(Ordering::SeqCst) }),
                Err(e) => {
                    if panic_text(&e) == BUDGET_MSG {
                        json!({ "budget_exceeded": true, "calls": calls.load(Ordering::SeqCst) })
                    } else {
                        panic!("{}", panic_text(&e))
                    }
                }
            }
        }
        "lkhsearch" => {
            // the solver's LKH operator (solver/search/lkh_search.rs): a real Problem whose TransportCost returns arbitrary f64
            // distances (bit patterns), one route per vehicle holding the given jobs in the given order, LKHSearch::search in
            // Diverse mode (the repaired copy of the re-sequenced routes is returned as it is). The CostMatrix / neighbourhoods /
            // path <-> tour conversion are those of lkh_search.rs; termination by a budget of distance_approx calls.
            let size = usize_of(&case["size"]);
            let dist: Vec<f64> = case["fdist"].as_array().unwrap().iter().flat_map(f64s_of).collect();
            assert_eq!(dist.len(), size * size);
            let budget = case.get("budget").and_then(|v| v.as_u64()).unwrap_or(300_000);
            let calls = Arc::new(AtomicU64::new(0));
            let armed = Arc::new(AtomicUsize::new(0));
            let transport: Arc<dyn TransportCost> =
                Arc::new(BudgetTransport { size, dist, calls: calls.clone(), armed: armed.clone(), budget });
            let routes = case["routes"].as_array().unwrap();
            let mut jobs: Vec<Job> = vec![];
            let mut route_jobs: Vec<Vec<(usize, Arc<Single>)>> = vec![];
            for r in routes {
                let mut rj = vec![];
                for loc in usizes_of(&r["jobs"]) {
                    let single = Arc::new(single_at(Some(jobs.len()), &json!([loc])));
                    jobs.push(Job::Single(single.clone()));
                    rj.push((loc, single));
                }
                route_jobs.push(rj);
            }
            let vehicles: Vec<Vehicle> = routes
                .iter()
                .enumerate()
                .map(|(i, r)| {
                    let mut dimens = Dimensions::default();
                    dimens.set_vehicle_id(format!("v{i}"));
                    let start = VehiclePlace { location: usize_of(&r["start"]), time: TimeInterval { earliest: Some(0.), latest: None } };
                    let end = if r["end"].is_null() {
                        None
                    } else {
                        Some(VehiclePlace { location: usize_of(&r["end"]), time: TimeInterval { earliest: None, latest: None } })
                    };
                    Vehicle {
                        profile: Profile::new(0, None),
                        costs: Costs { fixed: 0., per_distance: 1., per_driving_time: 0., per_waiting_time: 0., per_service_time: 0. },
                        dimens,
                        details: vec![VehicleDetail { start: Some(start), end }],
                    }
                })
                .collect();
            let goal = vh::core::build_goal("cost", transport.clone()).unwrap();
            let problem = Arc::new(
                ProblemBuilder::default()
                    .add_jobs(jobs.into_iter())
                    .add_vehicles(vehicles.into_iter())
                    .with_goal(goal)
                    .with_transport_cost(transport.clone())
                    .with_logger(Arc::new(|_: &str| {}))
                    .build()
                    .unwrap(),
            );
            let env = Arc::new(Environment::default());
            let mut ctx = InsertionContext::new_empty(problem.clone(), env.clone());
            for (i, rj) in route_jobs.iter().enumerate() {
                let actor = problem
                    .fleet
                    .actors
                    .iter()
                    .find(|a| a.vehicle.dimens.get_vehicle_id().map(|id| id == &format!("v{i}")).unwrap_or(false))
                    .cloned()
                    .expect("actor");
                let mut route_ctx = ctx.solution.registry.get_route(&actor).expect("actor available");
                for (loc, single) in rj {
                    route_ctx.route_mut().tour.insert_last(Activity {
                        place: ActPlace { idx: 0, location: *loc, duration: 0., time: TimeWindow::max() },
                        schedule: Schedule::new(0., 0.),
                        job: Some(single.clone()),
                        commute: None,
                    });
                }
                ctx.problem.goal.accept_route_state(&mut route_ctx);
                ctx.solution.registry.use_route(&route_ctx);
                ctx.solution.routes.push(route_ctx);
            }
            let rctx = RefinementContext::new(
                problem.clone(),
                Box::new(create_elitism_population(problem.goal.clone(), env.clone())),
                TelemetryMode::None,
                env.clone(),
            );
            let mode = if case["mode"].as_str() == Some("improvement") { LKHSearchMode::ImprovementOnly } else { LKHSearchMode::Diverse };
            let op = LKHSearch::new(mode);
            calls.store(0, Ordering::SeqCst);
            armed.store(1, Ordering::SeqCst);
            let res = catch_unwind(AssertUnwindSafe(|| with_pool(1, || op.search(&rctx, &ctx))));
            armed.store(0, Ordering::SeqCst);
            match res {
                Ok(new_ctx) => {
                    let out: Vec<Value> = new_ctx
                        .solution
                        .routes
                        .iter()
                        .map(|rc| {
                            let vid = rc.route().actor.vehicle.dimens.get_vehicle_id().cloned().unwrap_or_default();
                            let ids: Vec<usize> = rc
                                .route()
                                .tour
                                .all_activities()
                                .filter_map(|a| a.job.as_ref().and_then(|j| j.dimens.get_job_id().cloned()))
                                .map(|id| id.parse().expect("numeric job id"))
                                .collect();
                            let locs: Vec<usize> = rc.route().tour.all_activities().map(|a| a.place.location).collect();
                            json!({ "vehicle": vid, "jobs": ids, "locs": locs })
                        })
                        .collect();
                    json!({ "routes": out, "unassigned": new_ctx.solution.unassigned.len(), "required": new_ctx.solution.required.len(),
                            "calls": calls.load(Ordering::SeqCst) })
                }
                Err(e) => {
                    if panic_text(&e).contains(BUDGET_MSG) {
                        json!({ "budget_exceeded": true, "calls": calls.load(Ordering::SeqCst) })
                    } else {
                        panic!("{}", panic_text(&e))
                    }
                }
            }
        }
        "kmedoids" => {
            let dist = matrix_of(&case["dist"]);
            let pts = usizes_of(&case["pts"]);
            let k = usize_of(&case["k"]);
            let threads = case.get("threads").map(usize_of).unwrap_or(1);
            let res = with_pool(threads, || create_kmedoids(&pts, k, |a: &usize, b: &usize| dist[*a][*b] as f64));
            json!({ "clusters": canon(&res) })
        }
        "hkmedoids" => {
            let dist = matrix_of(&case["dist"]);
            let pts = usizes_of(&case["pts"]);
            let tiers = usize_of(&case["tiers"]);
            let threads = case.get("threads").map(usize_of).unwrap_or(1);
            let dist = &dist;
            let res = with_pool(threads, || {
                create_hierarchical_kmedoids(&pts, tiers, move |a: &usize, b: &usize| dist[*a][*b] as f64)
            });
            json!({ "tiers": res.iter().map(canon).collect::<Vec<_>>() })
        }
        "jobclusters" => {
            // a real Problem (Jobs::new builds the neighbour index and the solver's clusters)
            let (problem, _) = cluster_problem(case);
            let all = problem.jobs.all();
            let by_id: HashMap<usize, Job> = all.iter().map(|j| (id_of(j), j.clone())).collect();
            // the neighbourhoods exactly as the public API hands them to the wrapper, for every fleet profile
            let rows: Vec<Value> = problem
                .fleet
                .profiles
                .iter()
                .map(|profile| {
                    Value::Array(
                        (0..all.len())
                            .map(|id| {
                                Value::Array(
                                    problem
                                        .jobs
                                        .neighbors(profile, &by_id[&id], Timestamp::default())
                                        .map(|(j, c)| json!([id_of(j), int_cost(c)]))
                                        .collect(),
                                )
                            })
                            .collect(),
                    )
                })
                .collect();
            let selected: Vec<Job> = usizes_of(&case["order"]).into_iter().map(|id| by_id[&id].clone()).collect();
            let min_points = if case["minp"].is_null() { None } else { Some(usize_of(&case["minp"])) };
            let epsilon = if case["eps"].is_null() {
                None
            } else {
                Some(i64_of(&case["eps"][0]) as f64 / i64_of(&case["eps"][1]) as f64)
            };
            // the call shape of vrp-cli `analyze clusters` (and of Jobs::new)
            let res = create_job_clusters(&selected, &problem.fleet, min_points, epsilon, |profile, job| {
                problem.jobs.neighbors(profile, job, Timestamp::default())
            });
            let profiles: Vec<usize> = problem.fleet.profiles.iter().map(|p| p.index).collect();
            let (clusters, err) = match res {
                Ok(cs) => (cs.iter().map(sorted_ids).collect::<Vec<_>>(), Value::Null),
                Err(e) => (vec![], json!(e.to_string())),
            };
            // what the cluster-removal ruin reads: Jobs::new -> create_job_clusters(jobs, fleet, Some(3), None, index neighbours)
            let solver: Vec<Vec<usize>> = problem.jobs.clusters().iter().map(sorted_ids).collect();
            json!({ "rows": rows, "profiles": profiles, "clusters": clusters, "err": err, "solver_clusters": solver })
        }
        "multitier" => {
            let size = usize_of(&case["size"]);
            let transport = ProfiledMatrices {
                size,
                dist: matrices_of(&case["dist"], size),
                dur: matrices_of(&case["dist"], size),
            };
            let profile = Profile::new(usize_of(&case["profile"]), None);
            let res = with_pool(1, || create_multi_tier_clusters(profile, &transport));
            match res {
                Ok(tiers) => json!({ "tiers": tiers.iter().map(canon).collect::<Vec<_>>() }),
                Err(e) => json!({ "err": e.to_string() }),
            }
        }
        _ => panic!("unknown op"),
    }
}

fn main() {
    vh::main_loop(run_case);
}
