//! C17: lkh_optimize, dbscan::create_clusters, create_kmedoids, create_hierarchical_kmedoids on the real code.
//! All data are integers (cost / distance matrices of integer-valued f64), so float arithmetic is exact.
use serde_json::{json, Value};
use std::collections::HashMap;
use std::panic::{catch_unwind, AssertUnwindSafe};
use std::sync::atomic::{AtomicUsize, Ordering};
use std::sync::mpsc::channel;
use std::time::Duration;
use vh::util::*;
use vrp_core::algorithms::clustering::dbscan::create_clusters;
use vrp_core::algorithms::clustering::kmedoids::{create_hierarchical_kmedoids, create_kmedoids};
use vrp_core::algorithms::lkh::{lkh_optimize, AdjacencySpec, Cost, Edge, Node};

static TIMEOUTS: AtomicUsize = AtomicUsize::new(0);

struct Adj {
    cost: Vec<Vec<f64>>,
    nbr: Vec<Vec<usize>>,
    empty: Vec<usize>,
}

impl AdjacencySpec for Adj {
    fn cost(&self, edge: &Edge) -> Cost {
        self.cost[edge.0][edge.1]
    }
    fn neighbours(&self, node: Node) -> &[Node] {
        self.nbr.get(node).unwrap_or(&self.empty).as_slice()
    }
}

fn matrix_of(v: &Value) -> Vec<Vec<i64>> {
    v.as_array().expect("matrix").iter().map(i64s_of).collect()
}

fn usizes_of(v: &Value) -> Vec<usize> {
    i64s_of(v).into_iter().map(|x| x as usize).collect()
}

fn canon(map: &HashMap<usize, Vec<usize>>) -> Value {
    let mut items: Vec<(usize, Vec<usize>)> = map
        .iter()
        .map(|(k, v)| {
            let mut v = v.clone();
            v.sort();
            (*k, v)
        })
        .collect();
    items.sort();
    Value::Array(items.into_iter().map(|(k, v)| json!([k, v])).collect())
}

fn with_pool<R: Send>(threads: usize, f: impl FnOnce() -> R + Send) -> R {
    if threads == 0 {
        f()
    } else {
        rayon::ThreadPoolBuilder::new().num_threads(threads).build().expect("pool").install(f)
    }
}

pub fn run_case(case: &Value) -> Value {
    let op = case["op"].as_str().unwrap();
    match op {
        "dbscan" => {
            let n = usize_of(&case["n"]);
            let universe: Vec<usize> = (0..n).collect();
            let nbr: Vec<Vec<usize>> = case["nbr"].as_array().unwrap().iter().map(usizes_of).collect();
            let pts: Vec<&usize> = usizes_of(&case["pts"]).into_iter().map(|i| &universe[i]).collect();
            let minp = usize_of(&case["minp"]);
            let empty: Vec<usize> = vec![];
            let (nbr, universe_ref, empty) = (&nbr, &universe, &empty);
            let clusters = create_clusters(pts.iter().copied(), minp, move |p: &usize| {
                nbr.get(*p).unwrap_or(empty).iter().map(move |&j| &universe_ref[j])
            });
            let out: Vec<Vec<usize>> = clusters.iter().map(|c| c.iter().map(|p| **p).collect()).collect();
            json!({ "clusters": out })
        }
        "lkh" => {
            // every timed-out run leaves a spinning thread behind: after a few of them stop running the search
            if TIMEOUTS.load(Ordering::SeqCst) >= 6 {
                return json!({ "skipped": true });
            }
            let cost: Vec<Vec<f64>> =
                matrix_of(&case["cost"]).into_iter().map(|r| r.into_iter().map(|x| x as f64).collect()).collect();
            let nbr: Vec<Vec<usize>> = case["nbr"].as_array().unwrap().iter().map(usizes_of).collect();
            let path = usizes_of(&case["path"]);
            let (tx, rx) = channel();
            // the search may not terminate if the code is broken: run it on a thread that is abandoned on timeout
            std::thread::spawn(move || {
                let adj = Adj { cost, nbr, empty: vec![] };
                let r = catch_unwind(AssertUnwindSafe(|| lkh_optimize(adj, path)));
                let _ = tx.send(r.map_err(|e| {
                    if let Some(s) = e.downcast_ref::<&str>() {
                        s.to_string()
                    } else if let Some(s) = e.downcast_ref::<String>() {
                        s.clone()
                    } else {
                        "panic".to_string()
                    }
                }));
            });
            let limit = case.get("timeout_ms").and_then(|v| v.as_u64()).unwrap_or(4000);
            match rx.recv_timeout(Duration::from_millis(limit)) {
                Ok(Ok(paths)) => json!({ "paths": paths }),
                Ok(Err(msg)) => panic!("{}", msg),
                Err(_) => {
                    // asymmetric matrices are outside the property and may legitimately cycle: not counted
                    if case["shape"].as_str() != Some("malformed-asymmetric") {
                        TIMEOUTS.fetch_add(1, Ordering::SeqCst);
                    }
                    json!({ "timeout": true })
                }
            }
        }
        "kmedoids" => {
            let dist = matrix_of(&case["dist"]);
            let pts = usizes_of(&case["pts"]);
            let k = usize_of(&case["k"]);
            let threads = case.get("threads").map(usize_of).unwrap_or(1);
            let res = with_pool(threads, || create_kmedoids(&pts, k, |a: &usize, b: &usize| dist[*a][*b] as f64));
            json!({ "clusters": canon(&res) })
        }
        "hkmedoids" => {
            let dist = matrix_of(&case["dist"]);
            let pts = usizes_of(&case["pts"]);
            let tiers = usize_of(&case["tiers"]);
            let threads = case.get("threads").map(usize_of).unwrap_or(1);
            let dist = &dist;
            let res = with_pool(threads, || {
                create_hierarchical_kmedoids(&pts, tiers, move |a: &usize, b: &usize| dist[*a][*b] as f64)
            });
            json!({ "tiers": res.iter().map(canon).collect::<Vec<_>>() })
        }
        _ => panic!("unknown op"),
    }
}

fn main() {
    vh::main_loop(run_case);
}
