//! C19, sub-stream `c19_weights`: the NUMERIC side of the real GSOM `Network` (public API only).
//! kind "wnet": Network::new on inputs given by their f64 bit patterns, then smooth / store_batch / compact / set_learning_rate;
//!   after every call the map is dumped in the iteration order of `Network::iter()`: key, node.coordinate, node.weights (bits),
//!   node.error (bits), total_hits, capacity, stored ids (ranked order), Node::mse, Node::unified_distance(1); Network::mse,
//!   max_unified_distance, learning rate, NetworkState (weights / mse / unified distance must be the same numbers), and the order
//!   in which individuals were added to node storages during the call (event log of the instrumented storage).
//! kind "adjust": Node::new + Node::adjust called directly.   kind "reldist": math::relative_distance called directly.
//! Floats travel as decimal strings of their bit pattern.
use rosomaxa::algorithms::gsom::{get_network_state, Coordinate, Input, Network, NetworkConfig, NetworkState, Node, Storage, StorageFactory};
use rosomaxa::algorithms::math::relative_distance;
use rosomaxa::population::{Alternative, Elitism};
use rosomaxa::prelude::*;
use serde_json::{json, Value};
use std::cmp::Ordering;
use std::fmt::{Display, Formatter};
use std::ops::RangeBounds;
use std::sync::atomic::{AtomicUsize, Ordering as AtOrd};
use std::sync::{Arc, Mutex};
use vh::util::*;

#[derive(Clone)]
struct Sol {
    id: i64,
    key: i64,
    tag: i64,
    weights: Vec<Float>,
}

impl HeuristicSolution for Sol {
    fn fitness(&self) -> impl Iterator<Item = Float> {
        std::iter::once(self.key as Float)
    }
    fn deep_copy(&self) -> Self {
        self.clone()
    }
}

impl Input for Sol {
    fn weights(&self) -> &[Float] {
        self.weights.as_slice()
    }
}

struct Ctx;

struct Obj;
impl HeuristicObjective for Obj {
    type Solution = Sol;
    fn total_order(&self, a: &Sol, b: &Sol) -> Ordering {
        a.key.cmp(&b.key)
    }
}
impl Alternative for Obj {
    fn maybe_new(&self, _: &dyn Random) -> Self {
        Obj
    }
}

/// deterministic Random (splitmix64 stream)
struct DetRandom {
    stream: Mutex<SplitMix>,
}
impl DetRandom {
    fn unit(&self) -> f64 {
        (self.stream.lock().unwrap().next() >> 11) as f64 / (1u64 << 53) as f64
    }
}
impl Random for DetRandom {
    fn uniform_int(&self, min: i32, max: i32) -> i32 {
        assert!(min <= max);
        let span = (max as i64 - min as i64 + 1) as u64;
        let d = self.stream.lock().unwrap().next();
        (min as i64 + (d % span) as i64) as i32
    }
    fn uniform_real(&self, min: Float, max: Float) -> Float {
        if (min - max).abs() < Float::EPSILON {
            return min;
        }
        assert!(min < max);
        let v = min + self.unit() * (max - min);
        if v >= max { min } else { v }
    }
    fn is_head_not_tails(&self) -> bool {
        self.stream.lock().unwrap().next() & 1 == 1
    }
    fn is_hit(&self, probability: Float) -> bool {
        self.unit() < probability.clamp(0., 1.)
    }
    fn weighted(&self, weights: &[usize]) -> usize {
        weights
            .iter()
            .zip(0_usize..)
            .map(|(&weight, index)| (-self.uniform_real(0., 1.).max(1e-12).ln() / weight as Float, index))
            .min_by(|a, b| a.0.total_cmp(&b.0))
            .unwrap()
            .1
    }
    fn get_rng(&self) -> RandomGen {
        RandomGen::new_repeatable()
    }
}

/// constant Random (case field "const_random"): every draw is the same, so the result of Network::new does not depend on the order in
/// which create_initial_nodes walks its std::collections::HashMap (random hasher: the noise draws reach the nodes in another
/// order in every process) -- used by the hand-made corpus cases that must replay identically
struct ConstRandom;
impl Random for ConstRandom {
    fn uniform_int(&self, min: i32, _max: i32) -> i32 {
        min
    }
    fn uniform_real(&self, min: Float, max: Float) -> Float {
        min + 0.5 * (max - min)
    }
    fn is_head_not_tails(&self) -> bool {
        true
    }
    fn is_hit(&self, probability: Float) -> bool {
        probability > 0.
    }
    fn weighted(&self, _weights: &[usize]) -> usize {
        0
    }
    fn get_rng(&self) -> RandomGen {
        RandomGen::new_repeatable()
    }
}

#[derive(Clone, Debug)]
enum Ev {
    Add(i64),
    Drain,
}

type Log = Arc<Mutex<Vec<Ev>>>;

/// the same five calls as rosomaxa.rs :: IndividualStorage, plus the event log
struct LogStorage {
    serial: usize,
    cap: usize,
    population: Elitism<Obj, Sol>,
    log: Log,
}

impl Storage for LogStorage {
    type Item = Sol;
    fn add(&mut self, input: Sol) {
        self.log.lock().unwrap().push(Ev::Add(input.id));
        self.population.add(input);
    }
    fn iter(&self) -> Box<dyn Iterator<Item = &'_ Sol> + '_> {
        Box::new(self.population.ranked())
    }
    fn drain<R>(&mut self, range: R) -> Vec<Sol>
    where
        R: RangeBounds<usize>,
    {
        self.log.lock().unwrap().push(Ev::Drain);
        self.population.drain(range).into_iter().collect()
    }
    fn resize(&mut self, size: usize) {
        self.cap = size;
        self.population.set_max_population_size(size);
    }
    fn size(&self) -> usize {
        self.population.size()
    }
}

impl Display for LogStorage {
    fn fmt(&self, f: &mut Formatter<'_>) -> std::fmt::Result {
        write!(f, "{}", self.population)
    }
}

struct LogFactory {
    node_size: usize,
    random: Arc<dyn Random>,
    log: Log,
    counter: Arc<AtomicUsize>,
}

fn new_storage(node_size: usize, random: Arc<dyn Random>, log: Log, serial: usize) -> LogStorage {
    let mut elitism =
        Elitism::new_with_dedup(Arc::new(Obj), random, node_size, node_size, Box::new(|_, a: &Sol, b: &Sol| a.tag == b.tag));
    elitism.maybe_change();
    LogStorage { serial, cap: node_size, population: elitism, log }
}

impl StorageFactory<Ctx, Sol, LogStorage> for LogFactory {
    fn eval(&self, _: &Ctx) -> LogStorage {
        let serial = self.counter.fetch_add(1, AtOrd::SeqCst);
        new_storage(self.node_size, self.random.clone(), self.log.clone(), serial)
    }
}

type Net = Network<Ctx, Sol, LogStorage, LogFactory>;

/// [id, key, tag, weight bits...]
fn sol_of(v: &Value) -> Sol {
    let a = v.as_array().expect("individual");
    Sol { id: i64_of(&a[0]), key: i64_of(&a[1]), tag: i64_of(&a[2]), weights: a[3..].iter().map(f64_of).collect() }
}

fn fbits(xs: &[Float]) -> Vec<Value> {
    xs.iter().map(|&x| bits_of(x)).collect()
}

fn dump(net: &Net) -> Value {
    let state: NetworkState = get_network_state(net);
    let mut nodes: Vec<Value> = vec![];
    let mut state_bad = 0usize;
    for (k, (c, node)) in net.iter().enumerate() {
        let ids: Vec<i64> = node.storage.iter().map(|s| s.id).collect();
        let mse = node.mse(net);
        let ud = node.unified_distance(net, 1);
        // NetworkState is built from get_nodes() = the same iteration order
        match state.nodes.get(k) {
            Some(ns) => {
                let same = |a: Float, b: Float| a.to_bits() == b.to_bits() || (a.is_nan() && b.is_nan());
                if ns.coordinate != (node.coordinate.0, node.coordinate.1)
                    || !same(ns.mse, mse)
                    || !same(ns.unified_distance, ud)
                    || ns.weights.len() != node.weights.len()
                    || ns.weights.iter().zip(node.weights.iter()).any(|(a, b)| !same(*a, *b))
                    || ns.total_hits != node.total_hits
                {
                    state_bad += 1;
                }
            }
            None => state_bad += 1,
        }
        match net.find(c) {
            Some(n) if n.storage.serial == node.storage.serial => {}
            _ => state_bad += 1,
        }
        nodes.push(json!([c.0, c.1, node.coordinate.0, node.coordinate.1, fbits(&node.weights), bits_of(node.error), node.total_hits,
                          node.storage.cap, ids, bits_of(mse), bits_of(ud)]));
    }
    let mse = net.mse();
    if state.nodes.len() != net.size() || !(state.mse.to_bits() == mse.to_bits() || (state.mse.is_nan() && mse.is_nan())) {
        state_bad += 1;
    }
    if net.get_nodes().count() != net.size() {
        state_bad += 1;
    }
    json!({"nodes": nodes, "mse": bits_of(mse), "max_ud": bits_of(net.max_unified_distance()), "lr": bits_of(net.get_learning_rate()),
           "dimension": net.dimension(), "state_bad": state_bad})
}

/// ids in the order they were added to node storages, split into training rounds (a round starts with the drains of retrain)
fn rounds_of(log: &[Ev]) -> Vec<Vec<i64>> {
    let mut rounds: Vec<Vec<i64>> = vec![];
    let mut cur: Vec<i64> = vec![];
    let mut prev_was_drain = false;
    let mut started = false;
    for ev in log {
        match ev {
            Ev::Drain => {
                if !prev_was_drain && started {
                    rounds.push(std::mem::take(&mut cur));
                }
                prev_was_drain = true;
                started = true;
            }
            Ev::Add(id) => {
                prev_was_drain = false;
                started = true;
                cur.push(*id);
            }
        }
    }
    if started {
        rounds.push(cur);
    }
    rounds
}

fn panic_msg(e: &Box<dyn std::any::Any + Send>) -> String {
    e.downcast_ref::<String>().cloned().or_else(|| e.downcast_ref::<&str>().map(|s| s.to_string())).unwrap_or_else(|| "panic".to_string())
}

fn run_wnet(case: &Value) -> Value {
    let cfg = &case["cfg"];
    let seed = case["seed"].as_u64().unwrap_or(1);
    let random: Arc<dyn Random> = if case["const_random"].as_bool().unwrap_or(false) {
        Arc::new(ConstRandom)
    } else {
        Arc::new(DetRandom { stream: Mutex::new(SplitMix(seed)) })
    };
    let log: Log = Arc::new(Mutex::new(vec![]));
    let counter = Arc::new(AtomicUsize::new(0));
    let data: Vec<Sol> = case["data"].as_array().unwrap().iter().map(sol_of).collect();
    let dimension = data[0].weights.len();
    let spread_factor = f64_of(&cfg["sf"]);
    let config = NetworkConfig {
        node_size: usize_of(&cfg["node_size"]),
        spread_factor,
        distribution_factor: f64_of(&cfg["df"]),
        learning_rate: f64_of(&cfg["lr"]),
        rebalance_memory: usize_of(&cfg["rebalance"]),
        has_initial_error: true,
    };
    // the expression of Network::new (growing_threshold is private)
    let thr: Float = -1. * dimension as Float * spread_factor.log2();
    let ctx = Ctx;
    let made = {
        let (random2, log2, counter2) = (random.clone(), log.clone(), counter.clone());
        Net::new(&ctx, data, config, random.clone(), move |node_size| LogFactory {
            node_size,
            random: random2.clone(),
            log: log2.clone(),
            counter: counter2.clone(),
        })
    };
    let mut net = match made {
        Ok(n) => n,
        Err(e) => return json!({"created": 1, "err": e.to_string(), "trace": []}),
    };
    let mut trace: Vec<Value> = vec![];
    log.lock().unwrap().clear();
    trace.push(dump(&net));
    for op in case["ops"].as_array().unwrap() {
        let name = op["op"].as_str().unwrap();
        let r = std::panic::catch_unwind(std::panic::AssertUnwindSafe(|| match name {
            "store" => {
                let xs: Vec<Sol> = op["xs"].as_array().unwrap().iter().map(sol_of).collect();
                net.store_batch(&ctx, xs, usize_of(&op["time"]));
            }
            "smooth" => net.smooth(&ctx, usize_of(&op["count"]), |_: &mut Sol| ()),
            "compact" => net.compact(&ctx),
            "lr" => net.set_learning_rate(f64_of(&op["v"])),
            _ => panic!("unknown op"),
        }));
        if let Err(e) = r {
            trace.push(json!({"panic": panic_msg(&e)}));
            break;
        }
        let evs: Vec<Ev> = std::mem::take(&mut *log.lock().unwrap());
        let mut d = dump(&net);
        d["rounds"] = json!(rounds_of(&evs));
        trace.push(d);
    }
    json!({"created": 0, "thr": bits_of(thr), "trace": trace})
}

fn run_adjust(case: &Value) -> Value {
    let w = f64s_of(&case["w"]);
    let t = f64s_of(&case["t"]);
    let lr = f64_of(&case["lr"]);
    let random: Arc<dyn Random> = Arc::new(DetRandom { stream: Mutex::new(SplitMix(1)) });
    let storage = new_storage(1, random, Arc::new(Mutex::new(vec![])), 0);
    let mut node: Node<Sol, LogStorage> = Node::new(Coordinate(0, 0), w.as_slice(), 0., 1, storage);
    node.adjust(t.as_slice(), lr);
    json!({"w": fbits(&node.weights), "error": bits_of(node.error), "coordinate": [node.coordinate.0, node.coordinate.1]})
}

fn run_reldist(case: &Value) -> Value {
    let a = f64s_of(&case["a"]);
    let b = f64s_of(&case["b"]);
    json!({"d": bits_of(relative_distance(a.iter(), b.iter()))})
}

pub fn run_case(case: &Value) -> Value {
    // a fresh thread per case: the crate's repeatable RNG (get_rng) is thread-local, so every case starts from the same state
    let c = case.clone();
    let h = std::thread::spawn(move || match c["kind"].as_str().unwrap() {
        "wnet" => run_wnet(&c),
        "adjust" => run_adjust(&c),
        "reldist" => run_reldist(&c),
        _ => panic!("unknown kind"),
    });
    match h.join() {
        Ok(v) => v,
        Err(e) => panic!("{}", panic_msg(&e)),
    }
}

fn main() {
    vh::main_loop(run_case);
}
