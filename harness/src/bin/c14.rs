//! C14: histories over the public Tour / Route / RouteContext / Registry / RegistryContext API of vrp-core.
//! A case is a history; it is executed step by step on the REAL code and the observable state is dumped after every step.
//! Several slots (deep copies push a new slot) make aliasing between a copy and its original visible.
//! Kind "ho": histories over InsertionContext / Solution slots: the hand-over factories (InsertionContext::new / new_empty /
//! new_from_solution, Solution::from(InsertionContext)), keep_routes / restore and registry operations in between.
use serde_json::{json, Value};
use std::panic::{catch_unwind, AssertUnwindSafe};
use std::sync::{Arc, Mutex};
use vh::util::*;
use vrp_core::construction::heuristics::RegistryContext;
use vrp_core::models::common::{Schedule, TimeWindow};
use vrp_core::models::problem::{Actor, Costs, Driver, SimpleActivityCost, Single};
use vrp_core::models::solution::{Activity, Place, Registry, Route, Tour};
use vrp_core::models::{Extras, Lock, LockDetail, LockOrder, LockPosition, Problem, Solution};
use vrp_core::prelude::*;
use vrp_core::rosomaxa::prelude::HeuristicSolution;
use vrp_core::rosomaxa::utils::RandomGen;

const START_TAG: usize = 0;
const END_TAG: usize = 1;

struct VerifStateKey;

fn driver() -> Arc<Driver> {
    Arc::new(Driver {
        costs: Costs { fixed: 0., per_distance: 0., per_driving_time: 0., per_waiting_time: 0., per_service_time: 0. },
        dimens: Default::default(),
        details: vec![],
    })
}

/// one vehicle per entry `(group, detail variants)`; Fleet::new creates one actor per detail (equal variants give
/// IDENTICAL details: two distinct actors of the same vehicle); the group key of an actor is its vehicle's profile index
fn make_fleet(spec: &[(usize, Vec<usize>)], closed: bool) -> Fleet {
    let vehicles = spec
        .iter()
        .enumerate()
        .map(|(i, (g, variants))| {
            let mut b = VehicleBuilder::default().id(&format!("v{i}")).set_profile_idx(*g).capacity(SingleDimLoad::new(1));
            for &d in variants {
                let detail = VehicleDetailBuilder::default().set_start_location(START_TAG).set_start_time(d as f64);
                let detail = if closed { detail.set_end_location(END_TAG) } else { detail };
                b = b.add_detail(detail.build().unwrap());
            }
            Arc::new(b.build().unwrap())
        })
        .collect::<Vec<_>>();
    Fleet::new(vec![driver()], vehicles, |_| |actor: &Actor| actor.vehicle.profile.index)
}

// ------------------------------------------------------------------------------------------------ tours
struct JobTable {
    jobs: Vec<Job>,
    /// singles[j][sub]
    singles: Vec<Vec<Arc<Single>>>,
}

fn make_jobs(spec: &[i64]) -> JobTable {
    make_jobs_at(spec, 0)
}

fn make_jobs_at(spec: &[i64], base: usize) -> JobTable {
    let mut jobs = vec![];
    let mut singles = vec![];
    for (j, &n) in spec.iter().enumerate() {
        if n < 2 {
            let job = SingleBuilder::default().id(&format!("j{j}")).location(base + j).unwrap().build_as_job().unwrap();
            singles.push(vec![job.to_single().clone()]);
            jobs.push(job);
        } else {
            let mut b = MultiBuilder::default().id(&format!("j{j}"));
            for s in 0..n {
                b = b.add_job(SingleBuilder::default().id(&format!("j{j}s{s}")).location(base + j).unwrap().build().unwrap());
            }
            let multi = b.build().unwrap();
            singles.push(multi.jobs.clone());
            jobs.push(Job::Multi(multi));
        }
    }
    // sub-jobs of the multi jobs wrapped as standalone jobs: they are NOT jobs of a tour holding the multi
    let subs: Vec<Job> = singles.iter().filter(|ss| ss.len() >= 2).flat_map(|ss| ss.iter().map(|s| Job::Single(s.clone()))).collect();
    jobs.extend(subs);
    JobTable { jobs, singles }
}

fn job_enc(table: &JobTable, job: Option<Job>) -> usize {
    match job {
        None => 0,
        Some(job) => table.jobs.iter().position(|j| *j == job).map(|p| p + 1).unwrap_or(9999),
    }
}

fn new_activity(job: Option<Arc<Single>>, sub: usize, tag: usize) -> Activity {
    Activity {
        place: Place { idx: sub, location: tag, duration: 0., time: TimeWindow::max() },
        schedule: Schedule { arrival: 0., departure: 0. },
        job,
        commute: None,
    }
}

fn enc_act(table: &JobTable, a: &Activity) -> Value {
    json!([job_enc(table, a.retrieve_job()), a.place.location])
}

fn dump_route_ctx(table: &JobTable, rc: &RouteContext) -> Value {
    let tour = &rc.route().tour;
    let acts: Vec<Value> = tour.all_activities().map(|a| enc_act(table, a)).collect();
    let mut jobs: Vec<usize> = tour.jobs().map(|j| job_enc(table, Some(j.clone()))).collect();
    jobs.sort();
    let legs: Vec<Value> = tour
        .legs()
        .map(|(acts, idx)| {
            let mut v = vec![idx];
            v.extend(acts.iter().map(|a| a.place.location));
            json!(v)
        })
        .collect();
    let state = rc.state().get_tour_state::<VerifStateKey, i64>().map(|v| *v as usize + 1).unwrap_or(0);
    let contains: Vec<usize> =
        table.jobs.iter().enumerate().filter(|(_, j)| tour.contains(j) || tour.has_job(j)).map(|(i, _)| i + 1).collect();
    json!({
        "acts": acts, "jobs": jobs, "legs": legs,
        "counts": [tour.total(), tour.job_activity_count(), tour.job_count(), tour.has_jobs() as usize, state],
        "start": tour.start().map(|a| enc_act(table, a)),
        "end": tour.end().map(|a| enc_act(table, a)),
        "contains": contains,
    })
}

fn tour_step(table: &JobTable, slots: &mut Vec<RouteContext>, op: &Value) -> (usize, usize) {
    let name = op[0].as_str().unwrap();
    let k = usize_of(&op[1]);
    match name {
        "ins" => {
            let (j, sub, tag, idx) = (usize_of(&op[2]), usize_of(&op[3]), usize_of(&op[4]), usize_of(&op[5]));
            let single = table.singles[j][sub].clone();
            slots[k].route_mut().tour.insert_at(new_activity(Some(single), sub, tag), idx);
            (0, k)
        }
        "insdepot" => {
            let (tag, idx) = (usize_of(&op[2]), usize_of(&op[3]));
            slots[k].route_mut().tour.insert_at(new_activity(None, 0, tag), idx);
            (0, k)
        }
        "last" => {
            let (j, sub, tag) = (usize_of(&op[2]), usize_of(&op[3]), usize_of(&op[4]));
            let single = table.singles[j][sub].clone();
            slots[k].route_mut().tour.insert_last(new_activity(Some(single), sub, tag));
            (0, k)
        }
        "rm" => {
            let j = usize_of(&op[2]);
            let was = slots[k].route_mut().tour.remove(&table.jobs[j]);
            (was as usize, k)
        }
        "rmat" => {
            let idx = usize_of(&op[2]);
            let job = slots[k].route_mut().tour.remove_activity_at(idx);
            (job_enc(table, Some(job)) - 1, k)
        }
        "q" => {
            let (what, j) = (usize_of(&op[2]), usize_of(&op[3]));
            let tour = &slots[k].route().tour;
            let job = &table.jobs[j];
            let ret = match what {
                0 => tour.index(job).map(|i| i + 1).unwrap_or(0),
                1 => tour.index_last(job).map(|i| i + 1).unwrap_or(0),
                2 => tour.job_activities(job).count(),
                _ => {
                    assert!(tour.contains(job) == tour.has_job(job), "contains and has_job disagree");
                    tour.contains(job) as usize
                }
            };
            (ret, k)
        }
        "copy" => {
            let mode = usize_of(&op[2]);
            let copy = match mode {
                0 => {
                    let tour: Tour = slots[k].route().tour.deep_copy();
                    RouteContext::new_with_state(Route { actor: slots[k].route().actor.clone(), tour }, RouteState::default())
                }
                1 => RouteContext::new_with_state(slots[k].route().deep_copy(), RouteState::default()),
                _ => slots[k].deep_copy(),
            };
            slots.push(copy);
            (slots.len() - 1, slots.len() - 1)
        }
        "state" => {
            let v = i64_of(&op[2]);
            slots[k].state_mut().set_tour_state::<VerifStateKey, i64>(v);
            (0, k)
        }
        _ => panic!("unknown tour op"),
    }
}

fn run_tour(case: &Value) -> Value {
    let closed = case["closed"].as_bool().unwrap();
    let table = make_jobs(&i64s_of(&case["jobs"]));
    let fleet = make_fleet(&[(0, vec![0])], closed);
    let mut slots = vec![RouteContext::new(fleet.actors[0].clone())];
    let mut steps = vec![];
    let mut panic: Option<String> = None;
    for op in case["ops"].as_array().unwrap() {
        let res = catch_unwind(AssertUnwindSafe(|| tour_step(&table, &mut slots, op)));
        match res {
            Ok((ret, k)) => steps.push(json!({"ret": ret, "dump": dump_route_ctx(&table, &slots[k])})),
            Err(e) => {
                panic = Some(
                    e.downcast_ref::<&str>().map(|s| s.to_string()).or_else(|| e.downcast_ref::<String>().cloned()).unwrap_or("panic".into()),
                );
                break;
            }
        }
    }
    // a panicking step may leave the touched slot half-updated (jobs.insert happens before Vec::insert): the final dump is only
    // compared for histories that did not panic
    let fin: Vec<Value> = slots.iter().map(|rc| dump_route_ctx(&table, rc)).collect();
    json!({"steps": steps, "stop": panic, "final": fin})
}

// ------------------------------------------------------------------------------------------------ registry
struct ScriptRandom {
    mode: Mutex<i64>,
    calls: Mutex<Vec<(i32, i32)>>,
}
impl Random for ScriptRandom {
    fn uniform_int(&self, min: i32, max: i32) -> i32 {
        self.calls.lock().unwrap().push((min, max));
        match *self.mode.lock().unwrap() {
            0 => min,
            1 => max,
            _ => min + (max - min) / 2,
        }
    }
    fn uniform_real(&self, min: Float, _: Float) -> Float {
        min
    }
    fn is_head_not_tails(&self) -> bool {
        true
    }
    fn is_hit(&self, _: Float) -> bool {
        true
    }
    fn weighted(&self, _: &[usize]) -> usize {
        0
    }
    fn get_rng(&self) -> RandomGen {
        RandomGen::new_repeatable()
    }
}

enum RSlot {
    Raw(Registry),
    Ctx(RegistryContext),
}
impl RSlot {
    fn registry(&self) -> &Registry {
        match self {
            RSlot::Raw(r) => r,
            RSlot::Ctx(c) => c.resources(),
        }
    }
}

struct Actors {
    /// fleet actors followed by foreign actors (of another fleet, unknown to the registry)
    all: Vec<Arc<Actor>>,
}
impl Actors {
    fn id(&self, a: &Arc<Actor>) -> usize {
        self.all.iter().position(|x| Arc::ptr_eq(x, a)).unwrap_or(9999)
    }
}

fn dump_reg(actors: &Actors, slot: &RSlot) -> Value {
    let reg = slot.registry();
    let mut avail: Vec<usize> = reg.available().map(|a| actors.id(&a)).collect();
    avail.sort();
    let all: Vec<usize> = reg.all().map(|a| actors.id(&a)).collect();
    json!({"avail": avail, "all": all})
}

fn make_goal() -> GoalContext {
    struct Zero;
    impl FeatureObjective for Zero {
        fn fitness(&self, _: &InsertionContext) -> Cost {
            0.
        }
        fn estimate(&self, _: &MoveContext<'_>) -> Cost {
            0.
        }
    }
    let feature = FeatureBuilder::default().with_name("f0").with_objective(Zero).build().unwrap();
    GoalContextBuilder::with_features(&[feature]).unwrap().build().unwrap()
}

fn run_reg(case: &Value) -> Value {
    let groups: Vec<usize> = i64s_of(&case["groups"]).iter().map(|&g| g as usize).collect();
    let is_ctx = case["ctx"].as_bool().unwrap();
    let closed = case["closed"].as_bool().unwrap_or(true);
    let spec: Vec<(usize, Vec<usize>)> = match case.get("fleet") {
        Some(Value::Array(vs)) => vs
            .iter()
            .map(|v| (usize_of(&v[0]), i64s_of(&v[1]).iter().map(|&d| d as usize).collect()))
            .collect(),
        _ => groups.iter().map(|&g| (g, vec![0])).collect(),
    };
    let fleet = make_fleet(&spec, closed);
    assert!(fleet.actors.len() == groups.len(), "fleet spec and groups disagree");
    let foreign = make_fleet(&[(0, vec![0]), (1, vec![0]), (0, vec![0])], closed);
    let actors = Actors { all: fleet.actors.iter().chain(foreign.actors.iter()).cloned().collect() };
    let random = Arc::new(ScriptRandom { mode: Mutex::new(0), calls: Mutex::new(vec![]) });
    let registry = Registry::new(&fleet, random.clone());
    let goal = make_goal();
    let table = make_jobs(&[0]);
    let mut slots = vec![if is_ctx { RSlot::Ctx(RegistryContext::new(&goal, registry)) } else { RSlot::Raw(registry) }];
    let mut steps = vec![];
    let mut panic: Option<String> = None;
    for op in case["ops"].as_array().unwrap() {
        let res = catch_unwind(AssertUnwindSafe(|| {
            let name = op[0].as_str().unwrap();
            let k = usize_of(&op[1]);
            let mut extra = json!({});
            let (ret, k) = match name {
                "use" => {
                    let a = actors.all[usize_of(&op[2])].clone();
                    let b = match &mut slots[k] {
                        RSlot::Raw(r) => r.use_actor(&a),
                        RSlot::Ctx(c) => c.use_route(&RouteContext::new(a.clone())),
                    };
                    (b as usize, k)
                }
                "free" => {
                    let a = actors.all[usize_of(&op[2])].clone();
                    let b = match &mut slots[k] {
                        RSlot::Raw(r) => r.free_actor(&a),
                        RSlot::Ctx(c) => c.free_route(RouteContext::new(a.clone())),
                    };
                    (b as usize, k)
                }
                "get" => {
                    let a = actors.all[usize_of(&op[2])].clone();
                    let got = match &mut slots[k] {
                        RSlot::Raw(r) => r.use_actor(&a).then(|| RouteContext::new(a.clone())),
                        RSlot::Ctx(c) => c.get_route(&a),
                    };
                    if let Some(mut rc) = got {
                        // the handed-out route must be a fresh empty route of that actor, independent of the prototype
                        extra = json!({"route_actor": actors.id(&rc.route().actor), "route_total": rc.route().tour.total(),
                                       "route_jobs": rc.route().tour.job_count()});
                        rc.route_mut().tour.insert_last(new_activity(Some(table.singles[0][0].clone()), 0, 1));
                        (1, k)
                    } else {
                        (0, k)
                    }
                }
                "next" => {
                    *random.mode.lock().unwrap() = i64_of(&op[2]);
                    random.calls.lock().unwrap().clear();
                    let next: Vec<usize> = match &slots[k] {
                        RSlot::Raw(r) => r.next().map(|a| actors.id(&a)).collect(),
                        RSlot::Ctx(c) => c
                            .next_route()
                            .map(|rc| {
                                assert!(rc.route().tour.job_count() == 0, "prototype route is not empty");
                                actors.id(&rc.route().actor)
                            })
                            .collect(),
                    };
                    let draws: Vec<Value> = random.calls.lock().unwrap().iter().map(|&(a, b)| json!([a, b])).collect();
                    extra = json!({"next": next, "draws": draws});
                    (0, k)
                }
                "copy" => {
                    let c = match &slots[k] {
                        RSlot::Raw(r) => RSlot::Raw(r.deep_copy()),
                        RSlot::Ctx(c) => RSlot::Ctx(c.deep_copy()),
                    };
                    slots.push(c);
                    (slots.len() - 1, slots.len() - 1)
                }
                "slice" => {
                    let keep: Vec<usize> = i64s_of(&op[2]).iter().map(|&g| g as usize).collect();
                    let filter = |a: &Actor| {
                        let id = actors.all.iter().position(|x| std::ptr::eq(x.as_ref(), a)).unwrap_or(9999);
                        keep.contains(&id)
                    };
                    let c = match &slots[k] {
                        RSlot::Raw(r) => RSlot::Raw(r.deep_slice(filter)),
                        RSlot::Ctx(c) => RSlot::Ctx(c.deep_slice(filter)),
                    };
                    slots.push(c);
                    (slots.len() - 1, slots.len() - 1)
                }
                _ => panic!("unknown registry op"),
            };
            (ret, k, extra)
        }));
        match res {
            Ok((ret, k, extra)) => steps.push(json!({"ret": ret, "dump": dump_reg(&actors, &slots[k]), "extra": extra})),
            Err(e) => {
                panic = Some(
                    e.downcast_ref::<&str>().map(|s| s.to_string()).or_else(|| e.downcast_ref::<String>().cloned()).unwrap_or("panic".into()),
                );
                break;
            }
        }
    }
    let fin: Vec<Value> = slots.iter().map(|s| dump_reg(&actors, s)).collect();
    json!({"steps": steps, "stop": panic, "final": fin})
}


// ------------------------------------------------------------------------------------------------ hand-over
enum HSlot {
    Ctx(InsertionContext),
    Sol(Solution),
}

fn enc_route(actors: &Actors, table: &JobTable, route: &Route) -> Value {
    let mut v = vec![json!(actors.id(&route.actor)), json!(route.tour.has_jobs() as usize)];
    v.extend(route.tour.all_activities().map(|a| enc_act(table, a)));
    json!(v)
}

fn dump_ho(actors: &Actors, table: &JobTable, random: &ScriptRandom, slot: &HSlot) -> Value {
    let (kind, reg) = match slot {
        HSlot::Ctx(ctx) => (0, ctx.solution.registry.resources()),
        HSlot::Sol(sol) => (1, &sol.registry),
    };
    let mut avail: Vec<usize> = reg.available().map(|a| actors.id(&a)).collect();
    avail.sort();
    let all: Vec<usize> = reg.all().map(|a| actors.id(&a)).collect();
    match slot {
        HSlot::Ctx(ctx) => {
            let routes: Vec<Value> = ctx.solution.routes.iter().map(|rc| enc_route(actors, table, rc.route())).collect();
            // get_route for every actor on a copy of the registry: which actors are handed out, and is the route fresh
            let mut copy = ctx.solution.registry.deep_copy();
            let mut gettable = vec![];
            let mut stale = vec![];
            for (i, a) in actors.all.iter().enumerate() {
                if let Some(rc) = copy.get_route(a) {
                    gettable.push(i);
                    if actors.id(&rc.route().actor) != i || rc.route().tour.job_count() != 0 {
                        stale.push(i);
                    }
                }
            }
            *random.mode.lock().unwrap() = 0;
            random.calls.lock().unwrap().clear();
            let next: Vec<usize> = ctx
                .solution
                .registry
                .next_route()
                .map(|rc| {
                    assert!(rc.route().tour.job_count() == 0, "prototype route is not empty");
                    actors.id(&rc.route().actor)
                })
                .collect();
            let draws: Vec<Value> = random.calls.lock().unwrap().iter().map(|&(a, b)| json!([a, b])).collect();
            json!({"kind": kind, "avail": avail, "all": all, "routes": routes, "gettable": gettable, "stale": stale,
                   "next": next, "draws": draws})
        }
        HSlot::Sol(sol) => {
            let routes: Vec<Value> = sol.routes.iter().map(|r| enc_route(actors, table, r)).collect();
            json!({"kind": kind, "avail": avail, "all": all, "routes": routes, "gettable": [], "stale": [], "next": [], "draws": []})
        }
    }
}

/// a copy of a solution made of the deep copies of its registry and routes (Solution is consumed by new_from_solution)
fn copy_solution(sol: &Solution) -> Solution {
    Solution {
        cost: sol.cost,
        registry: sol.registry.deep_copy(),
        routes: sol.routes.iter().map(|r| r.deep_copy()).collect(),
        unassigned: vec![],
        telemetry: None,
    }
}

fn ho_step(
    problem: &Arc<Problem>,
    env: &Arc<Environment>,
    actors: &Actors,
    table: &JobTable,
    random: &ScriptRandom,
    slots: &mut Vec<HSlot>,
    op: &Value,
) -> (usize, usize, Value) {
    let name = op[0].as_str().unwrap();
    let k = usize_of(&op[1]);
    let mut extra = json!({});
    let ret = match name {
        "getpush" => {
            let a = actors.all[usize_of(&op[2])].clone();
            let HSlot::Ctx(ctx) = &mut slots[k] else { panic!("getpush on a solution") };
            match ctx.solution.registry.get_route(&a) {
                Some(rc) => {
                    extra = json!({"route_actor": actors.id(&rc.route().actor), "route_jobs": rc.route().tour.job_count()});
                    ctx.solution.routes.push(rc);
                    1
                }
                None => 0,
            }
        }
        "use" => {
            let a = actors.all[usize_of(&op[2])].clone();
            (match &mut slots[k] {
                HSlot::Ctx(ctx) => ctx.solution.registry.use_route(&RouteContext::new(a.clone())),
                HSlot::Sol(sol) => sol.registry.use_actor(&a),
            }) as usize
        }
        "free" => {
            let a = actors.all[usize_of(&op[2])].clone();
            (match &mut slots[k] {
                HSlot::Ctx(ctx) => ctx.solution.registry.free_route(RouteContext::new(a.clone())),
                HSlot::Sol(sol) => sol.registry.free_actor(&a),
            }) as usize
        }
        "get" => {
            let a = actors.all[usize_of(&op[2])].clone();
            let HSlot::Ctx(ctx) = &mut slots[k] else { panic!("get on a solution") };
            match ctx.solution.registry.get_route(&a) {
                Some(mut rc) => {
                    extra = json!({"route_actor": actors.id(&rc.route().actor), "route_jobs": rc.route().tour.job_count()});
                    rc.route_mut().tour.insert_last(new_activity(Some(table.singles[0][0].clone()), 0, 9));
                    1
                }
                None => 0,
            }
        }
        "next" => {
            *random.mode.lock().unwrap() = i64_of(&op[2]);
            random.calls.lock().unwrap().clear();
            let HSlot::Ctx(ctx) = &slots[k] else { panic!("next on a solution") };
            let next: Vec<usize> = ctx.solution.registry.next_route().map(|rc| actors.id(&rc.route().actor)).collect();
            let draws: Vec<Value> = random.calls.lock().unwrap().iter().map(|&(a, b)| json!([a, b])).collect();
            extra = json!({"next": next, "draws": draws});
            0
        }
        "last" => {
            let (i, j, tag) = (usize_of(&op[2]), usize_of(&op[3]), usize_of(&op[4]));
            let act = new_activity(Some(table.singles[j][0].clone()), 0, tag);
            match &mut slots[k] {
                HSlot::Ctx(ctx) => ctx.solution.routes[i].route_mut().tour.insert_last(act),
                HSlot::Sol(sol) => sol.routes[i].tour.insert_last(act),
            };
            0
        }
        "rm" => {
            let (i, j) = (usize_of(&op[2]), usize_of(&op[3]));
            (match &mut slots[k] {
                HSlot::Ctx(ctx) => ctx.solution.routes[i].route_mut().tour.remove(&table.jobs[j]),
                HSlot::Sol(sol) => sol.routes[i].tour.remove(&table.jobs[j]),
            }) as usize
        }
        "keep" => {
            let keep: Vec<usize> = i64s_of(&op[2]).iter().map(|&g| g as usize).collect();
            let HSlot::Ctx(ctx) = &mut slots[k] else { panic!("keep on a solution") };
            ctx.solution.keep_routes(&|rc| keep.contains(&actors.id(&rc.route().actor)));
            0
        }
        "restore" => {
            let HSlot::Ctx(ctx) = &mut slots[k] else { panic!("restore on a solution") };
            ctx.restore();
            0
        }
        "add" => {
            let a = actors.all[usize_of(&op[2])].clone();
            let HSlot::Sol(sol) = &mut slots[k] else { panic!("add on a context") };
            sol.routes.push(Route { actor: a.clone(), tour: Tour::new(&a) });
            0
        }
        "fromsol" => {
            let HSlot::Sol(sol) = &slots[k] else { panic!("fromsol on a context") };
            let ctx = InsertionContext::new_from_solution(problem.clone(), (copy_solution(sol), None), env.clone());
            slots.push(HSlot::Ctx(ctx));
            return (slots.len() - 1, slots.len() - 1, extra);
        }
        "into" => {
            let HSlot::Ctx(ctx) = &slots[k] else { panic!("into on a solution") };
            let sol: Solution = ctx.deep_copy().into();
            slots.push(HSlot::Sol(sol));
            return (slots.len() - 1, slots.len() - 1, extra);
        }
        "copy" => {
            let c = match &slots[k] {
                HSlot::Ctx(ctx) => HSlot::Ctx(ctx.deep_copy()),
                HSlot::Sol(sol) => HSlot::Sol(copy_solution(sol)),
            };
            slots.push(c);
            return (slots.len() - 1, slots.len() - 1, extra);
        }
        _ => panic!("unknown hand-over op"),
    };
    (ret, k, extra)
}

fn panic_text(e: Box<dyn std::any::Any + Send>) -> String {
    e.downcast_ref::<&str>().map(|s| s.to_string()).or_else(|| e.downcast_ref::<String>().cloned()).unwrap_or("panic".into())
}

fn run_ho(case: &Value) -> Value {
    let groups: Vec<usize> = i64s_of(&case["groups"]).iter().map(|&g| g as usize).collect();
    let closed = case["closed"].as_bool().unwrap();
    let spec: Vec<(usize, Vec<usize>)> = case["fleet"]
        .as_array()
        .unwrap()
        .iter()
        .map(|v| (usize_of(&v[0]), i64s_of(&v[1]).iter().map(|&d| d as usize).collect()))
        .collect();
    let fleet = Arc::new(make_fleet(&spec, closed));
    assert!(fleet.actors.len() == groups.len(), "fleet spec and groups disagree");
    let foreign = make_fleet(&[(0, vec![0]), (1, vec![0]), (0, vec![0])], closed);
    let actors = Actors { all: fleet.actors.iter().chain(foreign.actors.iter()).cloned().collect() };
    let random = Arc::new(ScriptRandom { mode: Mutex::new(0), calls: Mutex::new(vec![]) });
    let table = make_jobs_at(&vec![0; usize_of(&case["nj"])], 100);

    // a minimal real Problem: the fleet, single jobs, a goal without state, a zero matrix, locks selecting one actor each
    let transport: Arc<dyn TransportCost> = Arc::new(SimpleTransportCost::new(vec![0.], vec![0.]).unwrap());
    let logger: InfoLogger = Arc::new(|_| {});
    let jobs = Arc::new(Jobs::new(fleet.as_ref(), table.jobs.clone(), transport.as_ref(), &logger).unwrap());
    let locks: Vec<Arc<Lock>> = match case["init"].as_array() {
        Some(ls) => ls
            .iter()
            .map(|l| {
                let addr = Arc::as_ptr(&actors.all[usize_of(&l[0])]) as usize;
                let lock_jobs: Vec<Job> = i64s_of(&l[2]).iter().map(|&j| table.jobs[j as usize].clone()).collect();
                let detail = LockDetail::new(LockOrder::Strict, LockPosition::Any, lock_jobs);
                Arc::new(Lock::new(Arc::new(move |a: &Actor| a as *const Actor as usize == addr), vec![detail], i64_of(&l[1]) != 0))
            })
            .collect(),
        None => vec![],
    };
    let no_locks = locks.is_empty();
    let problem = Arc::new(Problem {
        fleet: fleet.clone(),
        jobs,
        locks,
        goal: Arc::new(make_goal()),
        activity: Arc::new(SimpleActivityCost::default()),
        transport,
        extras: Arc::new(Extras::default()),
    });
    let random_dyn: Arc<dyn Random> = random.clone();
    let env = Arc::new(Environment { random: random_dyn.clone(), ..Environment::default() });

    let first = catch_unwind(AssertUnwindSafe(|| {
        if case["init"].is_null() {
            HSlot::Sol(Solution {
                cost: 0.,
                registry: Registry::new(&fleet, random_dyn.clone()),
                routes: vec![],
                unassigned: vec![],
                telemetry: None,
            })
        } else if no_locks && case["empty"].as_bool().unwrap_or(false) {
            HSlot::Ctx(InsertionContext::new_empty(problem.clone(), env.clone()))
        } else {
            HSlot::Ctx(InsertionContext::new(problem.clone(), env.clone()))
        }
    }));
    let mut slots = match first {
        Ok(s) => vec![s],
        Err(e) => return json!({"init": null, "steps": [], "stop": panic_text(e), "final": []}),
    };
    let init = dump_ho(&actors, &table, &random, &slots[0]);
    let mut steps = vec![];
    let mut panic: Option<String> = None;
    for op in case["ops"].as_array().unwrap() {
        let res = catch_unwind(AssertUnwindSafe(|| ho_step(&problem, &env, &actors, &table, &random, &mut slots, op)));
        match res {
            Ok((ret, k, extra)) => {
                steps.push(json!({"ret": ret, "dump": dump_ho(&actors, &table, &random, &slots[k]), "extra": extra}))
            }
            Err(e) => {
                panic = Some(panic_text(e));
                break;
            }
        }
    }
    let fin: Vec<Value> = if panic.is_none() { slots.iter().map(|s| dump_ho(&actors, &table, &random, s)).collect() } else { vec![] };
    json!({"init": init, "steps": steps, "stop": panic, "final": fin})
}

pub fn run_case(case: &Value) -> Value {
    match case["kind"].as_str().unwrap() {
        "tour" => run_tour(case),
        "reg" => run_reg(case),
        "ho" => run_ho(case),
        _ => panic!("unknown kind"),
    }
}

fn main() {
    vh::main_loop(run_case);
}
