//! C08 sub-stream `c08_builder`: drives the real `EvolutionConfigBuilder` (rosomaxa, public API) with the setter calls of the case in
//! the given order, builds the configuration, runs `EvolutionSimulator` on the crate's scalar example domain (rosomaxa::example:
//! VectorContext / VectorObjective / VectorSolution) and reports every event in order: context pre-processing hooks, every call the
//! population of the chosen context receives (add / add_all / select / on_generation), which initial operator created what, solution
//! post-processing hooks, the logger lines of build() (termination criteria, custom strategy) and the returned solutions.
//! kind "cli": the VRP side — vrp-cli's `create_builder_from_config` (config-file path) with a config that has `evolution.initial` set
//! and an initial solution; the population is replaced by a recording wrapper afterwards.
use rosomaxa::evolution::strategies::EvolutionStrategy;
use rosomaxa::evolution::{EvolutionResult, EvolutionSimulator, InitialOperator, InitialOperators, ProcessingConfig};
use rosomaxa::example::*;
use rosomaxa::hyper::{HeuristicDiversifyOperator, HeuristicSearchOperator};
use rosomaxa::population::{Elitism, Greedy};
use rosomaxa::prelude::*;
use rosomaxa::termination::MaxGeneration;
use rosomaxa::utils::Parallelism;
use serde_json::{json, Value};
use std::cmp::Ordering;
use std::collections::VecDeque;
use std::sync::{Arc, Mutex};
use vh::util::*;

type Log = Arc<Mutex<Vec<Value>>>;
type Queue = Arc<Mutex<VecDeque<Value>>>;

fn objective() -> Arc<VectorObjective> {
    // data = [key, id, tag, weight]: fitness = key, rosomaxa weights = [weight]
    Arc::new(VectorObjective::new(Arc::new(|d: &[Float]| d[0]), Arc::new(|d: &[Float]| vec![d[3]])))
}

fn sol_of(v: &Value, objective: &VectorObjective) -> VectorSolution {
    let a = i64s_of(v);
    VectorSolution::new_with_objective(vec![a[1] as Float, a[0] as Float, a[2] as Float, a[3] as Float], objective)
}

fn id_of(s: &VectorSolution) -> i64 {
    s.data[1] as i64
}

fn pair(s: &VectorSolution) -> Value {
    json!([id_of(s), s.data[0] as i64])
}

/// A population which records every call it receives and forwards it to the real population.
struct Recording<P: ?Sized> {
    tag: i64,
    log: Log,
    inner: Box<P>,
}

impl HeuristicPopulation for Recording<VectorPopulation> {
    type Objective = VectorObjective;
    type Individual = VectorSolution;

    fn add_all(&mut self, individuals: Vec<Self::Individual>) -> bool {
        self.log.lock().unwrap().push(json!(["add_all", self.tag, individuals.iter().map(id_of).collect::<Vec<_>>()]));
        self.inner.add_all(individuals)
    }
    fn add(&mut self, individual: Self::Individual) -> bool {
        self.log.lock().unwrap().push(json!(["add", self.tag, id_of(&individual)]));
        self.inner.add(individual)
    }
    fn on_generation(&mut self, statistics: &HeuristicStatistics) {
        self.log.lock().unwrap().push(json!(["gen", self.tag]));
        self.inner.on_generation(statistics)
    }
    fn cmp(&self, a: &Self::Individual, b: &Self::Individual) -> Ordering {
        self.inner.cmp(a, b)
    }
    fn select(&self) -> Box<dyn Iterator<Item = &'_ Self::Individual> + '_> {
        let phase = match self.inner.selection_phase() {
            SelectionPhase::Initial => 0,
            SelectionPhase::Exploration => 1,
            SelectionPhase::Exploitation => 2,
        };
        self.log.lock().unwrap().push(json!(["select", self.tag, phase, self.inner.size()]));
        self.inner.select()
    }
    fn ranked(&self) -> Box<dyn Iterator<Item = &'_ Self::Individual> + '_> {
        self.inner.ranked()
    }
    fn all(&self) -> Box<dyn Iterator<Item = &'_ Self::Individual> + '_> {
        self.inner.all()
    }
    fn size(&self) -> usize {
        self.inner.size()
    }
    fn selection_phase(&self) -> SelectionPhase {
        self.inner.selection_phase()
    }
}

fn make_population(p: &Value, objective: Arc<VectorObjective>, env: Arc<Environment>) -> Box<VectorPopulation> {
    match p["kind"].as_str().unwrap() {
        "greedy" => Box::new(Greedy::new(objective, usize_of(&p["sel"]), None)),
        "elitism" => Box::new(Elitism::new(objective, env.random.clone(), usize_of(&p["max"]), usize_of(&p["sel"]))),
        "rosomaxa" => {
            let config = RosomaxaConfig {
                initial_size: usize_of(&p["initial"]),
                selection_size: usize_of(&p["sel"]),
                elite_size: usize_of(&p["elite"]),
                node_size: 2,
                spread_factor: 0.75,
                distribution_factor: 0.9,
                rebalance_memory: 5,
                exploration_ratio: i64_of(&p["er"]) as Float / 64.,
            };
            Box::new(Rosomaxa::new(VectorRosomaxaContext, objective, env, config).expect("rosomaxa config rejected"))
        }
        "default" => {
            let b: Box<dyn HeuristicPopulation<Objective = VectorObjective, Individual = VectorSolution>> =
                rosomaxa::get_default_population(objective, VectorRosomaxaContext, env, usize_of(&p["sel"]));
            // get_default_population returns a box without the Send + Sync markers: wrap it
            Box::new(SendSync(b))
        }
        _ => panic!("unknown population kind"),
    }
}

/// get_default_population's return type lacks `Send + Sync` in its trait object although every population is Send + Sync
/// (HeuristicPopulation: Send + Sync); this forwarding wrapper restores the markers.
struct SendSync(Box<dyn HeuristicPopulation<Objective = VectorObjective, Individual = VectorSolution>>);
unsafe impl Send for SendSync {}
unsafe impl Sync for SendSync {}
impl HeuristicPopulation for SendSync {
    type Objective = VectorObjective;
    type Individual = VectorSolution;
    fn add_all(&mut self, individuals: Vec<Self::Individual>) -> bool {
        self.0.add_all(individuals)
    }
    fn add(&mut self, individual: Self::Individual) -> bool {
        self.0.add(individual)
    }
    fn on_generation(&mut self, statistics: &HeuristicStatistics) {
        self.0.on_generation(statistics)
    }
    fn cmp(&self, a: &Self::Individual, b: &Self::Individual) -> Ordering {
        self.0.cmp(a, b)
    }
    fn select(&self) -> Box<dyn Iterator<Item = &'_ Self::Individual> + '_> {
        self.0.select()
    }
    fn ranked(&self) -> Box<dyn Iterator<Item = &'_ Self::Individual> + '_> {
        self.0.ranked()
    }
    fn all(&self) -> Box<dyn Iterator<Item = &'_ Self::Individual> + '_> {
        self.0.all()
    }
    fn size(&self) -> usize {
        self.0.size()
    }
    fn selection_phase(&self) -> SelectionPhase {
        self.0.selection_phase()
    }
}

/// offspring come from the shared pool of the case: generation g takes `sizes[g]` individuals
struct ScriptedHeuristic {
    tag: i64,
    sizes: Vec<usize>,
    generation: usize,
    pool: Queue,
    objective: Arc<VectorObjective>,
    log: Log,
}
impl std::fmt::Display for ScriptedHeuristic {
    fn fmt(&self, f: &mut std::fmt::Formatter<'_>) -> std::fmt::Result {
        write!(f, "scripted {}", self.tag)
    }
}
impl HyperHeuristic for ScriptedHeuristic {
    type Context = VectorContext;
    type Objective = VectorObjective;
    type Solution = VectorSolution;
    fn search(&mut self, ctx: &VectorContext, solution: &VectorSolution) -> Vec<VectorSolution> {
        self.search_many(ctx, vec![solution])
    }
    fn search_many(&mut self, _: &VectorContext, solutions: Vec<&VectorSolution>) -> Vec<VectorSolution> {
        self.log.lock().unwrap().push(json!(["search", self.tag, solutions.iter().map(|s| id_of(s)).collect::<Vec<_>>()]));
        let k = self.sizes.get(self.generation).copied().unwrap_or(0);
        self.generation += 1;
        let mut pool = self.pool.lock().unwrap();
        (0..k).filter_map(|_| pool.pop_front()).map(|v| sol_of(&v, &self.objective)).collect()
    }
    fn diversify(&self, _: &VectorContext, _: &VectorSolution) -> Vec<VectorSolution> {
        vec![]
    }
    fn diversify_many(&self, _: &VectorContext, _: Vec<&VectorSolution>) -> Vec<VectorSolution> {
        vec![]
    }
}

/// operator of the dynamic heuristic: the next individual of the pool (or a copy of the parent when the pool is exhausted)
struct PoolOperator {
    tag: i64,
    pool: Queue,
    objective: Arc<VectorObjective>,
    log: Log,
}
impl HeuristicSearchOperator for PoolOperator {
    type Context = VectorContext;
    type Objective = VectorObjective;
    type Solution = VectorSolution;
    fn search(&self, _: &VectorContext, solution: &VectorSolution) -> VectorSolution {
        self.log.lock().unwrap().push(json!(["op-search", self.tag]));
        match self.pool.lock().unwrap().pop_front() {
            Some(v) => sol_of(&v, &self.objective),
            None => solution.deep_copy(),
        }
    }
}
impl HeuristicDiversifyOperator for PoolOperator {
    type Context = VectorContext;
    type Objective = VectorObjective;
    type Solution = VectorSolution;
    fn diversify(&self, _: &VectorContext, _: &VectorSolution) -> Vec<VectorSolution> {
        self.log.lock().unwrap().push(json!(["op-diversify", self.tag]));
        vec![]
    }
}

struct ScriptedInit {
    index: usize,
    tag: i64,
    queue: Queue,
    objective: Arc<VectorObjective>,
    log: Log,
}
impl InitialOperator for ScriptedInit {
    type Context = VectorContext;
    type Objective = VectorObjective;
    type Solution = VectorSolution;
    fn create(&self, _: &VectorContext) -> VectorSolution {
        let v = self.queue.lock().unwrap().pop_front().expect("no scripted solution left to create");
        let s = sol_of(&v, &self.objective);
        self.log.lock().unwrap().push(json!(["create", self.index, self.tag, id_of(&s)]));
        s
    }
}

struct CtxHook {
    tag: i64,
    log: Log,
}
impl HeuristicContextProcessing for CtxHook {
    type Context = VectorContext;
    type Objective = VectorObjective;
    type Solution = VectorSolution;
    fn pre_process(&self, context: VectorContext) -> VectorContext {
        self.log.lock().unwrap().push(json!(["pre", self.tag]));
        context
    }
}
struct SolHook {
    tag: i64,
    log: Log,
}
impl HeuristicSolutionProcessing for SolHook {
    type Solution = VectorSolution;
    fn post_process(&self, solution: VectorSolution) -> VectorSolution {
        self.log.lock().unwrap().push(json!(["post", self.tag, id_of(&solution)]));
        solution
    }
}

struct CustomStrategy {
    tag: i64,
    log: Log,
}
impl EvolutionStrategy for CustomStrategy {
    type Context = VectorContext;
    type Objective = VectorObjective;
    type Solution = VectorSolution;
    fn run(
        &mut self,
        _: VectorContext,
        _: Box<dyn Termination<Context = VectorContext, Objective = VectorObjective>>,
    ) -> EvolutionResult<VectorSolution> {
        self.log.lock().unwrap().push(json!(["custom", self.tag]));
        Ok((vec![], None))
    }
}

fn opt_usize(v: &Value) -> Option<usize> {
    if v.is_null() { None } else { Some(usize_of(v)) }
}

fn run_builder(case: &Value) -> Value {
    let log: Log = Arc::new(Mutex::new(vec![]));
    let lines: Arc<Mutex<Vec<String>>> = Arc::new(Mutex::new(vec![]));
    let env = Arc::new(Environment::new(
        Arc::new(DefaultRandom::new_repeatable()),
        None,
        Parallelism::new_with_cpus(1),
        {
            let lines = lines.clone();
            Arc::new(move |msg: &str| lines.lock().unwrap().push(msg.to_string()))
        },
        false,
    ));
    let objective = objective();
    let created: Queue = Arc::new(Mutex::new(case["created"].as_array().unwrap().iter().cloned().collect()));
    let pool: Queue = Arc::new(Mutex::new(case["pool"].as_array().unwrap().iter().cloned().collect()));
    let sizes: Vec<usize> = i64s_of(&case["sizes"]).into_iter().map(|x| x as usize).collect();

    let mut builder = EvolutionConfigBuilder::<VectorContext, VectorObjective, VectorSolution, i32>::default();
    for call in case["calls"].as_array().unwrap() {
        builder = match call["s"].as_str().unwrap() {
            "max_gen" => builder.with_max_generations(opt_usize(&call["v"])),
            "max_time" => builder.with_max_time(opt_usize(&call["v"])),
            "min_cv" => {
                let v = if call["v"].is_null() {
                    None
                } else {
                    let name = match i64_of(&call["v"]) {
                        0 => "sample",
                        1 => "period",
                        _ => "epoch",
                    };
                    Some((name.to_string(), 1000_usize, 0.000001, true))
                };
                builder.with_min_cv(v, 1)
            }
            "target" => {
                // a target nobody reaches: fitness -1e9 within distance 1e-9
                let v = if call["v"].is_null() { None } else { Some((vec![-1e9 - i64_of(&call["v"]) as Float], 1e-9)) };
                builder.with_target_proximity(v)
            }
            "initial" => {
                let operators: InitialOperators<VectorContext, VectorObjective, VectorSolution> = call["ops"]
                    .as_array()
                    .unwrap()
                    .iter()
                    .enumerate()
                    .map(|(index, tw)| {
                        let tw = i64s_of(tw);
                        let op: Box<
                            dyn InitialOperator<Context = VectorContext, Objective = VectorObjective, Solution = VectorSolution>
                                + Send
                                + Sync,
                        > = Box::new(ScriptedInit {
                            index,
                            tag: tw[0],
                            queue: created.clone(),
                            objective: objective.clone(),
                            log: log.clone(),
                        });
                        (op, tw[1] as usize)
                    })
                    .collect();
                builder.with_initial(usize_of(&call["max"]), i64_of(&call["quota"]) as Float / 1000., operators)
            }
            "processing" => builder.with_processing(ProcessingConfig {
                context: i64s_of(&call["ch"])
                    .into_iter()
                    .map(|tag| {
                        let h: Box<
                            dyn HeuristicContextProcessing<
                                    Context = VectorContext,
                                    Objective = VectorObjective,
                                    Solution = VectorSolution,
                                > + Send
                                + Sync,
                        > = Box::new(CtxHook { tag, log: log.clone() });
                        h
                    })
                    .collect(),
                solution: i64s_of(&call["sh"])
                    .into_iter()
                    .map(|tag| {
                        let h: Box<dyn HeuristicSolutionProcessing<Solution = VectorSolution> + Send + Sync> =
                            Box::new(SolHook { tag, log: log.clone() });
                        h
                    })
                    .collect(),
            }),
            "init_solutions" => builder.with_init_solutions(
                call["sols"].as_array().unwrap().iter().map(|v| sol_of(v, &objective)).collect(),
                opt_usize(&call["max"]),
            ),
            "objective" => builder.with_objective(objective.clone()),
            "context" => {
                let inner = make_population(&call["pop"], objective.clone(), env.clone());
                let population: Box<VectorPopulation> =
                    Box::new(Recording::<VectorPopulation> { tag: i64_of(&call["tag"]), log: log.clone(), inner });
                builder.with_context(VectorContext::new(objective.clone(), population, TelemetryMode::None, env.clone()))
            }
            // stored by the builder, never used by build(): a criterion which would stop at once
            "termination" => builder.with_termination(Box::new(MaxGeneration::new(0))),
            "heuristic" => builder.with_heuristic(Box::new(ScriptedHeuristic {
                tag: i64_of(&call["tag"]),
                sizes: sizes.clone(),
                generation: 0,
                pool: pool.clone(),
                objective: objective.clone(),
                log: log.clone(),
            })),
            "strategy" => builder.with_strategy(Box::new(CustomStrategy { tag: i64_of(&call["tag"]), log: log.clone() })),
            "search" => builder.with_search_operators(vec![(
                Arc::new(PoolOperator {
                    tag: i64_of(&call["tag"]),
                    pool: pool.clone(),
                    objective: objective.clone(),
                    log: log.clone(),
                }),
                format!("pool{}", i64_of(&call["tag"])),
                1.,
            )]),
            "diversify" => builder.with_diversify_operators(vec![Arc::new(PoolOperator {
                tag: i64_of(&call["tag"]),
                pool: pool.clone(),
                objective: objective.clone(),
                log: log.clone(),
            })]),
            other => panic!("unknown setter {other}"),
        };
    }

    let config = match builder.build() {
        Ok(config) => config,
        Err(e) => return json!({"status": format!("build: {e}"), "lines": lines.lock().unwrap().clone()}),
    };
    let simulator = match EvolutionSimulator::new(config) {
        Ok(s) => s,
        Err(e) => return json!({"status": format!("sim: {e}"), "lines": lines.lock().unwrap().clone()}),
    };
    let (solutions, _) = simulator.run().expect("evolution failed");
    let result: Vec<Value> = solutions.iter().map(pair).collect();
    let events = log.lock().unwrap().clone();
    let lines = lines.lock().unwrap().clone();
    json!({"status": "ok", "events": events, "result": result, "lines": lines})
}

// ---------------------------------------------------------------- the VRP side: vrp-cli config-file path
mod cli {
    use super::*;
    use std::io::{BufReader, BufWriter};
    use vrp_cli::extensions::solve::config::{create_builder_from_config, read_config};
    use vrp_core::construction::heuristics::InsertionContext;
    use vrp_core::models::GoalContext;
    use vrp_core::solver::{RefinementContext, Solver, TargetPopulation, VrpConfigBuilder};
    use vrp_pragmatic::format::problem::PragmaticProblem;
    use vrp_pragmatic::format::solution::{read_init_solution, write_pragmatic, PragmaticOutputType};

    struct VrpRecording {
        goal: Arc<GoalContext>,
        log: Log,
        inner: TargetPopulation,
    }
    fn fit(goal: &GoalContext, s: &InsertionContext) -> Vec<Value> {
        goal.fitness(s).map(|f| if f.fract() == 0. && f.abs() < 1e15 { json!(f as i64) } else { json!(f.to_string()) }).collect()
    }
    impl HeuristicPopulation for VrpRecording {
        type Objective = GoalContext;
        type Individual = InsertionContext;
        fn add_all(&mut self, individuals: Vec<Self::Individual>) -> bool {
            let fits: Vec<Value> = individuals.iter().map(|i| json!(fit(&self.goal, i))).collect();
            self.log.lock().unwrap().push(json!(["add_all", fits]));
            self.inner.add_all(individuals)
        }
        fn add(&mut self, individual: Self::Individual) -> bool {
            self.log.lock().unwrap().push(json!(["add", fit(&self.goal, &individual)]));
            self.inner.add(individual)
        }
        fn on_generation(&mut self, statistics: &HeuristicStatistics) {
            self.log.lock().unwrap().push(json!(["gen"]));
            self.inner.on_generation(statistics)
        }
        fn cmp(&self, a: &Self::Individual, b: &Self::Individual) -> Ordering {
            self.inner.cmp(a, b)
        }
        fn select(&self) -> Box<dyn Iterator<Item = &'_ Self::Individual> + '_> {
            self.log.lock().unwrap().push(json!(["select"]));
            self.inner.select()
        }
        fn ranked(&self) -> Box<dyn Iterator<Item = &'_ Self::Individual> + '_> {
            self.inner.ranked()
        }
        fn all(&self) -> Box<dyn Iterator<Item = &'_ Self::Individual> + '_> {
            self.inner.all()
        }
        fn size(&self) -> usize {
            self.inner.size()
        }
        fn selection_phase(&self) -> SelectionPhase {
            self.inner.selection_phase()
        }
    }

    pub fn run_cli(case: &Value) -> Value {
        let problem = Arc::new(
            (case["problem"].as_str().unwrap().to_string(), vec![case["matrix"].as_str().unwrap().to_string()])
                .read_pragmatic()
                .unwrap_or_else(|e| panic!("cannot read problem: {e}")),
        );
        let env = Arc::new(Environment::new(
            Arc::new(DefaultRandom::new_repeatable()),
            None,
            Parallelism::new_with_cpus(2),
            Arc::new(|_: &str| {}),
            false,
        ));
        // 1. a good solution from an unseeded run
        let config = VrpConfigBuilder::new(problem.clone())
            .set_environment(env.clone())
            .set_telemetry_mode(TelemetryMode::None)
            .prebuild()
            .unwrap()
            .with_max_generations(Some(usize_of(&case["gens0"])))
            .build()
            .unwrap();
        let s0 = Solver::new(problem.clone(), config).solve().expect("unseeded solve failed");
        let mut buf = Vec::new();
        {
            let mut w = BufWriter::new(&mut buf);
            write_pragmatic(&problem, &s0, PragmaticOutputType::default(), &mut w).expect("cannot write solution");
        }
        let read = read_init_solution(BufReader::new(buf.as_slice()), problem.clone(), env.random.clone())
            .expect("cannot read initial solution");
        let seed = InsertionContext::new_from_solution(problem.clone(), (read, None), env.clone());
        let goal = problem.goal.clone();
        let seed_fit = fit(&goal, &seed);
        // 2. the config-file path of vrp-cli: prebuild().with_init_solutions(..) and only then the evolution / hyper / termination sections
        let cfg = read_config(BufReader::new(case["config"].as_str().unwrap().as_bytes())).expect("cannot read config");
        let builder = create_builder_from_config(problem.clone(), vec![seed.deep_copy()], &cfg).expect("cannot create builder");
        // 3. a recording population (a further setter: the order under test is already fixed by create_builder_from_config)
        let log: Log = Arc::new(Mutex::new(vec![]));
        let inner: TargetPopulation = match case["pop"].as_str().unwrap_or("default") {
            "greedy" => Box::new(Greedy::new(goal.clone(), 1, None)),
            "elitism" => Box::new(vrp_core::solver::create_elitism_population(goal.clone(), env.clone())),
            _ => rosomaxa::get_default_population(
                goal.clone(),
                vrp_core::models::common::Footprint::new(problem.as_ref()),
                env.clone(),
                usize_of(&case["sel"]),
            ),
        };
        let population: TargetPopulation = Box::new(VrpRecording { goal: goal.clone(), log: log.clone(), inner });
        let config = builder
            .with_context(RefinementContext::new(problem.clone(), population, TelemetryMode::None, env.clone()))
            .build()
            .expect("cannot build config");
        let result = Solver::new(problem.clone(), config).solve().expect("seeded solve failed");
        let result_ctx = InsertionContext::new_from_solution(problem.clone(), (result, None), env.clone());
        let events = log.lock().unwrap().clone();
        json!({
            "seed_fit": seed_fit, "fit_result": fit(&goal, &result_ctx),
            "result_vs_seed": ord_of(goal.total_order(&result_ctx, &seed)),
            "events": events,
        })
    }
}

pub fn run_case(case: &Value) -> Value {
    if case["kind"].as_str() == Some("cli") {
        return cli::run_cli(case);
    }
    // a fresh thread per case: the crate's repeatable RNG is thread-local
    let c = case.clone();
    match std::thread::spawn(move || run_builder(&c)).join() {
        Ok(v) => v,
        Err(e) => {
            let msg = e
                .downcast_ref::<String>()
                .cloned()
                .or_else(|| e.downcast_ref::<&str>().map(|s| s.to_string()))
                .unwrap_or_else(|| "panic".to_string());
            panic!("{}", msg)
        }
    }
}

fn main() {
    vh::main_loop(run_case);
}
