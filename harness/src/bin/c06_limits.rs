//! C06 sub-stream `c06_limits`: the real insertion evaluation with the tour-limit, tour-size, skills and locked-jobs features
//! in the goal (next to transport and capacity), on tours built through the public API.
//! Feature order (as goal_reader.rs::create_goal_context pushes them): transport(1), capacity(2), tour_limit(3 distance,
//! 4 duration), skills(6), locked_jobs(7, only when the case has locks), activity_limit(10).
//! Modes: "eval" (default), "skills" (route-level skills verdict, merge, JobSkills::new), "lockrule" (one strict rule against
//! prev / target / next through the real LockingConstraint), "size" (route-level verdict of the activity-limit constraint for a
//! Multi job with k sub-jobs), "e2e" (a pragmatic problem with matrices - used for vicinity clustering x skills - read by the
//! real reader, solved by the real solver, written by the real writer: the oracle looks at the skills of every served job).
use serde_json::{json, Value};
use std::collections::HashSet;
use std::sync::Arc;
use vh::core::*;
use vh::util::*;
use vrp_core::construction::features::*;
use vrp_core::construction::heuristics::*;
use vrp_core::models::common::*;
use vrp_core::models::problem::*;
use vrp_core::models::solution::{Activity, Place as ActPlace, Route};
use vrp_core::models::*;
use vrp_core::prelude::{InfoLogger, SimpleTransportCost};
use vrp_core::rosomaxa::prelude::Environment;

fn skill_set(v: &Value) -> Option<HashSet<String>> {
    if v.is_null() {
        None
    } else {
        Some(i64s_of(v).into_iter().map(|s| format!("s{s}")).collect())
    }
}

/// {"all": null|[..], "one": .., "none": ..} built field by field (the fields are public), so that an EMPTY set can be given
fn job_skills_of(v: &Value) -> Option<JobSkills> {
    if v.is_null() {
        None
    } else {
        Some(JobSkills { all_of: skill_set(&v["all"]), one_of: skill_set(&v["one"]), none_of: skill_set(&v["none"]) })
    }
}

fn skills_out(s: &Option<HashSet<String>>) -> Value {
    match s {
        None => Value::Null,
        Some(set) => {
            let mut xs: Vec<i64> = set.iter().map(|x| x[1..].parse().unwrap()).collect();
            xs.sort();
            json!(xs)
        }
    }
}

fn verdict_out(v: Option<ConstraintViolation>) -> Value {
    match v {
        Some(v) => json!({"code": v.code.0, "stopped": v.stopped}),
        None => Value::Null,
    }
}

struct XWorld {
    problem: Arc<Problem>,
    limit_feature: Feature,
    skills_feature: Feature,
    size_feature: Feature,
    lock_feature: Option<Feature>,
}

fn lock_position(s: &str) -> LockPosition {
    match s {
        "any" => LockPosition::Any,
        "departure" => LockPosition::Departure,
        "arrival" => LockPosition::Arrival,
        "fixed" => LockPosition::Fixed,
        _ => panic!("lock position"),
    }
}

fn lock_order(s: &str) -> LockOrder {
    match s {
        "any" => LockOrder::Any,
        "sequence" => LockOrder::Sequence,
        "strict" => LockOrder::Strict,
        _ => panic!("lock order"),
    }
}

/// world with one vehicle; `jobs`: (numeric id, job)
fn build_xworld(case: &Value, jobs: Vec<(i64, Job)>) -> XWorld {
    let n = usize_of(&case["n"]);
    let dur: Vec<f64> = i64s_of(&case["dur"]).into_iter().map(|x| x as f64).collect();
    let dist: Vec<f64> = i64s_of(&case["dist"]).into_iter().map(|x| x as f64).collect();
    assert_eq!(dur.len(), n * n);
    assert_eq!(dist.len(), n * n);
    let transport: Arc<dyn TransportCost> = Arc::new(SimpleTransportCost::new(dur, dist).unwrap());
    let activity: Arc<dyn ActivityCost> = Arc::new(SimpleActivityCost::default());

    let mut vehicle = vehicle_of(&case["veh"], "v0");
    if let Some(skills) = skill_set(&case["vskills"]) {
        vehicle.dimens.set_vehicle_skills(skills);
    }
    let driver = Driver {
        costs: Costs { fixed: 0., per_distance: 0., per_driving_time: 0., per_waiting_time: 0., per_service_time: 0. },
        dimens: Default::default(),
        details: vec![],
    };
    let fleet = Arc::new(Fleet::new(vec![Arc::new(driver)], vec![Arc::new(vehicle)], |_| |a: &Actor| a.vehicle.profile.index));

    let lim = &case["lim"];
    let dist_limit = if lim["dist"].is_null() { None } else { Some(i64_of(&lim["dist"]) as f64) };
    let dur_limit = if lim["dur"].is_null() { None } else { Some(i64_of(&lim["dur"]) as f64) };
    let size_limit = if lim["size"].is_null() { None } else { Some(usize_of(&lim["size"])) };

    let transport_feature = TransportFeatureBuilder::new("transport")
        .set_transport_cost(transport.clone())
        .set_violation_code(ViolationCode(1))
        .build_minimize_cost()
        .unwrap();
    let capacity = CapacityFeatureBuilder::<SingleDimLoad>::new("capacity").set_violation_code(ViolationCode(2)).build().unwrap();
    let limit_feature = create_travel_limit_feature(
        "tour_limit",
        transport.clone(),
        activity.clone(),
        ViolationCode(3),
        ViolationCode(4),
        Arc::new(move |_| dist_limit),
        Arc::new(move |_| dur_limit),
    )
    .unwrap();
    let skills_feature = create_skills_feature("skills", ViolationCode(6)).unwrap();
    let size_feature = create_activity_limit_feature("activity_limit", ViolationCode(10), Arc::new(move |_| size_limit)).unwrap();

    let mut features = vec![transport_feature, capacity, limit_feature.clone(), skills_feature.clone()];
    let mut lock_feature = None;
    let mut locks: Vec<Arc<Lock>> = vec![];
    if let Some(ls) = case["locks"].as_array() {
        let find = |id: i64| jobs.iter().find(|(i, _)| *i == id).map(|(_, j)| j.clone()).expect("locked job is a job of the case");
        for l in ls {
            let cond = l["cond"].as_bool().unwrap();
            let detail = LockDetail::new(
                lock_order(l["order"].as_str().unwrap()),
                lock_position(l["pos"].as_str().unwrap()),
                i64s_of(&l["jobs"]).into_iter().map(find).collect(),
            );
            locks.push(Arc::new(Lock::new(Arc::new(move |_| cond), vec![detail], false)));
        }
        let f = create_locked_jobs_feature("locked_jobs", fleet.as_ref(), &locks, ViolationCode(7)).unwrap();
        features.push(f.clone());
        lock_feature = Some(f);
    }
    features.push(size_feature.clone());
    let goal = GoalContextBuilder::with_features(&features).unwrap().build().unwrap();

    let logger: InfoLogger = Arc::new(|_| {});
    let all_jobs: Vec<Job> = jobs.iter().map(|(_, j)| j.clone()).collect();
    let jobs_index = Arc::new(Jobs::new(fleet.as_ref(), all_jobs, transport.as_ref(), &logger).unwrap());
    let problem = Problem {
        fleet,
        jobs: jobs_index,
        locks,
        goal: Arc::new(goal),
        activity,
        transport,
        extras: Arc::new(Extras::default()),
    };
    XWorld { problem: Arc::new(problem), limit_feature, skills_feature, size_feature, lock_feature }
}

fn single_with_skills(mut s: Single, skills: &Value) -> Single {
    if let Some(js) = job_skills_of(skills) {
        s.dimens.set_job_skills(js);
    }
    s
}

fn target_activity(single: &Arc<Single>, prev: &Activity, place_idx: usize, place: &Place, tw: &TimeWindow) -> Activity {
    Activity {
        place: ActPlace { idx: place_idx, location: place.location.unwrap_or(prev.place.location), duration: place.duration, time: tw.clone() },
        schedule: Schedule::new(0., 0.),
        job: Some(single.clone()),
        commute: None,
    }
}

fn run_eval(case: &Value) -> Value {
    let tour_desc = case["tour"].as_array().unwrap();
    let tour_singles: Vec<Arc<Single>> =
        tour_desc.iter().map(|a| Arc::new(single_with_skills(single_of_act(a), &a["skills"]))).collect();
    let cand_single = Arc::new(single_with_skills(single_of(&case["job"]), &case["job"]["skills"]));
    let cand = Job::Single(cand_single.clone());
    let mut jobs: Vec<(i64, Job)> =
        tour_desc.iter().zip(tour_singles.iter()).map(|(a, s)| (i64_of(&a["job"]), Job::Single(s.clone()))).collect();
    jobs.push((i64_of(&case["job"]["id"]), cand.clone()));
    let world = build_xworld(case, jobs);
    let mut ctx = InsertionContext::new_empty(world.problem.clone(), Arc::new(Environment::default()));
    let acts: Vec<(Value, Arc<Single>)> = tour_desc.iter().cloned().zip(tour_singles.iter().cloned()).collect();
    let ridx = add_route(&mut ctx, 0, &acts);
    let goal = world.problem.goal.clone();

    let (before, count, route_verdict, alts, res) = {
        let route_ctx = &ctx.solution.routes[ridx];
        let before = dump_schedule(route_ctx);
        let count = route_ctx.route().tour.job_activity_count();
        let route_verdict = verdict_out(goal.evaluate(&MoveContext::route(&ctx.solution, route_ctx, &cand)));

        // every (leg, place, window) alternative through the whole goal and through the travel-limit constraint alone
        let mut alts: Vec<Value> = vec![];
        let limit_constraint = world.limit_feature.constraint.clone().unwrap();
        let lock_constraint = world.lock_feature.as_ref().and_then(|f| f.constraint.clone());
        let stateless = RouteContext::new_with_state(
            Route { actor: route_ctx.route().actor.clone(), tour: route_ctx.route().tour.deep_copy() },
            RouteState::default(),
        );
        for (items, index) in route_ctx.route().tour.legs() {
            let (prev, next) = match items {
                [prev] => (prev, None),
                [prev, next] => (prev, Some(next)),
                _ => continue,
            };
            for (pi, place) in cand_single.places.iter().enumerate() {
                for span in place.times.iter() {
                    let tw = span.to_time_window(0.);
                    let target = target_activity(&cand_single, prev, pi, place, &tw);
                    let actx = ActivityContext { index, prev, target: &target, next };
                    let whole = verdict_out(goal.evaluate(&MoveContext::activity(&ctx.solution, route_ctx, &actx)));
                    let limit = verdict_out(limit_constraint.evaluate(&MoveContext::activity(&ctx.solution, route_ctx, &actx)));
                    let nostate = verdict_out(limit_constraint.evaluate(&MoveContext::activity(&ctx.solution, &stateless, &actx)));
                    let lock = lock_constraint
                        .as_ref()
                        .map(|c| verdict_out(c.evaluate(&MoveContext::activity(&ctx.solution, route_ctx, &actx))));
                    alts.push(json!({"idx": index, "place": pi, "tws": t_out(tw.start), "twe": t_out(tw.end),
                                     "goal": whole, "limit": limit, "limit_nostate": nostate, "lock": lock}));
                }
            }
        }

        let position = match &case["pos"] {
            Value::String(s) if s == "any" => InsertionPosition::Any,
            Value::String(s) if s == "last" => InsertionPosition::Last,
            v => InsertionPosition::Concrete(usize_of(&v[1])),
        };
        let selector = BestResultSelector::default();
        let eval_ctx = EvaluationContext {
            goal: &world.problem.goal,
            job: &cand,
            leg_selection: &LegSelection::Exhaustive,
            result_selector: &selector,
        };
        let res = eval_job_insertion_in_route(&ctx, &eval_ctx, route_ctx, position, InsertionResult::make_failure());
        (before, count, route_verdict, alts, res)
    };

    let (res_json, after) = match res {
        InsertionResult::Success(s) => {
            let acts: Vec<Value> = s
                .activities
                .iter()
                .map(|(a, idx)| {
                    json!({"index": idx, "place": a.place.idx, "loc": a.place.location, "svc": t_out(a.place.duration),
                           "tws": t_out(a.place.time.start), "twe": t_out(a.place.time.end)})
                })
                .collect();
            let out = json!({"ok": true, "cost": s.cost.iter().map(t_out).collect::<Vec<_>>(), "acts": acts});
            // really carry the insertion out (the body of apply_insertion_success): insert_at + accept_insertion
            {
                let route = ctx.solution.routes[ridx].route_mut();
                for (a, index) in s.activities.into_iter() {
                    route.tour.insert_at(a, index + 1);
                }
            }
            ctx.solution.required.retain(|j| *j != s.job);
            goal.accept_insertion(&mut ctx.solution, ridx, &s.job);
            let rc = &ctx.solution.routes[ridx];
            let mut after = dump_schedule(rc);
            after["count"] = json!(rc.route().tour.job_activity_count());
            after["locs"] = json!(rc.route().tour.all_activities().map(|a| a.place.location).collect::<Vec<_>>());
            after["jobs"] = json!(rc
                .route()
                .tour
                .all_activities()
                .map(|a| a.job.as_ref().and_then(|s| s.dimens.get_job_id().cloned()))
                .collect::<Vec<_>>());
            (out, after)
        }
        InsertionResult::Failure(f) => (json!({"ok": false, "code": f.constraint.0, "stopped": f.stopped}), Value::Null),
    };
    json!({"before": before, "count": count, "route": route_verdict, "alts": alts, "eval": res_json, "after": after})
}

/// route-level skills verdict of the real constraint, the merge rule, JobSkills::new
fn run_skills(case: &Value) -> Value {
    let mk_job = |id: &str, skills: &Value| -> Job {
        let mut dimens = Dimensions::default();
        dimens.set_job_id(id.to_string());
        if let Some(js) = job_skills_of(skills) {
            dimens.set_job_skills(js);
        }
        Job::Single(Arc::new(Single {
            places: vec![Place { location: Some(0), duration: 0., times: vec![TimeSpan::Window(TimeWindow::new(0., f64::MAX))] }],
            dimens,
        }))
    };
    let job = mk_job("j1", &case["js"]);
    let cand = mk_job("j2", &case["cand"]);
    let base = json!({"n": 1, "dur": [0], "dist": [0], "vskills": case["vskills"], "lim": {"dist": null, "dur": null, "size": null},
                      "veh": {"start": 0, "end": 0, "shift_start": 0, "shift_end": "inf", "cap": 10, "costs": [0, 1, 1, 0, 0]}});
    let world = build_xworld(&base, vec![(1, job.clone()), (2, cand.clone())]);
    let mut ctx = InsertionContext::new_empty(world.problem.clone(), Arc::new(Environment::default()));
    let ridx = add_route(&mut ctx, 0, &[]);
    let constraint = world.skills_feature.constraint.clone().unwrap();
    let verdict = verdict_out(constraint.evaluate(&MoveContext::route(&ctx.solution, &ctx.solution.routes[ridx], &job)));
    let merged = match constraint.merge(job.clone(), cand.clone()) {
        Ok(_) => json!(1),
        Err(code) => json!({"err": code.0}),
    };
    let to_vec = |v: &Value| -> Option<Vec<String>> {
        if v.is_null() { None } else { Some(i64s_of(v).into_iter().map(|s| format!("s{s}")).collect()) }
    };
    let raw = &case["raw"];
    let fresh = JobSkills::new(to_vec(&raw[0]), to_vec(&raw[1]), to_vec(&raw[2]));
    json!({"verdict": verdict, "merge": merged, "new": [skills_out(&fresh.all_of), skills_out(&fresh.one_of), skills_out(&fresh.none_of)]})
}

/// one strict rule against (target, prev, next) given as job ids (null = tour start / end / no next)
fn run_lockrule(case: &Value) -> Value {
    let ids: Vec<i64> = {
        let mut v = i64s_of(&case["rule"]["jobs"]);
        for k in ["job", "prev", "next"] {
            if !case[k].is_null() {
                v.push(i64_of(&case[k]));
            }
        }
        v.sort();
        v.dedup();
        v
    };
    let jobs: Vec<(i64, Job)> = ids
        .iter()
        .map(|id| {
            let v = json!({"job": id, "loc": 0, "svc": 0, "tws": 0, "twe": "inf", "dem": [0, 0, 0, 0]});
            (*id, Job::Single(Arc::new(single_of_act(&v))))
        })
        .collect();
    let base = json!({"n": 1, "dur": [0], "dist": [0], "vskills": null, "lim": {"dist": null, "dur": null, "size": null},
                      "veh": {"start": 0, "end": if case["closed"].as_bool().unwrap_or(true) { json!(0) } else { Value::Null },
                              "shift_start": 0, "shift_end": "inf", "cap": 10, "costs": [0, 1, 1, 0, 0]},
                      "locks": [{"cond": true, "order": "strict", "pos": case["rule"]["pos"], "jobs": case["rule"]["jobs"]}]});
    let world = build_xworld(&base, jobs.clone());
    let mut ctx = InsertionContext::new_empty(world.problem.clone(), Arc::new(Environment::default()));
    let ridx = add_route(&mut ctx, 0, &[]);
    let route_ctx = &ctx.solution.routes[ridx];
    let single_of_id = |id: i64| match jobs.iter().find(|(i, _)| *i == id).unwrap().1.clone() {
        Job::Single(s) => s,
        _ => unreachable!(),
    };
    let act_of_opt = |v: &Value| -> Activity {
        let job = if v.is_null() { None } else { Some(single_of_id(i64_of(v))) };
        Activity {
            place: ActPlace { idx: 0, location: 0, duration: 0., time: TimeWindow::new(0., f64::MAX) },
            schedule: Schedule::new(0., 0.),
            job,
            commute: None,
        }
    };
    let prev = act_of_opt(&case["prev"]);
    let target = act_of_opt(&case["job"]);
    let next = act_of_opt(&case["next"]);
    let has_next = case["has_next"].as_bool().unwrap_or(true);
    let actx = ActivityContext { index: 0, prev: &prev, target: &target, next: if has_next { Some(&next) } else { None } };
    let constraint = world.lock_feature.as_ref().unwrap().constraint.clone().unwrap();
    let verdict = verdict_out(constraint.evaluate(&MoveContext::activity(&ctx.solution, route_ctx, &actx)));
    // merge rule: a candidate that is locked cannot be merged into another job
    let merged = if case["job"].is_null() {
        Value::Null
    } else {
        let source = jobs.iter().find(|(i, _)| *i != i64_of(&case["job"])).map(|(_, j)| j.clone()).unwrap_or_else(|| jobs[0].1.clone());
        let candidate = Job::Single(single_of_id(i64_of(&case["job"])));
        json!(constraint.merge(source, candidate).is_ok())
    };
    json!({"verdict": verdict, "merge": merged})
}

/// route-level verdict of ActivityLimitConstraint alone for a Multi candidate with `k` sub-jobs (or a Single when k = 0)
fn run_size(case: &Value) -> Value {
    let tour_desc = case["tour"].as_array().unwrap();
    let tour_singles: Vec<Arc<Single>> = tour_desc.iter().map(|a| Arc::new(single_of_act(a))).collect();
    let k = usize_of(&case["k"]);
    let sub = |i: usize| single_of_act(&json!({"job": 900 + i, "loc": 0, "svc": 0, "tws": 0, "twe": "inf", "dem": [0, 0, 0, 0]}));
    let cand: Job = if k == 0 {
        Job::Single(Arc::new(sub(0)))
    } else {
        let mut b = MultiBuilder::default().id("m900");
        for i in 0..k {
            b = b.add_job(sub(i));
        }
        b.build_as_job().unwrap()
    };
    let mut jobs: Vec<(i64, Job)> =
        tour_desc.iter().zip(tour_singles.iter()).map(|(a, s)| (i64_of(&a["job"]), Job::Single(s.clone()))).collect();
    jobs.push((900, cand.clone()));
    let world = build_xworld(case, jobs);
    let mut ctx = InsertionContext::new_empty(world.problem.clone(), Arc::new(Environment::default()));
    let acts: Vec<(Value, Arc<Single>)> = tour_desc.iter().cloned().zip(tour_singles.iter().cloned()).collect();
    let ridx = add_route(&mut ctx, 0, &acts);
    let route_ctx = &ctx.solution.routes[ridx];
    let constraint = world.size_feature.constraint.clone().unwrap();
    let verdict = verdict_out(constraint.evaluate(&MoveContext::route(&ctx.solution, route_ctx, &cand)));
    json!({"verdict": verdict, "count": route_ctx.route().tour.job_activity_count()})
}

/// {"problem": pragmatic problem, "matrices": [..], "generations": n} -> {"solution": document} | {"error": ..}
fn run_e2e(case: &Value) -> Value {
    use vrp_core::prelude::{Solver, VrpConfigBuilder};
    use vrp_core::rosomaxa::utils::{DefaultRandom, Parallelism};
    use vrp_pragmatic::format::problem::PragmaticProblem;
    use vrp_pragmatic::format::solution::{write_pragmatic, PragmaticOutputType};
    let problem_text = case["problem"].to_string();
    let matrices: Vec<String> =
        case["matrices"].as_array().map(|ms| ms.iter().map(|m| m.to_string()).collect()).unwrap_or_default();
    let core_problem = match (problem_text, matrices).read_pragmatic() {
        Ok(p) => Arc::new(p),
        Err(errs) => return json!({"error": format!("read: {}", errs)}),
    };
    let environment = Arc::new(Environment::new(
        Arc::new(DefaultRandom::new_repeatable()),
        None,
        Parallelism::default(),
        Arc::new(|_: &str| {}),
        false,
    ));
    let config = VrpConfigBuilder::new(core_problem.clone())
        .set_environment(environment)
        .prebuild()
        .and_then(|b| b.with_max_generations(Some(usize_of(&case["generations"]))).build());
    let config = match config {
        Ok(c) => c,
        Err(e) => return json!({"error": format!("config: {}", e)}),
    };
    let solution = match Solver::new(core_problem.clone(), config).solve() {
        Ok(s) => s,
        Err(e) => return json!({"error": format!("solve: {}", e)}),
    };
    let mut buf = std::io::BufWriter::new(Vec::new());
    if let Err(e) = write_pragmatic(&core_problem, &solution, PragmaticOutputType::OnlyPragmatic, &mut buf) {
        return json!({"error": format!("write: {}", e)});
    }
    let bytes = buf.into_inner().unwrap_or_default();
    match serde_json::from_slice::<Value>(&bytes) {
        Ok(mut doc) => {
            if let Some(obj) = doc.as_object_mut() {
                obj.remove("extras");
            }
            json!({"solution": doc})
        }
        Err(e) => json!({"error": format!("written solution is not JSON: {}", e)}),
    }
}

fn run_case(case: &Value) -> Value {
    match case["mode"].as_str().unwrap_or("eval") {
        "e2e" => run_e2e(case),
        "skills" => run_skills(case),
        "lockrule" => run_lockrule(case),
        "size" => run_size(case),
        _ => run_eval(case),
    }
}

fn main() {
    vh::main_loop(run_case);
}
