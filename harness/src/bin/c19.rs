//! C19: drives the real GSOM `Network` (public API) with an instrumented storage that wraps the real `Elitism`
//! exactly as rosomaxa.rs' private IndividualStorage does, a deterministic `Random`, and integer-valued inputs;
//! records for every processed input the node it was stored to and whether nodes were created for it (event log
//! of storage creation / add / drain), and dumps the map after every call.  Second case kind: the real `Rosomaxa`
//! population (phases, elite size, NetworkState).
use rosomaxa::algorithms::gsom::{
    get_network_state, Coordinate, Input, Network, NetworkConfig, NetworkState, Storage, StorageFactory,
};
use rosomaxa::population::{Alternative, Elitism, RosomaxaContext, RosomaxaSolution};
use rosomaxa::prelude::*;
use rosomaxa::utils::{Parallelism, Timer};
use serde_json::{json, Value};
use std::cmp::Ordering;
use std::collections::{HashMap, HashSet};
use std::fmt::{Display, Formatter};
use std::ops::RangeBounds;
use std::sync::atomic::{AtomicUsize, Ordering as AtOrd};
use std::sync::{Arc, Mutex};
use vh::util::*;

#[derive(Clone)]
struct Sol {
    id: i64,
    key: i64,
    tag: i64,
    weights: Vec<Float>,
}

impl HeuristicSolution for Sol {
    fn fitness(&self) -> impl Iterator<Item = Float> {
        std::iter::once(self.key as Float)
    }
    fn deep_copy(&self) -> Self {
        self.clone()
    }
}

impl Input for Sol {
    fn weights(&self) -> &[Float] {
        self.weights.as_slice()
    }
}

struct Ctx;
impl RosomaxaContext for Ctx {
    type Solution = Sol;
    fn on_change(&mut self, _: &[Sol]) {}
}
impl RosomaxaSolution for Sol {
    type Context = Ctx;
    fn on_init(&mut self, _: &Ctx) {}
    fn on_update(&mut self, _: &Ctx) {}
}

struct Obj;
impl HeuristicObjective for Obj {
    type Solution = Sol;
    fn total_order(&self, a: &Sol, b: &Sol) -> Ordering {
        a.key.cmp(&b.key)
    }
}
impl Alternative for Obj {
    fn maybe_new(&self, _: &dyn Random) -> Self {
        Obj
    }
}

/// deterministic Random (splitmix64 stream)
struct DetRandom {
    stream: Mutex<SplitMix>,
}
impl DetRandom {
    fn unit(&self) -> f64 {
        (self.stream.lock().unwrap().next() >> 11) as f64 / (1u64 << 53) as f64
    }
}
impl Random for DetRandom {
    fn uniform_int(&self, min: i32, max: i32) -> i32 {
        assert!(min <= max);
        let span = (max as i64 - min as i64 + 1) as u64;
        let d = self.stream.lock().unwrap().next();
        (min as i64 + (d % span) as i64) as i32
    }
    fn uniform_real(&self, min: Float, max: Float) -> Float {
        if (min - max).abs() < Float::EPSILON {
            return min;
        }
        assert!(min < max);
        let v = min + self.unit() * (max - min);
        if v >= max { min } else { v }
    }
    fn is_head_not_tails(&self) -> bool {
        self.stream.lock().unwrap().next() & 1 == 1
    }
    fn is_hit(&self, probability: Float) -> bool {
        self.unit() < probability.clamp(0., 1.)
    }
    fn weighted(&self, weights: &[usize]) -> usize {
        weights
            .iter()
            .zip(0_usize..)
            .map(|(&weight, index)| (-self.uniform_real(0., 1.).max(1e-12).ln() / weight as Float, index))
            .min_by(|a, b| a.0.total_cmp(&b.0))
            .unwrap()
            .1
    }
    fn get_rng(&self) -> RandomGen {
        RandomGen::new_repeatable()
    }
}

#[derive(Clone, Debug)]
enum Ev {
    Create(usize),
    Add(usize, i64),
    Drain(usize),
}

type Log = Arc<Mutex<Vec<Ev>>>;

/// the same five calls as rosomaxa.rs :: IndividualStorage, plus the event log
struct LogStorage {
    serial: usize,
    cap: usize,
    population: Elitism<Obj, Sol>,
    log: Log,
}

impl Storage for LogStorage {
    type Item = Sol;
    fn add(&mut self, input: Sol) {
        self.log.lock().unwrap().push(Ev::Add(self.serial, input.id));
        self.population.add(input);
    }
    fn iter(&self) -> Box<dyn Iterator<Item = &'_ Sol> + '_> {
        Box::new(self.population.ranked())
    }
    fn drain<R>(&mut self, range: R) -> Vec<Sol>
    where
        R: RangeBounds<usize>,
    {
        self.log.lock().unwrap().push(Ev::Drain(self.serial));
        self.population.drain(range).into_iter().collect()
    }
    fn resize(&mut self, size: usize) {
        self.cap = size;
        self.population.set_max_population_size(size);
    }
    fn size(&self) -> usize {
        self.population.size()
    }
}

impl Display for LogStorage {
    fn fmt(&self, f: &mut Formatter<'_>) -> std::fmt::Result {
        write!(f, "{}", self.population)
    }
}

struct LogFactory {
    node_size: usize,
    random: Arc<dyn Random>,
    log: Log,
    counter: Arc<AtomicUsize>,
}

impl StorageFactory<Ctx, Sol, LogStorage> for LogFactory {
    fn eval(&self, _: &Ctx) -> LogStorage {
        let mut elitism = Elitism::new_with_dedup(
            Arc::new(Obj),
            self.random.clone(),
            self.node_size,
            self.node_size,
            Box::new(|_, a: &Sol, b: &Sol| a.tag == b.tag),
        );
        elitism.maybe_change();
        let serial = self.counter.fetch_add(1, AtOrd::SeqCst);
        self.log.lock().unwrap().push(Ev::Create(serial));
        LogStorage { serial, cap: self.node_size, population: elitism, log: self.log.clone() }
    }
}

type Net = Network<Ctx, Sol, LogStorage, LogFactory>;

fn sol_of(v: &Value) -> Sol {
    let a = i64s_of(v);
    Sol { id: a[0], key: a[1], tag: a[2], weights: a[3..].iter().map(|&w| w as Float).collect() }
}

/// map dump + the property predicates evaluated on the implementation
fn dump(net: &Net) -> Value {
    let mut nodes: Vec<Value> = vec![];
    let mut find_bad = 0usize;
    let mut nonfinite_w = 0usize;
    let mut nonfinite_e = 0usize;
    let keys: HashSet<(i32, i32)> = net.iter().map(|(c, _)| (c.0, c.1)).collect();
    for (c, node) in net.iter() {
        let ids: Vec<i64> = node.storage.iter().map(|s| s.id).collect();
        assert_eq!(ids.len(), node.storage.size());
        nodes.push(json!([c.0, c.1, node.coordinate.0, node.coordinate.1, node.weights.len(), node.total_hits, node.storage.cap, ids]));
        match net.find(c) {
            Some(n) if n.storage.serial == node.storage.serial => {}
            _ => find_bad += 1,
        }
        match net.find(&node.coordinate) {
            Some(n) if n.storage.serial == node.storage.serial => {}
            _ => find_bad += 1,
        }
        for (dx, dy) in [(1, 0), (-1, 0), (0, 1), (0, -1), (1, 1), (-1, -1), (2, 0), (0, -2)] {
            let q = Coordinate(c.0 + dx, c.1 + dy);
            match net.find(&q) {
                Some(n) => {
                    if !keys.contains(&(q.0, q.1)) || n.coordinate != q {
                        find_bad += 1
                    }
                }
                None => {
                    if keys.contains(&(q.0, q.1)) {
                        find_bad += 1
                    }
                }
            }
        }
        nonfinite_w += node.weights.iter().filter(|w| !w.is_finite()).count();
        if !node.error.is_finite() {
            nonfinite_e += 1;
        }
    }
    let coords: Vec<(i32, i32)> = net.get_coordinates().map(|c| (c.0, c.1)).collect();
    let nodes_n = net.get_nodes().count();
    let state: NetworkState = get_network_state(net);
    let mut nonfinite_m = 0usize;
    if !state.mse.is_finite() || !net.mse().is_finite() || !net.max_unified_distance().is_finite() {
        nonfinite_m += 1;
    }
    for ns in state.nodes.iter() {
        if !ns.unified_distance.is_finite() || !ns.mse.is_finite() {
            nonfinite_m += 1;
        }
    }
    json!({"nodes": nodes, "size": net.size(), "coords_n": coords.len(), "nodes_n": nodes_n, "state_n": state.nodes.len(),
           "state_dim": state.shape.2, "dimension": net.dimension(),
           "find_bad": find_bad, "nonfinite_w": nonfinite_w, "nonfinite_e": nonfinite_e, "nonfinite_m": nonfinite_m})
}

/// split the event log of one call into training rounds: each round = the inputs in processing order as
/// [id, bmu.x, bmu.y, created-nodes-before-this-add]
fn rounds_of(log: &[Ev], net: &Net, skip_initial_creates: bool) -> Vec<Vec<Value>> {
    let where_is: HashMap<usize, (i32, i32)> =
        net.iter().map(|(_, node)| (node.storage.serial, (node.coordinate.0, node.coordinate.1))).collect();
    let mut rounds: Vec<Vec<Value>> = vec![];
    let mut cur: Vec<Value> = vec![];
    let mut created = 0i64;
    let mut prev_was_drain = false;
    let mut started = false;
    for ev in log {
        match ev {
            Ev::Drain(_) => {
                if !prev_was_drain && started {
                    rounds.push(std::mem::take(&mut cur));
                }
                prev_was_drain = true;
                started = true;
                created = 0;
            }
            Ev::Create(_) => {
                prev_was_drain = false;
                started = true;
                created += 1;
            }
            Ev::Add(serial, id) => {
                prev_was_drain = false;
                started = true;
                let (x, y) = where_is.get(serial).copied().unwrap_or((i32::MIN, i32::MIN));
                let c = if skip_initial_creates && rounds.is_empty() { 0 } else { created };
                cur.push(json!([id, x, y, c]));
                created = 0;
            }
        }
    }
    if started {
        rounds.push(cur);
    }
    rounds
}

fn run_net(case: &Value) -> Value {
    let cfg = &case["cfg"];
    let seed = case["seed"].as_u64().unwrap_or(1);
    let brief = case["brief"].as_bool().unwrap_or(false);
    let random: Arc<dyn Random> = Arc::new(DetRandom { stream: Mutex::new(SplitMix(seed)) });
    let log: Log = Arc::new(Mutex::new(vec![]));
    let counter = Arc::new(AtomicUsize::new(0));
    let data: Vec<Sol> = case["data"].as_array().unwrap().iter().map(sol_of).collect();
    let config = NetworkConfig {
        node_size: usize_of(&cfg["node_size"]),
        spread_factor: i64_of(&cfg["sf"]) as Float / 16.,
        distribution_factor: i64_of(&cfg["df"]) as Float / 16.,
        learning_rate: i64_of(&cfg["lr"]) as Float / 16.,
        rebalance_memory: usize_of(&cfg["rebalance"]),
        has_initial_error: cfg["initial_error"].as_bool().unwrap_or(true),
    };
    let ctx = Ctx;
    let made = {
        let (random2, log2, counter2) = (random.clone(), log.clone(), counter.clone());
        Net::new(&ctx, data, config, random.clone(), move |node_size| LogFactory {
            node_size,
            random: random2.clone(),
            log: log2.clone(),
            counter: counter2.clone(),
        })
    };
    let mut net = match made {
        Ok(n) => n,
        Err(e) => return json!({"created": 1, "err": e.to_string(), "trace": []}),
    };
    let mut trace: Vec<Value> = vec![];
    {
        let evs: Vec<Ev> = std::mem::take(&mut *log.lock().unwrap());
        let mut d = dump(&net);
        d["rounds"] = json!(rounds_of(&evs, &net, true));
        trace.push(d);
    }
    let ops = case["ops"].as_array().unwrap();
    let mut bad = json!({"find_bad": 0, "nonfinite_w": 0, "nonfinite_e": 0, "nonfinite_m": 0, "max_err_exp": -2000, "first_nonfinite_op": -1});
    for (k, op) in ops.iter().enumerate() {
        if op["op"].as_str().unwrap() == "lr" {
            net.set_learning_rate(i64_of(&op["v"]) as Float / 16.);
            continue;
        }
        let r = std::panic::catch_unwind(std::panic::AssertUnwindSafe(|| match op["op"].as_str().unwrap() {
            "store" => {
                let xs: Vec<Sol> = op["xs"].as_array().unwrap().iter().map(sol_of).collect();
                net.store_batch(&ctx, xs, usize_of(&op["time"]));
            }
            "smooth" => net.smooth(&ctx, usize_of(&op["count"]), |i: &mut Sol| i.on_update(&ctx)),
            "compact" => net.compact(&ctx),
            _ => panic!("unknown op"),
        }));
        if let Err(e) = r {
            trace.push(json!({"panic": panic_msg(&e)}));
            break;
        }
        let evs: Vec<Ev> = std::mem::take(&mut *log.lock().unwrap());
        if brief && k + 1 < ops.len() {
            // long streams: only accumulate the exploration-level monitors
            for (_, node) in net.iter() {
                if node.error > 0. {
                    let e = if node.error.is_finite() { node.error.log2().ceil() as i64 } else { 5000 };
                    if e > bad["max_err_exp"].as_i64().unwrap() {
                        bad["max_err_exp"] = json!(e);
                    }
                }
                if !node.error.is_finite() {
                    bad["nonfinite_e"] = json!(bad["nonfinite_e"].as_i64().unwrap() + 1);
                    if bad["first_nonfinite_op"].as_i64().unwrap() < 0 {
                        bad["first_nonfinite_op"] = json!(k);
                    }
                }
                if node.weights.iter().any(|w| !w.is_finite()) {
                    bad["nonfinite_w"] = json!(bad["nonfinite_w"].as_i64().unwrap() + 1);
                }
            }
            continue;
        }
        let mut d = dump(&net);
        d["rounds"] = json!(rounds_of(&evs, &net, false));
        trace.push(d);
    }
    json!({"created": 0, "trace": trace, "brief_bad": bad})
}

fn panic_msg(e: &Box<dyn std::any::Any + Send>) -> String {
    e.downcast_ref::<String>().cloned().or_else(|| e.downcast_ref::<&str>().map(|s| s.to_string())).unwrap_or_else(|| "panic".to_string())
}

fn phase_of(p: SelectionPhase) -> i64 {
    match p {
        SelectionPhase::Initial => 0,
        SelectionPhase::Exploration => 1,
        SelectionPhase::Exploitation => 2,
    }
}

/// the real Rosomaxa population: phases, elite size, NetworkState after every op
fn run_pop(case: &Value) -> Value {
    let cfg = &case["cfg"];
    let seed = case["seed"].as_u64().unwrap_or(1);
    let random: Arc<dyn Random> = Arc::new(DetRandom { stream: Mutex::new(SplitMix(seed)) });
    let env = Arc::new(Environment::new(random, None, Parallelism::new_with_cpus(1), Arc::new(|_: &str| {}), false));
    let config = RosomaxaConfig {
        initial_size: usize_of(&cfg["initial"]),
        selection_size: usize_of(&cfg["sel"]),
        elite_size: usize_of(&cfg["elite"]),
        node_size: usize_of(&cfg["node_size"]),
        spread_factor: i64_of(&cfg["sf"]) as Float / 16.,
        distribution_factor: i64_of(&cfg["df"]) as Float / 16.,
        rebalance_memory: usize_of(&cfg["rebalance"]),
        exploration_ratio: i64_of(&cfg["er"]) as Float / 1024.,
    };
    let mut pop = Rosomaxa::new(Ctx, Arc::new(Obj), env, config).expect("rosomaxa config rejected");
    let mut trace: Vec<Value> = vec![];
    for op in case["ops"].as_array().unwrap() {
        let r = std::panic::catch_unwind(std::panic::AssertUnwindSafe(|| match op["op"].as_str().unwrap() {
            "add_all" => {
                let xs: Vec<Sol> = op["xs"].as_array().unwrap().iter().map(sol_of).collect();
                pop.add_all(xs);
            }
            "gen" => {
                let stats = HeuristicStatistics {
                    generation: usize_of(&op["g"]),
                    time: Timer::start(),
                    speed: HeuristicSpeed::Unknown,
                    improvement_all_ratio: 0.25,
                    improvement_1000_ratio: 0.25,
                    termination_estimate: i64_of(&op["t"]) as Float / 1024.,
                };
                pop.on_generation(&stats);
            }
            _ => panic!("unknown op"),
        }));
        if let Err(e) = r {
            trace.push(json!({"panic": panic_msg(&e)}));
            break;
        }
        let net = match NetworkState::try_from(&pop) {
            Ok(state) => {
                let nodes: Vec<Value> = state
                    .nodes
                    .iter()
                    .map(|n| {
                        let fin = n.weights.iter().all(|w| w.is_finite()) && n.unified_distance.is_finite() && n.mse.is_finite();
                        json!([n.coordinate.0, n.coordinate.1, n.weights.len(), n.dump.matches("],").count(), fin])
                    })
                    .collect();
                json!({"nodes": nodes, "mse_fin": state.mse.is_finite(), "dim": state.shape.2})
            }
            Err(_) => Value::Null,
        };
        let selected = pop.select().count();
        trace.push(json!({"phase": phase_of(pop.selection_phase()), "elite": pop.size(), "ranked": pop.ranked().count(),
                          "all": pop.all().count(), "selected": selected, "net": net}));
    }
    json!({"trace": trace})
}


// ------------------------------------------------------------------------------------------------
// kind "ctx": real vrp-core InsertionContexts (0, 1, several routes, routes without jobs) -> RosomaxaSolution::on_init
// -> Input::weights(); the weight vectors are then fed to the real Network, to the real RosomaxaPopulation and a real solve.
mod ctx {
    use super::*;
    use vrp_core::construction::heuristics::InsertionContext;
    use vrp_core::models::common::Footprint;
    use vrp_core::prelude::*;
    use vrp_core::rosomaxa::evolution::TelemetryMode;
    use vrp_core::solver::search::{Recreate, RecreateWithCheapest};
    use vrp_core::solver::{RefinementContext, RosomaxaPopulation};

    fn problem_of(case: &Value) -> Arc<Problem> {
        let demands = i64s_of(&case["demands"]);
        let n = demands.len() + 1;
        // locations on a line: 0 = depot, job i at i; distance = duration = |i - j| * 10
        let m: Vec<f64> = (0..n * n).map(|k| ((k / n) as f64 - (k % n) as f64).abs() * 10.).collect();
        let transport: Arc<dyn TransportCost> = Arc::new(SimpleTransportCost::new(m.clone(), m).unwrap());
        let minimize_unassigned = MinimizeUnassignedBuilder::new("min-unassigned").build().unwrap();
        let capacity_feature = CapacityFeatureBuilder::<SingleDimLoad>::new("capacity").build().unwrap();
        let transport_feature = TransportFeatureBuilder::new("min-distance")
            .set_transport_cost(transport.clone())
            .set_time_constrained(false)
            .build_minimize_distance()
            .unwrap();
        let goal = GoalContextBuilder::with_features(&[minimize_unassigned, transport_feature, capacity_feature]).unwrap().build().unwrap();
        let jobs: Vec<Job> = demands
            .iter()
            .enumerate()
            .map(|(i, &d)| {
                SingleBuilder::default()
                    .id(format!("job{}", i + 1).as_str())
                    .demand(Demand::delivery(d as i32))
                    .location(i + 1)
                    .unwrap()
                    .build_as_job()
                    .unwrap()
            })
            .collect();
        let vehicles: Vec<Vehicle> = (0..usize_of(&case["vehicles"]))
            .map(|i| {
                VehicleBuilder::default()
                    .id(format!("v{}", i + 1).as_str())
                    .add_detail(VehicleDetailBuilder::default().set_start_location(0).set_end_location(0).build().unwrap())
                    .capacity(SingleDimLoad::new(i64_of(&case["capacity"]) as i32))
                    .build()
                    .unwrap()
            })
            .collect();
        Arc::new(
            ProblemBuilder::default()
                .add_jobs(jobs.into_iter())
                .add_vehicles(vehicles.into_iter())
                .with_goal(goal)
                .with_transport_cost(transport)
                .build()
                .unwrap(),
        )
    }

    fn env_of(seed: u64, cpus: usize) -> Arc<Environment> {
        let random: Arc<dyn Random> = Arc::new(DetRandom { stream: Mutex::new(SplitMix(seed)) });
        Arc::new(Environment::new(random, None, Parallelism::new_with_cpus(cpus), Arc::new(|_: &str| {}), false))
    }

    fn make_ctx(problem: &Arc<Problem>, how: &str, seed: u64) -> InsertionContext {
        let env = env_of(seed, 1);
        let construct = |ctx: InsertionContext| {
            let population = Box::new(vrp_core::solver::GreedyPopulation::new(problem.goal.clone(), 1, None));
            let rctx = RefinementContext::new(problem.clone(), population, TelemetryMode::None, env.clone());
            RecreateWithCheapest::new(env.random.clone()).run(&rctx, ctx)
        };
        match how {
            "empty" => InsertionContext::new_empty(problem.clone(), env.clone()),
            "new" => InsertionContext::new(problem.clone(), env.clone()),
            "cheapest" => construct(InsertionContext::new(problem.clone(), env.clone())),
            "cheapest-plus-empty-route" | "only-empty-route" => {
                let mut ctx = if how == "only-empty-route" {
                    InsertionContext::new(problem.clone(), env.clone())
                } else {
                    construct(InsertionContext::new(problem.clone(), env.clone()))
                };
                let actor = ctx.solution.registry.next_route().next().map(|r| r.route().actor.clone());
                if let Some(actor) = actor {
                    if let Some(route) = ctx.solution.registry.get_route(&actor) {
                        ctx.solution.routes.push(route);
                    }
                }
                problem.goal.accept_solution_state(&mut ctx.solution);
                ctx
            }
            _ => panic!("unknown make"),
        }
    }

    fn state_summary(state: &NetworkState) -> Value {
        let nan_w: usize = state.nodes.iter().map(|n| n.weights.iter().filter(|w| !w.is_finite()).count()).sum();
        let nan_m = state.nodes.iter().filter(|n| !n.mse.is_finite() || !n.unified_distance.is_finite()).count();
        json!({"nodes": state.nodes.len(), "nonfinite_w": nan_w, "nonfinite_node_measures": nan_m, "mse_fin": state.mse.is_finite(),
               "dim": state.shape.2})
    }

    pub fn run_ctx(case: &Value) -> Value {
        let seed = case["seed"].as_u64().unwrap_or(1);
        let problem = problem_of(case);
        let footprint = Footprint::new(problem.as_ref());
        let makes: Vec<String> = case["make"].as_array().unwrap().iter().map(|v| v.as_str().unwrap().to_string()).collect();
        let mut ctxs: Vec<InsertionContext> = vec![];
        let mut out_ctxs: Vec<Value> = vec![];
        for (k, how) in makes.iter().enumerate() {
            let mut ctx = make_ctx(&problem, how, seed + k as u64);
            RosomaxaSolution::on_init(&mut ctx, &footprint);
            let w: Vec<Float> = Input::weights(&ctx).to_vec();
            let jobs_in_routes: usize = ctx.solution.routes.iter().map(|r| r.route().tour.job_count()).sum();
            out_ctxs.push(json!({"make": how, "routes": ctx.solution.routes.len(), "unassigned": ctx.solution.unassigned.len(),
                                 "jobs_in_routes": jobs_in_routes, "dim": w.len(),
                                 "weights": w.iter().map(|&x| bits_of(x)).collect::<Vec<_>>(),
                                 "nonfinite": w.iter().enumerate().filter(|(_, x)| !x.is_finite()).map(|(i, _)| i).collect::<Vec<_>>()}));
            ctxs.push(ctx);
        }

        // (2a) the real Network (instrumented storage) fed with the real weight vectors
        let net = std::panic::catch_unwind(std::panic::AssertUnwindSafe(|| {
            let random: Arc<dyn Random> = Arc::new(DetRandom { stream: Mutex::new(SplitMix(seed)) });
            let log: Log = Arc::new(Mutex::new(vec![]));
            let counter = Arc::new(AtomicUsize::new(0));
            let sols = |base: i64| -> Vec<Sol> {
                ctxs.iter()
                    .enumerate()
                    .map(|(i, c)| Sol { id: base + i as i64, key: i as i64, tag: base + i as i64, weights: Input::weights(c).to_vec() })
                    .collect()
            };
            let config = NetworkConfig { node_size: 2, spread_factor: 0.75, distribution_factor: 0.9, learning_rate: 0.3,
                                         rebalance_memory: 10, has_initial_error: true };
            let ctx0 = Ctx;
            let (r2, l2, c2) = (random.clone(), log.clone(), counter.clone());
            let made = Net::new(&ctx0, sols(0), config, random.clone(), move |node_size| LogFactory {
                node_size, random: r2.clone(), log: l2.clone(), counter: c2.clone() });
            let mut net = match made {
                Ok(n) => n,
                Err(e) => return json!({"created": 1, "err": e.to_string()}),
            };
            let mut trace = vec![dump(&net)];
            for (k, op) in ["store", "smooth", "compact", "store", "smooth"].iter().enumerate() {
                match *op {
                    "store" => net.store_batch(&ctx0, sols(1000 * (k as i64 + 1)), k + 1),
                    "smooth" => net.smooth(&ctx0, 1, |_: &mut Sol| ()),
                    _ => net.compact(&ctx0),
                }
                trace.push(dump(&net));
            }
            let t: Vec<Value> = trace.iter().map(|d| json!({"size": d["size"], "nonfinite_w": d["nonfinite_w"], "nonfinite_e": d["nonfinite_e"],
                                                           "nonfinite_m": d["nonfinite_m"], "find_bad": d["find_bad"]})).collect();
            json!({"created": 0, "trace": t})
        }))
        .unwrap_or_else(|e| json!({"panic": panic_msg(&e)}));

        // (2b) the real RosomaxaPopulation of vrp-core fed with the real contexts
        let pop = std::panic::catch_unwind(std::panic::AssertUnwindSafe(|| {
            let env = env_of(seed, 1);
            let config = RosomaxaConfig { initial_size: 4, ..RosomaxaConfig::new_with_defaults(4) };
            let mut pop: RosomaxaPopulation = Rosomaxa::new(footprint.clone(), problem.goal.clone(), env, config).expect("config");
            let mut trace: Vec<Value> = vec![];
            for g in 0..usize_of(&case["pop_gens"]) {
                pop.add_all(ctxs.iter().map(|c| c.deep_copy()).collect());
                let stats = HeuristicStatistics { generation: g, time: Timer::start(), speed: HeuristicSpeed::Unknown,
                    improvement_all_ratio: 0.25, improvement_1000_ratio: 0.25, termination_estimate: 0.01 * (g as Float + 1.) };
                pop.on_generation(&stats);
                let net = NetworkState::try_from(&pop).ok().map(|s| state_summary(&s));
                let selected = pop.select().count();
                trace.push(json!({"phase": phase_of(pop.selection_phase()), "elite": pop.size(), "selected": selected, "net": net}));
            }
            json!({"trace": trace})
        }))
        .unwrap_or_else(|e| json!({"panic": panic_msg(&e)}));

        // (2c) a real solve with the default configuration (Rosomaxa population when more than one cpu is configured)
        let gens = usize_of(&case["solve_gens"]);
        let solve = if gens == 0 {
            Value::Null
        } else {
            std::panic::catch_unwind(std::panic::AssertUnwindSafe(|| {
                let env = env_of(seed, 2);
                let config = VrpConfigBuilder::new(problem.clone())
                    .set_environment(env)
                    .set_telemetry_mode(TelemetryMode::None)
                    .prebuild()
                    .unwrap()
                    .with_max_generations(Some(gens))
                    .build()
                    .unwrap();
                match Solver::new(problem.clone(), config).solve() {
                    Ok(s) => json!({"routes": s.routes.len(), "unassigned": s.unassigned.len(), "cost_fin": s.cost.is_finite()}),
                    Err(e) => json!({"err": e.to_string()}),
                }
            }))
            .unwrap_or_else(|e| json!({"panic": panic_msg(&e)}))
        };
        json!({"ctxs": out_ctxs, "net": net, "pop": pop, "solve": solve})
    }
}

pub fn run_case(case: &Value) -> Value {
    // a fresh thread per case: the crate's repeatable RNG (get_rng) is thread-local, so every case starts from the same state
    let c = case.clone();
    let h = std::thread::spawn(move || match c["kind"].as_str().unwrap() {
        "net" => run_net(&c),
        "pop" => run_pop(&c),
        "ctx" => ctx::run_ctx(&c),
        _ => panic!("unknown kind"),
    });
    match h.join() {
        Ok(v) => v,
        Err(e) => {
            let msg = e
                .downcast_ref::<String>()
                .cloned()
                .or_else(|| e.downcast_ref::<&str>().map(|s| s.to_string()))
                .unwrap_or_else(|| "panic".to_string());
            panic!("{}", msg)
        }
    }
}

fn main() {
    vh::main_loop(run_case);
}
