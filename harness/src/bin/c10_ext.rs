//! C10 sub-stream `c10_ext`: pragmatic problem reading + validation on the real code, through the TYPED entry point.
//! case: {"problem": <json>, "matrices": null | [<json>..]}
//! result: {"read": R, "validate": R, "text": R} with
//!   R = {"k":"ok"} | {"k":"err","codes":[..],"causes":[..]} | {"k":"panic","msg":..} | {"k":"deser"}
//! read     = `(ApiProblem, Vec<Matrix>).read_pragmatic()` / `ApiProblem.read_pragmatic()` (no matrices) on the deserialised documents
//! text     = the same documents through `(String, Vec<String>)::read_pragmatic` / `String::read_pragmatic`
//! validate = `ValidationContext::new(problem, Some(matrices), coord_index).validate()` with the matrices chosen exactly
//!            as problem_reader.rs::map_to_problem_with_{approx,matrices} chooses them.
//! Every call runs under its own catch_unwind.
use serde_json::{json, Value};
use std::panic::{catch_unwind, AssertUnwindSafe};
use vrp_pragmatic::format::problem::{create_approx_matrices, Matrix, PragmaticProblem, Problem};
use vrp_pragmatic::format::{CoordIndex, MultiFormatError};
use vrp_pragmatic::validation::ValidationContext;

fn panic_msg(e: Box<dyn std::any::Any + Send>) -> String {
    if let Some(s) = e.downcast_ref::<&str>() {
        s.to_string()
    } else if let Some(s) = e.downcast_ref::<String>() {
        s.clone()
    } else {
        "panic".to_string()
    }
}

fn err_value(e: &MultiFormatError) -> Value {
    let codes: Vec<String> = e.errors.iter().map(|x| x.code.clone()).collect();
    let causes: Vec<String> = e.errors.iter().map(|x| format!("{} / {}", x.cause, x.action)).collect();
    json!({"k": "err", "codes": codes, "causes": causes})
}

fn outcome<T>(r: std::thread::Result<Result<T, MultiFormatError>>) -> Value {
    match r {
        Ok(Ok(_)) => json!({"k": "ok"}),
        Ok(Err(e)) => err_value(&e),
        Err(e) => json!({"k": "panic", "msg": panic_msg(e)}),
    }
}

fn parse(case: &Value) -> Option<(Problem, Option<Vec<Matrix>>)> {
    let p: Problem = serde_json::from_value(case["problem"].clone()).ok()?;
    let ms = match case.get("matrices") {
        Some(Value::Array(a)) => {
            let mut out = vec![];
            for m in a {
                out.push(serde_json::from_value::<Matrix>(m.clone()).ok()?);
            }
            Some(out)
        }
        _ => None,
    };
    Some((p, ms))
}

pub fn run_case(case: &Value) -> Value {
    let text = {
        let p = serde_json::to_string(&case["problem"]).unwrap();
        let m: Option<Vec<String>> = match case.get("matrices") {
            Some(Value::Array(a)) => Some(a.iter().map(|m| serde_json::to_string(m).unwrap()).collect()),
            _ => None,
        };
        outcome(catch_unwind(AssertUnwindSafe(move || match m {
            Some(ms) => (p, ms).read_pragmatic().map(|_| ()),
            None => p.read_pragmatic().map(|_| ()),
        })))
    };

    let (read, validate) = match parse(case) {
        None => (json!({"k": "deser"}), json!({"k": "deser"})),
        Some((p, ms)) => {
            let read = {
                let (p, ms) = (p.clone(), ms.clone());
                outcome(catch_unwind(AssertUnwindSafe(move || (p, ms).read_pragmatic().map(|_| ()))))
            };
            let validate = outcome(catch_unwind(AssertUnwindSafe(|| {
                let coord_index = CoordIndex::new(&p);
                let ms = match ms {
                    Some(ms) => ms,
                    None => {
                        if coord_index.has_indices() {
                            vec![]
                        } else {
                            create_approx_matrices(&p)
                        }
                    }
                };
                ValidationContext::new(&p, Some(&ms), &coord_index).validate()
            })));
            (read, validate)
        }
    };

    json!({"read": read, "validate": validate, "text": text})
}

fn main() {
    vh::main_loop(run_case);
}
