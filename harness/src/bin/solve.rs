//! Shared end-to-end op "solve": runs the REAL solver through the public API on a pragmatic problem
//! (problem JSON + routing matrices) under a given configuration and returns the written solution document.
//!
//! case: {"op":"solve", "problem": <pragmatic problem>, "matrices": [<matrix>...],
//!        "config": {"max_generations": n, "parallelism": [pools, threads] | null,
//!                   "quota_after_polls": k | null, "seed": s, "outer_threads": t (default 1)}}
//! res:  {"solution": <pragmatic solution JSON value>, "polls": quota polls seen, "generations": telemetry generations,
//!        "evolution": number of telemetry evolution entries, "core_cost": Solution.cost (integer or "nonint:..")}
//!       | {"error": "<message>"}   (validation / reader / solver error)
//! A panic anywhere in the real code is reported by the case loop as {"panic": msg}.
//!
//! Determinism: the solve runs on a fresh rayon pool (fresh threads => fresh thread-local repeatable RNGs seeded with 0);
//! `seed` draws are burnt from the repeatable generator first. With outer_threads = 1 and parallelism = null the run is
//! deterministic; otherwise thread scheduling may influence the result (that is part of what is being tested).
use serde_json::{json, Value};
use std::io::BufWriter;
use std::sync::atomic::{AtomicUsize, Ordering};
use std::sync::Arc;
use vrp_core::prelude::*;
use vrp_core::rosomaxa::evolution::TelemetryMode;
use vrp_core::rosomaxa::utils::{DefaultRandom, Parallelism, Quota, Random};
use vrp_pragmatic::format::problem::PragmaticProblem;
use vrp_pragmatic::format::solution::{write_pragmatic, PragmaticOutputType};

/// turns true at its k-th poll (1-based; k = 0: true from the very first poll) and stays true
struct CountingQuota {
    polls: AtomicUsize,
    fire_at: Option<usize>,
}

impl Quota for CountingQuota {
    fn is_reached(&self) -> bool {
        let n = self.polls.fetch_add(1, Ordering::SeqCst) + 1;
        match self.fire_at {
            Some(k) => n >= k,
            None => false,
        }
    }
}

fn num_out(x: f64) -> Value {
    if x == x.trunc() && x.abs() < 9e15 {
        json!(x as i64)
    } else {
        json!(format!("nonint:{}", x))
    }
}

fn solve(case: &Value) -> Value {
    let problem_text = case["problem"].to_string();
    let matrices: Vec<String> =
        case["matrices"].as_array().map(|ms| ms.iter().map(|m| m.to_string()).collect()).unwrap_or_default();
    let cfg = &case["config"];
    let max_generations = cfg["max_generations"].as_u64().map(|g| g as usize);
    let seed = cfg["seed"].as_u64().unwrap_or(0);
    let fire_at = cfg["quota_after_polls"].as_u64().map(|k| k as usize);
    let parallelism = cfg["parallelism"].as_array().map(|p| {
        Parallelism::new(p[0].as_u64().unwrap_or(1) as usize, p[1].as_u64().unwrap_or(1) as usize)
    });

    let core_problem = match (problem_text, matrices).read_pragmatic() {
        Ok(p) => Arc::new(p),
        Err(errs) => return json!({"error": format!("read: {}", errs)}),
    };

    let random = DefaultRandom::new_repeatable();
    for _ in 0..(seed % 1024) {
        random.uniform_int(0, 1000);
    }
    let quota = Arc::new(CountingQuota { polls: AtomicUsize::new(0), fire_at });
    let quota_dyn: Arc<dyn Quota> = quota.clone();
    let environment = Arc::new(Environment::new(
        Arc::new(random),
        Some(quota_dyn),
        parallelism.unwrap_or_default(),
        Arc::new(|_: &str| {}),
        false,
    ));

    let config = VrpConfigBuilder::new(core_problem.clone())
        .set_environment(environment)
        .set_telemetry_mode(TelemetryMode::OnlyMetrics { track_population: 1 })
        .prebuild()
        .and_then(|b| b.with_max_generations(max_generations).build());
    let config = match config {
        Ok(c) => c,
        Err(e) => return json!({"error": format!("config: {}", e)}),
    };
    let solution = match Solver::new(core_problem.clone(), config).solve() {
        Ok(s) => s,
        Err(e) => return json!({"error": format!("solve: {}", e)}),
    };

    let mut buf = BufWriter::new(Vec::new());
    if let Err(e) = write_pragmatic(&core_problem, &solution, PragmaticOutputType::OnlyPragmatic, &mut buf) {
        return json!({"error": format!("write: {}", e)});
    }
    let bytes = buf.into_inner().unwrap_or_default();
    let mut doc: Value = match serde_json::from_slice(&bytes) {
        Ok(v) => v,
        Err(e) => return json!({"error": format!("written solution is not JSON: {}", e)}),
    };
    // telemetry is reported separately (keeps the result small)
    if let Some(obj) = doc.as_object_mut() {
        obj.remove("extras");
    }
    json!({
        "solution": doc,
        "polls": quota.polls.load(Ordering::SeqCst),
        "generations": solution.telemetry.as_ref().map(|t| t.generations),
        "evolution": solution.telemetry.as_ref().map(|t| t.evolution.len()),
        "core_cost": num_out(solution.cost),
    })
}

fn run_case(case: &Value) -> Value {
    let outer = case["config"]["outer_threads"].as_u64().unwrap_or(1).max(1) as usize;
    let pool = rayon::ThreadPoolBuilder::new().num_threads(outer).build().expect("rayon pool");
    // the case loop catches panics; rayon propagates a panic of the installed closure to the caller
    pool.install(|| solve(case))
}

fn main() {
    vh::main_loop(run_case);
}
