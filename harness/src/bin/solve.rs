//! Shared end-to-end op "solve": runs the REAL solver through the public API on a pragmatic problem
//! (problem JSON + routing matrices) under a given configuration and returns the written solution document.
//!
//! case: {"op":"solve", "problem": <pragmatic problem>, "matrices": [<matrix>...],
//!        "config": {"max_generations": n, "parallelism": [pools, threads] | null,
//!                   "quota_after_polls": k | null, "seed": s, "outer_threads": t (default 1),
//!                   "trace": n (default 0: record the first n bookkeeping states, see "trace" below),
//!                   "poll_sites": bool (default false; C07: label every quota poll with the code site that made it),
//!                   "construct": n (default 0: also return n PURE-CONSTRUCTION documents, see "constructed" below)}}
//! res:  {"solution": <pragmatic solution JSON value>, "polls": quota polls seen, "generations": telemetry generations,
//!        "evolution": number of telemetry evolution entries, "core_cost": Solution.cost (integer or "nonint:.."),
//!        "core": {"routes": [{"vehicle","shift","jobs": [job id per job activity, tour order]}], "unassigned": [job ids]}}
//!        "constructed": [{"method": "cheapest"|"regret"|"farthest"|"nearest"|"skip_best"|"gaps"|"blinks", "solution": <document>}]
//!                 = the real insertion heuristics run ONCE on the empty solution under the real goal (own environment: repeatable
//!                   random, no quota; no ruin, no removal, no search), each result written by the real writer
//!        "trace": [{"routes": [[job ids of tour.jobs() - a hash set, NOT the visiting order]],
//!                   "seq": [{"vehicle","shift","acts": [[job id or "", location] in visiting order]}],
//!                   "required": [...], "unassigned": [...], "ignored": [...]}]
//!                 = SolutionContext after each insertion applied by InsertionHeuristic::process on the solving thread}
//!        "insertions": number of insertions applied by InsertionHeuristic::process on the solving thread (all, not only
//!                      the first `trace` ones), "poll_sites": ["insertion"|"iterative"|"decompose"|"swap_star"|"other", ...]
//!                      (only with config.poll_sites: one label per quota poll, from a captured backtrace; slow)}
//!       | {"error": "<message>"}   (validation / reader / solver error; a solver error also carries "polls", "insertions",
//!                                   "poll_sites")
//! A panic anywhere in the real code is reported by the case loop as {"panic": msg}.
//!
//! Determinism: the solve runs on a fresh rayon pool (fresh threads => fresh thread-local repeatable RNGs seeded with 0);
//! `seed` draws are burnt from the repeatable generator first. With outer_threads = 1 and parallelism = null the run is
//! deterministic; otherwise thread scheduling may influence the result (that is part of what is being tested).
use serde_json::{json, Value};
use std::cell::RefCell;
use std::io::BufWriter;
use std::rc::Rc;
use std::sync::atomic::{AtomicUsize, Ordering};
use std::sync::{Arc, Mutex};
use vrp_core::construction::heuristics::{verif_hooks, InsertionContext};
use vrp_core::prelude::*;
use vrp_core::rosomaxa::evolution::TelemetryMode;
use vrp_core::rosomaxa::utils::{DefaultRandom, Parallelism, Quota, Random};
use vrp_core::models::problem::{JobIdDimension, VehicleIdDimension};
use vrp_pragmatic::format::problem::PragmaticProblem;
use vrp_pragmatic::format::ShiftIndexDimension;
use vrp_pragmatic::format::solution::{write_pragmatic, PragmaticOutputType};

/// turns true at its k-th poll (1-based; k = 0: true from the very first poll) and stays true
struct CountingQuota {
    polls: AtomicUsize,
    fire_at: Option<usize>,
    /// C07: when set, the code site of every poll (innermost known frame of a captured backtrace)
    sites: Option<Mutex<Vec<&'static str>>>,
}

/// the anchored poll sites of property C07: insertions.rs (InsertionHeuristic::process), iterative.rs (Iterative::run),
/// decompose_search.rs (refine_decomposed), exchange_swap_star.rs
fn poll_site() -> &'static str {
    let bt = std::backtrace::Backtrace::force_capture().to_string();
    for line in bt.lines() {
        if line.contains("exchange_swap_star") {
            return "swap_star";
        }
        if line.contains("InsertionHeuristic") && line.contains("process") {
            return "insertion";
        }
        if line.contains("decompose_search") {
            return "decompose";
        }
        if line.contains("strategies::iterative") {
            return "iterative";
        }
    }
    "other"
}

impl Quota for CountingQuota {
    fn is_reached(&self) -> bool {
        if let Some(sites) = self.sites.as_ref() {
            let site = poll_site();
            sites.lock().unwrap().push(site);
        }
        let n = self.polls.fetch_add(1, Ordering::SeqCst) + 1;
        match self.fire_at {
            Some(k) => n >= k,
            None => false,
        }
    }
}

fn num_out(x: f64) -> Value {
    if x == x.trunc() && x.abs() < 9e15 {
        json!(x as i64)
    } else {
        json!(format!("nonint:{}", x))
    }
}

fn solve(case: &Value) -> Value {
    let problem_text = case["problem"].to_string();
    let matrices: Vec<String> =
        case["matrices"].as_array().map(|ms| ms.iter().map(|m| m.to_string()).collect()).unwrap_or_default();
    let cfg = &case["config"];
    let max_generations = cfg["max_generations"].as_u64().map(|g| g as usize);
    let seed = cfg["seed"].as_u64().unwrap_or(0);
    let fire_at = cfg["quota_after_polls"].as_u64().map(|k| k as usize);
    let parallelism = cfg["parallelism"].as_array().map(|p| {
        Parallelism::new(p[0].as_u64().unwrap_or(1) as usize, p[1].as_u64().unwrap_or(1) as usize)
    });

    let core_problem = match (problem_text, matrices).read_pragmatic() {
        Ok(p) => Arc::new(p),
        Err(errs) => return json!({"error": format!("read: {}", errs)}),
    };

    let random = DefaultRandom::new_repeatable();
    for _ in 0..(seed % 1024) {
        random.uniform_int(0, 1000);
    }
    let want_sites = cfg["poll_sites"].as_bool().unwrap_or(false);
    let quota = Arc::new(CountingQuota {
        polls: AtomicUsize::new(0),
        fire_at,
        sites: if want_sites { Some(Mutex::new(vec![])) } else { None },
    });
    let quota_dyn: Arc<dyn Quota> = quota.clone();
    let environment = Arc::new(Environment::new(
        Arc::new(random),
        Some(quota_dyn),
        parallelism.unwrap_or_default(),
        Arc::new(|_: &str| {}),
        false,
    ));

    let config = VrpConfigBuilder::new(core_problem.clone())
        .set_environment(environment)
        .set_telemetry_mode(TelemetryMode::OnlyMetrics { track_population: 1 })
        .prebuild()
        .and_then(|b| {
            // C07 (additive, all optional): the other termination criteria EvolutionConfigBuilder accepts
            //   "max_time": secs, "min_cv": [interval_type, value, threshold, is_global], "target_proximity": [[fitness..], threshold]
            let max_time = cfg["max_time"].as_u64().map(|t| t as usize);
            let min_cv = cfg["min_cv"].as_array().map(|a| {
                (
                    a[0].as_str().unwrap_or("sample").to_string(),
                    a[1].as_u64().unwrap_or(1) as usize,
                    a[2].as_f64().unwrap_or(0.),
                    a[3].as_bool().unwrap_or(true),
                )
            });
            let target_proximity = cfg["target_proximity"].as_array().map(|a| {
                (
                    a[0].as_array().map(|f| f.iter().map(|x| x.as_f64().unwrap_or(0.)).collect::<Vec<_>>()).unwrap_or_default(),
                    a[1].as_f64().unwrap_or(0.),
                )
            });
            b.with_max_generations(max_generations)
                .with_max_time(max_time)
                .with_min_cv(min_cv, "min_cv".to_string())
                .with_target_proximity(target_proximity)
                .build()
        });
    let config = match config {
        Ok(c) => c,
        Err(e) => return json!({"error": format!("config: {}", e)}),
    };
    // pure CONSTRUCTION documents (config.construct = number of methods, default 0): the real insertion heuristics run once on
    // the empty solution under the real goal (no ruin, no removal, no search), each result written by the real writer
    let constructed = construct_documents(&core_problem, cfg["construct"].as_u64().unwrap_or(0) as usize);

    // bookkeeping trace: the four homes of a job as the real InsertionContext holds them after every insertion applied by
    // InsertionHeuristic::process ON THIS THREAD (hook in insertions.rs, thread-local observer); at most `trace` states
    let trace_limit = cfg["trace"].as_u64().unwrap_or(0) as usize;
    let trace: Rc<RefCell<Vec<Value>>> = Rc::new(RefCell::new(vec![]));
    let insertions: Rc<RefCell<usize>> = Rc::new(RefCell::new(0));
    {
        let sink = trace.clone();
        let counter = insertions.clone();
        verif_hooks::set_insertion_observer(Some(Box::new(move |ctx: &InsertionContext| {
            *counter.borrow_mut() += 1;
            let mut sink = sink.borrow_mut();
            if sink.len() >= trace_limit {
                return;
            }
            let jid = |job: &vrp_core::models::problem::Job| job.dimens().get_job_id().cloned().unwrap_or_default();
            let sol = &ctx.solution;
            let routes: Vec<Vec<String>> =
                sol.routes.iter().map(|rc| rc.route().tour.jobs().map(|j| jid(j)).collect()).collect();
            // the same routes as ORDERED activity sequences: [job id ("" for start / end), location] per activity, and the
            // vehicle shift that drives each route
            let seq: Vec<Value> = sol
                .routes
                .iter()
                .map(|rc| {
                    let dimens = &rc.route().actor.vehicle.dimens;
                    let acts: Vec<Value> = rc
                        .route()
                        .tour
                        .all_activities()
                        .map(|a| json!([a.retrieve_job().map(|j| jid(&j)).unwrap_or_default(), a.place.location]))
                        .collect();
                    json!({"vehicle": dimens.get_vehicle_id().cloned(), "shift": dimens.get_shift_index().copied(), "acts": acts})
                })
                .collect();
            sink.push(json!({
                "routes": routes,
                "seq": seq,
                "required": sol.required.iter().map(|j| jid(j)).collect::<Vec<_>>(),
                "unassigned": sol.unassigned.keys().map(|j| jid(j)).collect::<Vec<_>>(),
                "ignored": sol.ignored.iter().map(|j| jid(j)).collect::<Vec<_>>(),
            }));
        })));
    }
    let solved = Solver::new(core_problem.clone(), config).solve();
    verif_hooks::set_insertion_observer(None);
    let solution = match solved {
        Ok(s) => s,
        Err(e) => {
            return json!({"error": format!("solve: {}", e), "trace": Value::Array(trace.borrow().clone()),
                          "polls": quota.polls.load(Ordering::SeqCst), "insertions": *insertions.borrow(),
                          "poll_sites": quota.sites.as_ref().map(|s| s.lock().unwrap().clone())})
        }
    };

    let mut buf = BufWriter::new(Vec::new());
    if let Err(e) = write_pragmatic(&core_problem, &solution, PragmaticOutputType::OnlyPragmatic, &mut buf) {
        return json!({"error": format!("write: {}", e)});
    }
    let bytes = buf.into_inner().unwrap_or_default();
    let mut doc: Value = match serde_json::from_slice(&bytes) {
        Ok(v) => v,
        Err(e) => return json!({"error": format!("written solution is not JSON: {}", e)}),
    };
    // telemetry is reported separately (keeps the result small)
    if let Some(obj) = doc.as_object_mut() {
        obj.remove("extras");
    }
    // the core solution's own bookkeeping (what the writer is given): per route the vehicle, shift and the job id of
    // every job activity in tour order; the ids of the unassigned jobs (conditional jobs carry a vehicle id)
    let job_id_of = |job: &vrp_core::models::problem::Job| job.dimens().get_job_id().cloned().unwrap_or_default();
    let routes: Vec<Value> = solution
        .routes
        .iter()
        .map(|r| {
            let dimens = &r.actor.vehicle.dimens;
            let ids: Vec<String> =
                r.tour.all_activities().filter_map(|a| a.retrieve_job()).map(|j| job_id_of(&j)).collect();
            json!({"vehicle": dimens.get_vehicle_id().cloned(), "shift": dimens.get_shift_index().copied(), "jobs": ids})
        })
        .collect();
    let unassigned: Vec<String> = solution.unassigned.iter().map(|(j, _)| job_id_of(j)).collect();
    json!({
        "solution": doc,
        "core": {"routes": routes, "unassigned": unassigned},
        "trace": Value::Array(trace.borrow().clone()),
        "polls": quota.polls.load(Ordering::SeqCst),
        "generations": solution.telemetry.as_ref().map(|t| t.generations),
        "evolution": solution.telemetry.as_ref().map(|t| t.evolution.len()),
        "core_cost": num_out(solution.cost),
        "insertions": *insertions.borrow(),
        "poll_sites": quota.sites.as_ref().map(|s| s.lock().unwrap().clone()),
        "constructed": constructed,
    })
}

/// runs up to `n` insertion-only construction heuristics on the empty solution and writes each result as a pragmatic document
fn construct_documents(core_problem: &Arc<Problem>, n: usize) -> Vec<Value> {
    use vrp_core::construction::heuristics::InsertionContext as ICtx;
    use vrp_core::solver::search::{
        Recreate, RecreateWithBlinks, RecreateWithCheapest, RecreateWithFarthest, RecreateWithGaps,
        RecreateWithNearestNeighbor, RecreateWithRegret, RecreateWithSkipBest,
    };
    use vrp_core::solver::{create_elitism_population, RefinementContext};
    if n == 0 {
        return vec![];
    }
    let random: Arc<dyn Random> = Arc::new(DefaultRandom::new_repeatable());
    let env = Arc::new(Environment::new(random.clone(), None, Parallelism::default(), Arc::new(|_: &str| {}), false));
    let rctx = RefinementContext::new(
        core_problem.clone(),
        Box::new(create_elitism_population(core_problem.goal.clone(), env.clone())),
        TelemetryMode::None,
        env.clone(),
    );
    let methods: Vec<(&str, Box<dyn Recreate>)> = vec![
        ("cheapest", Box::new(RecreateWithCheapest::new(random.clone()))),
        ("regret", Box::new(RecreateWithRegret::new(2, 3, random.clone()))),
        ("farthest", Box::new(RecreateWithFarthest::new(random.clone()))),
        ("nearest", Box::new(RecreateWithNearestNeighbor::new(random.clone()))),
        ("skip_best", Box::new(RecreateWithSkipBest::new(1, 2, random.clone()))),
        ("gaps", Box::new(RecreateWithGaps::new(2, 20, random.clone()))),
        ("blinks", Box::new(RecreateWithBlinks::new_with_defaults(random.clone()))),
    ];
    methods
        .into_iter()
        .take(n)
        .map(|(name, method)| {
            let ctx = method.run(&rctx, ICtx::new(core_problem.clone(), env.clone()));
            let solution: Solution = ctx.into();
            let mut buf = BufWriter::new(Vec::new());
            if let Err(e) = write_pragmatic(core_problem, &solution, PragmaticOutputType::OnlyPragmatic, &mut buf) {
                return json!({"method": name, "error": format!("write: {}", e)});
            }
            let bytes = buf.into_inner().unwrap_or_default();
            match serde_json::from_slice::<Value>(&bytes) {
                Ok(mut doc) => {
                    if let Some(obj) = doc.as_object_mut() {
                        obj.remove("extras");
                    }
                    json!({"method": name, "solution": doc})
                }
                Err(e) => json!({"method": name, "error": format!("not JSON: {}", e)}),
            }
        })
        .collect()
}

fn run_case(case: &Value) -> Value {
    let outer = case["config"]["outer_threads"].as_u64().unwrap_or(1).max(1) as usize;
    let pool = rayon::ThreadPoolBuilder::new().num_threads(outer).build().expect("rayon pool");
    // the case loop catches panics; rayon propagates a panic of the installed closure to the caller
    pool.install(|| solve(case))
}

fn main() {
    vh::main_loop(run_case);
}
