//! C15: PositionInsertionEvaluator::evaluate_all under rayon pools of different sizes vs. a sequential fold and every
//! two-chunk split computed with the same real step (eval_job_insertion_in_route) and reducer (choose_best_result).
use serde_json::{json, Value};
use std::sync::Arc;
use vh::core::*;
use vh::util::*;
use vrp_core::construction::heuristics::*;
use vrp_core::models::problem::*;

static SHIFT: std::sync::atomic::AtomicI64 = std::sync::atomic::AtomicI64::new(0);

/// the last layer is the cost objective: undo the case's `cost_shift` (exact: powers of two)
fn unshift(v: Vec<f64>) -> Vec<Value> {
    let s = SHIFT.load(std::sync::atomic::Ordering::Relaxed) as i32;
    let n = v.len();
    v.into_iter().enumerate().map(|(i, x)| if i + 1 == n { t_out(x * (2.0f64).powi(s)) } else { t_out(x) }).collect()
}

fn cost_of(r: &InsertionResult) -> Value {
    match r {
        InsertionResult::Success(s) => json!(unshift(s.cost.iter().collect())),
        InsertionResult::Failure(_) => Value::Null,
    }
}

/// op "layouts": a whole Solver run of one core problem (many small tours) under each Parallelism::new(pools, threads) layout;
/// returns per layout the tours (job ids in order, vehicle) and the unassigned job ids of the returned solution
fn run_layouts(case: &Value) -> Value {
    use vrp_core::prelude::{Solver, VrpConfigBuilder};
    use vrp_core::rosomaxa::prelude::Environment;
    use vrp_core::rosomaxa::utils::{DefaultRandom, Parallelism};
    let vehicles: Vec<Vehicle> =
        case["vehicles"].as_array().unwrap().iter().enumerate().map(|(k, v)| vehicle_of(v, &format!("v{k}"))).collect();
    let jobs: Vec<Job> = case["jobs"].as_array().unwrap().iter().map(job_of).collect();
    let generations = usize_of(&case["generations"]);
    let mut out = vec![];
    for l in case["layouts"].as_array().unwrap() {
        let world = build_world(case, vehicles.clone(), jobs.clone(), "unassigned+tours+cost");
        let parallelism = if l.is_null() { Parallelism::default() } else { Parallelism::new(usize_of(&l[0]), usize_of(&l[1])) };
        let environment =
            Arc::new(Environment::new(Arc::new(DefaultRandom::default()), None, parallelism, Arc::new(|_: &str| {}), false));
        let config = VrpConfigBuilder::new(world.problem.clone())
            .set_environment(environment)
            .prebuild()
            .and_then(|b| b.with_max_generations(Some(generations)).build());
        let res = match config.and_then(|c| Solver::new(world.problem.clone(), c).solve()) {
            Ok(solution) => {
                let routes: Vec<Value> = solution
                    .routes
                    .iter()
                    .map(|r| {
                        let jobs: Vec<String> = r
                            .tour
                            .all_activities()
                            .filter_map(|a| a.retrieve_job())
                            .map(|j| job_id(&j))
                            .collect();
                        json!({"vehicle": r.actor.vehicle.dimens.get_vehicle_id().cloned(), "jobs": jobs})
                    })
                    .collect();
                let unassigned: Vec<String> = solution.unassigned.iter().map(|(j, _)| job_id(j)).collect();
                json!({"layout": l, "routes": routes, "unassigned": unassigned})
            }
            Err(e) => json!({"layout": l, "error": format!("{e}")}),
        };
        out.push(res);
    }
    json!({"layouts": out})
}

fn run_case(case: &Value) -> Value {
    if case["op"].as_str() == Some("layouts") {
        return run_layouts(case);
    }
    SHIFT.store(if case["cost_shift"].is_null() { 0 } else { i64_of(&case["cost_shift"]) }, std::sync::atomic::Ordering::Relaxed);
    let routes_desc = case["routes"].as_array().unwrap();
    let free_desc = case["free"].as_array().cloned().unwrap_or_default();
    let route_singles: Vec<Vec<Arc<Single>>> = routes_desc
        .iter()
        .map(|o| o["tour"].as_array().unwrap().iter().map(|a| Arc::new(single_of_act(a))).collect())
        .collect();
    let cands: Vec<Job> = case["jobs"].as_array().unwrap().iter().map(|j| Job::Single(Arc::new(single_of(j)))).collect();
    let mut jobs: Vec<Job> = route_singles.iter().flatten().map(|s| Job::Single(s.clone())).collect();
    jobs.extend(cands.iter().cloned());
    let mut vehicles = vec![];
    for (k, o) in routes_desc.iter().enumerate() {
        vehicles.push(vehicle_of(&o["veh"], &format!("r{k}")));
    }
    for (k, v) in free_desc.iter().enumerate() {
        vehicles.push(vehicle_of(v, &format!("f{k}")));
    }
    let world = build_world(case, vehicles, jobs, case["goal"].as_str().unwrap());
    let mut ctx = new_ctx(&world);
    for (k, o) in routes_desc.iter().enumerate() {
        let acts: Vec<(Value, Arc<Single>)> =
            o["tour"].as_array().unwrap().iter().cloned().zip(route_singles[k].iter().cloned()).collect();
        add_route(&mut ctx, k, &acts);
    }
    ctx.solution.required = cands.clone();
    world.problem.goal.accept_solution_state(&mut ctx.solution);

    let goal = &world.problem.goal;
    let selector = BestResultSelector::default();
    let leg = LegSelection::Exhaustive;
    let routes: Vec<&RouteContext> = ctx.solution.routes.iter().chain(ctx.solution.registry.next_route()).collect();
    let job_refs: Vec<&Job> = cands.iter().collect();
    let items: Vec<(&RouteContext, &Job)> = routes.iter().flat_map(|r| job_refs.iter().map(move |j| (*r, *j))).collect();
    let step = |acc: InsertionResult, (route_ctx, job): &(&RouteContext, &Job)| {
        let eval_ctx = EvaluationContext { goal, job, leg_selection: &leg, result_selector: &selector };
        eval_job_insertion_in_route(&ctx, &eval_ctx, route_ctx, InsertionPosition::Any, acc)
    };
    // per item: full evaluation and route-level estimate
    let per_item: Vec<Value> = items
        .iter()
        .map(|it| {
            let full = step(InsertionResult::make_failure(), it);
            let rc: Vec<Value> = unshift(goal.estimate(&MoveContext::route(&ctx.solution, it.0, it.1)).iter().collect());
            json!({"full": cost_of(&full), "rc": rc})
        })
        .collect();
    let fold = |xs: &[(&RouteContext, &Job)]| xs.iter().fold(InsertionResult::make_failure(), |acc, it| step(acc, it));
    let seq = cost_of(&fold(&items));
    let splits: Vec<Value> = (0..=items.len())
        .map(|k| cost_of(&InsertionResult::choose_best_result(fold(&items[..k]), fold(&items[k..]))))
        .collect();
    let evaluator = PositionInsertionEvaluator::default();
    let mut par = vec![];
    for p in case["pools"].as_array().unwrap() {
        let n = usize_of(p);
        let pool = rayon::ThreadPoolBuilder::new().num_threads(n).build().unwrap();
        for _ in 0..usize_of(&case["reps"]) {
            let r = pool.install(|| evaluator.evaluate_all(&ctx, &job_refs, &routes, &leg, &selector));
            par.push(json!({"threads": n, "cost": cost_of(&r)}));
        }
    }
    json!({"items": per_item, "seq": seq, "splits": splits, "par": par, "n_routes": routes.len()})
}

fn main() {
    vh::main_loop(run_case);
}
