//! C15: PositionInsertionEvaluator::evaluate_all under rayon pools of different sizes vs. a sequential fold and every
//! two-chunk split computed with the same real step (eval_job_insertion_in_route) and reducer (choose_best_result).
//! Second batch (Model/Reduce2.v): the routes x jobs grid with the kind of every pair (skip / route-level violation /
//! evaluated) and its failure fields, the real step/reducer under the schedules the model evaluates (chunks of 1, 2, 3 pairs
//! and one chunk per route, left- and right-nested), both branches of evaluate_and_collect_all (pub(crate) in /repo: a twin
//! built from the real step and the real rosomaxa parallel_collect, plus the real function reached through
//! RecreateWithSkipBest and the insertion observer hook), op "choose" (choose_best_result on result pairs) and
//! op "decompose" (real DecomposeSearch around an identity inner search under explicit pool layouts).
use serde_json::{json, Value};
use std::sync::Arc;
use vh::core::*;
use vh::util::*;
use vrp_core::construction::heuristics::*;
use vrp_core::models::problem::*;
use vrp_core::rosomaxa::HeuristicSolution;

static SHIFT: std::sync::atomic::AtomicI64 = std::sync::atomic::AtomicI64::new(0);

/// the last layer is the cost objective: undo the case's `cost_shift` (exact: powers of two)
fn unshift(v: Vec<f64>) -> Vec<Value> {
    let s = SHIFT.load(std::sync::atomic::Ordering::Relaxed) as i32;
    let n = v.len();
    v.into_iter().enumerate().map(|(i, x)| if i + 1 == n { t_out(x * (2.0f64).powi(s)) } else { t_out(x) }).collect()
}

fn cost_of(r: &InsertionResult) -> Value {
    match r {
        InsertionResult::Success(s) => json!(unshift(s.cost.iter().collect())),
        InsertionResult::Failure(_) => Value::Null,
    }
}

/// op "layouts": a whole Solver run of one core problem (many small tours) under each Parallelism::new(pools, threads) layout;
/// returns per layout the tours (job ids in order, vehicle) and the unassigned job ids of the returned solution
fn run_layouts(case: &Value) -> Value {
    use vrp_core::prelude::{Solver, VrpConfigBuilder};
    use vrp_core::rosomaxa::prelude::Environment;
    use vrp_core::rosomaxa::utils::{DefaultRandom, Parallelism};
    let vehicles: Vec<Vehicle> =
        case["vehicles"].as_array().unwrap().iter().enumerate().map(|(k, v)| vehicle_of(v, &format!("v{k}"))).collect();
    let jobs: Vec<Job> = case["jobs"].as_array().unwrap().iter().map(job_of).collect();
    let generations = usize_of(&case["generations"]);
    let mut out = vec![];
    for l in case["layouts"].as_array().unwrap() {
        let world = build_world(case, vehicles.clone(), jobs.clone(), "unassigned+tours+cost");
        let parallelism = if l.is_null() { Parallelism::default() } else { Parallelism::new(usize_of(&l[0]), usize_of(&l[1])) };
        let environment =
            Arc::new(Environment::new(Arc::new(DefaultRandom::default()), None, parallelism, Arc::new(|_: &str| {}), false));
        let config = VrpConfigBuilder::new(world.problem.clone())
            .set_environment(environment)
            .prebuild()
            .and_then(|b| b.with_max_generations(Some(generations)).build());
        let res = match config.and_then(|c| Solver::new(world.problem.clone(), c).solve()) {
            Ok(solution) => {
                let routes: Vec<Value> = solution
                    .routes
                    .iter()
                    .map(|r| {
                        let jobs: Vec<String> = r
                            .tour
                            .all_activities()
                            .filter_map(|a| a.retrieve_job())
                            .map(|j| job_id(&j))
                            .collect();
                        json!({"vehicle": r.actor.vehicle.dimens.get_vehicle_id().cloned(), "jobs": jobs})
                    })
                    .collect();
                let unassigned: Vec<String> = solution.unassigned.iter().map(|(j, _)| job_id(j)).collect();
                json!({"layout": l, "routes": routes, "unassigned": unassigned})
            }
            Err(e) => json!({"layout": l, "error": format!("{e}")}),
        };
        out.push(res);
    }
    json!({"layouts": out})
}


fn fail_of(r: &InsertionResult) -> Value {
    match r {
        InsertionResult::Success(_) => Value::Null,
        InsertionResult::Failure(f) => json!([f.constraint.0, f.stopped, f.job.as_ref().map(job_id)]),
    }
}

/// rosomaxa's public `Random`, deterministic; `weighted` always answers 0 (the first entry: BestResultSelector in
/// ResultSelectorProvider::new_default), so that RecreateWithSkipBest runs with the deterministic selector
struct FirstChoiceRandom;
impl vrp_core::rosomaxa::prelude::Random for FirstChoiceRandom {
    fn uniform_int(&self, min: i32, _max: i32) -> i32 {
        min
    }
    fn uniform_real(&self, min: f64, _max: f64) -> f64 {
        min
    }
    fn is_head_not_tails(&self) -> bool {
        true
    }
    fn is_hit(&self, _probability: f64) -> bool {
        false
    }
    fn weighted(&self, _weights: &[usize]) -> usize {
        0
    }
    fn get_rng(&self) -> vrp_core::rosomaxa::utils::RandomGen {
        vrp_core::rosomaxa::utils::RandomGen::new_repeatable()
    }
}

/// op "choose": InsertionResult::choose_best_result on pairs of results; a result is {"cost":[..]} or {"fail":[code, stopped, job|null]}
fn run_choose(case: &Value) -> Value {
    let tiny = json!({"n": 1, "dur": [0], "dist": [0]});
    let veh = json!({"start": 0, "end": 0, "shift_start": 0, "shift_end": "inf", "cap": 1, "costs": [0, 1, 0, 0, 0]});
    let mk_job = |id: i64| Job::Single(Arc::new(single_of(&json!({"id": id, "places": [{"loc": 0, "svc": 0, "tws": [[0, "inf"]]}], "dem": [0, 0, 0, 0]}))));
    let world = build_world(&tiny, vec![vehicle_of(&veh, "v0")], vec![mk_job(1), mk_job(2)], "cost");
    let ctx = new_ctx(&world);
    let route_ctx = ctx.solution.registry.next_route().next().expect("a free vehicle");
    let mk = |v: &Value, side: i64| -> InsertionResult {
        if !v["cost"].is_null() {
            let cost: Vec<f64> = i64s_of(&v["cost"]).into_iter().map(|x| x as f64).collect();
            InsertionResult::make_success(InsertionCost::new(&cost), mk_job(side), vec![], route_ctx)
        } else {
            let f = v["fail"].as_array().unwrap();
            InsertionResult::make_failure_with_code(
                vrp_core::models::ViolationCode(i64_of(&f[0]) as i32),
                f[1].as_bool().unwrap(),
                if f[2].is_null() { None } else { Some(mk_job(i64_of(&f[2]))) },
            )
        }
    };
    let out: Vec<Value> = case["pairs"]
        .as_array()
        .unwrap()
        .iter()
        .map(|p| {
            let r = InsertionResult::choose_best_result(mk(&p[0], 1), mk(&p[1], 2));
            let side = match &r {
                InsertionResult::Success(s) => Some(job_id(&s.job)),
                _ => None,
            };
            let cost = match &r {
                InsertionResult::Success(s) => json!(s.cost.iter().map(t_out).collect::<Vec<_>>()),
                _ => Value::Null,
            };
            json!({"cost": cost, "fail": fail_of(&r), "side": side})
        })
        .collect();
    json!({"chosen": out})
}

/// the inner search of op "decompose": returns the solution it is given
struct IdentitySearch;
impl vrp_core::rosomaxa::prelude::HeuristicSearchOperator for IdentitySearch {
    type Context = vrp_core::solver::RefinementContext;
    type Objective = vrp_core::models::GoalContext;
    type Solution = InsertionContext;
    fn search(&self, _: &Self::Context, solution: &Self::Solution) -> Self::Solution {
        solution.deep_copy()
    }
}

fn dump_routes(ctx: &InsertionContext) -> Value {
    let routes: Vec<Value> = ctx
        .solution
        .routes
        .iter()
        .map(|r| {
            let jobs: Vec<String> = r.route().tour.all_activities().filter_map(|a| a.retrieve_job()).map(|j| job_id(&j)).collect();
            json!({"vehicle": r.route().actor.vehicle.dimens.get_vehicle_id().cloned(), "jobs": jobs})
        })
        .collect();
    let mut rest: Vec<String> = ctx.solution.unassigned.keys().map(job_id).collect();
    rest.extend(ctx.solution.required.iter().map(job_id));
    rest.extend(ctx.solution.ignored.iter().map(job_id));
    json!({"routes": routes, "unassigned": rest})
}

/// op "decompose": the real DecomposeSearch (create_multiple_insertion_contexts, refine_decomposed, merge_best) around an
/// identity inner search, on a solution with many tours, under explicit pool layouts.  With an identity inner search the
/// result must hold every tour of the input exactly once.
fn run_decompose(case: &Value) -> Value {
    use vrp_core::rosomaxa::evolution::TelemetryMode;
    use vrp_core::rosomaxa::prelude::{Environment, HeuristicSearchOperator};
    use vrp_core::rosomaxa::utils::{DefaultRandom, Parallelism};
    use vrp_core::solver::search::DecomposeSearch;
    use vrp_core::solver::{create_elitism_population, RefinementContext};
    let tours = case["tours"].as_array().unwrap();
    let singles: Vec<Vec<Arc<Single>>> =
        tours.iter().map(|o| o["tour"].as_array().unwrap().iter().map(|a| Arc::new(single_of_act(a))).collect()).collect();
    let extra: Vec<Job> = case["unassigned"].as_array().unwrap().iter().map(|j| Job::Single(Arc::new(single_of(j)))).collect();
    let mut jobs: Vec<Job> = singles.iter().flatten().map(|s| Job::Single(s.clone())).collect();
    jobs.extend(extra.iter().cloned());
    let vehicles: Vec<Vehicle> = tours.iter().enumerate().map(|(k, o)| vehicle_of(&o["veh"], &format!("v{k}"))).collect();
    let world = build_world(case, vehicles, jobs, "unassigned+tours+cost");
    let mut out = vec![];
    for l in case["layouts"].as_array().unwrap() {
        let parallelism = if l.is_null() { Parallelism::default() } else { Parallelism::new(usize_of(&l[0]), usize_of(&l[1])) };
        let env = Arc::new(Environment::new(Arc::new(DefaultRandom::default()), None, parallelism, Arc::new(|_: &str| {}), false));
        let mut ctx = InsertionContext::new_empty(world.problem.clone(), env.clone());
        for (k, o) in tours.iter().enumerate() {
            let acts: Vec<(Value, Arc<Single>)> = o["tour"].as_array().unwrap().iter().cloned().zip(singles[k].iter().cloned()).collect();
            add_route(&mut ctx, k, &acts);
        }
        for j in extra.iter() {
            ctx.solution.unassigned.insert(j.clone(), UnassignmentInfo::Unknown);
        }
        world.problem.goal.accept_solution_state(&mut ctx.solution);
        let rctx = RefinementContext::new(
            world.problem.clone(),
            Box::new(create_elitism_population(world.problem.goal.clone(), env.clone())),
            TelemetryMode::None,
            env.clone(),
        );
        let range = (usize_of(&case["range"][0]), usize_of(&case["range"][1]));
        let op = DecomposeSearch::new(Arc::new(IdentitySearch), range, usize_of(&case["repeat"]), 100_000);
        let before = dump_routes(&ctx);
        let res = op.search(&rctx, &ctx);
        out.push(json!({"layout": l, "before": before, "after": dump_routes(&res)}));
    }
    json!({"decomposed": out})
}

/// candidate of a grid case: a single job, or a Multi job {"id", "multi": [single, ..], "perms"?: [[1, 0], ..]} with an explicit list
/// of allowed orders of its sub-jobs (FixedJobPermutation; without "perms" the given order only)
fn cand_of(v: &Value, perms: Option<Vec<Vec<usize>>>) -> Job {
    if v["multi"].is_null() {
        return Job::Single(Arc::new(single_of(v)));
    }
    let mut b = vrp_core::prelude::MultiBuilder::default().id(&format!("m{}", i64_of(&v["id"])));
    for s in v["multi"].as_array().unwrap().iter().map(single_of) {
        b = b.add_job(s);
    }
    match perms {
        Some(perms) => b.permutation(FixedJobPermutation::new(perms)).build_as_job().unwrap(),
        None => b.build_as_job().unwrap(),
    }
}

fn perms_of(v: &Value) -> Option<Vec<Vec<usize>>> {
    v["perms"].as_array().map(|ps| ps.iter().map(|p| p.as_array().unwrap().iter().map(usize_of).collect()).collect())
}

fn run_case(case: &Value) -> Value {
    match case["op"].as_str() {
        Some("layouts") => return run_layouts(case),
        Some("choose") => return run_choose(case),
        Some("decompose") => return run_decompose(case),
        _ => {}
    }
    SHIFT.store(if case["cost_shift"].is_null() { 0 } else { i64_of(&case["cost_shift"]) }, std::sync::atomic::Ordering::Relaxed);
    let routes_desc = case["routes"].as_array().unwrap();
    let free_desc = case["free"].as_array().cloned().unwrap_or_default();
    let route_singles: Vec<Vec<Arc<Single>>> = routes_desc
        .iter()
        .map(|o| o["tour"].as_array().unwrap().iter().map(|a| Arc::new(single_of_act(a))).collect())
        .collect();
    let cands: Vec<Job> = case["jobs"].as_array().unwrap().iter().map(|j| cand_of(j, perms_of(j))).collect();
    // per Multi candidate with an explicit list of permutations: one sibling job per allowed permutation (that permutation only)
    let siblings: Vec<Vec<Job>> = case["jobs"]
        .as_array()
        .unwrap()
        .iter()
        .map(|j| perms_of(j).map_or(vec![], |ps| ps.into_iter().map(|p| cand_of(j, Some(vec![p]))).collect()))
        .collect();
    let mut jobs: Vec<Job> = route_singles.iter().flatten().map(|s| Job::Single(s.clone())).collect();
    jobs.extend(cands.iter().cloned());
    let mut vehicles = vec![];
    for (k, o) in routes_desc.iter().enumerate() {
        vehicles.push(vehicle_of(&o["veh"], &format!("r{k}")));
    }
    for (k, v) in free_desc.iter().enumerate() {
        vehicles.push(vehicle_of(v, &format!("f{k}")));
    }
    let world = build_world(case, vehicles, jobs, case["goal"].as_str().unwrap());
    let mut ctx = new_ctx(&world);
    for (k, o) in routes_desc.iter().enumerate() {
        let acts: Vec<(Value, Arc<Single>)> =
            o["tour"].as_array().unwrap().iter().cloned().zip(route_singles[k].iter().cloned()).collect();
        add_route(&mut ctx, k, &acts);
    }
    ctx.solution.required = cands.clone();
    // optional: candidates that already sit in `unassigned` with a concrete code (the evaluator's first shortcut)
    let has_codes = case["unassigned_codes"].as_array().map_or(false, |a| !a.is_empty());
    if let Some(list) = case["unassigned_codes"].as_array() {
        for e in list {
            let job = cands[usize_of(&e[0])].clone();
            ctx.solution.unassigned.insert(job, UnassignmentInfo::Simple(vrp_core::models::ViolationCode(i64_of(&e[1]) as i32)));
        }
    }
    world.problem.goal.accept_solution_state(&mut ctx.solution);

    let goal = &world.problem.goal;
    let selector = BestResultSelector::default();
    let leg = LegSelection::Exhaustive;
    let routes: Vec<&RouteContext> = ctx.solution.routes.iter().chain(ctx.solution.registry.next_route()).collect();
    let job_refs: Vec<&Job> = cands.iter().collect();
    let items: Vec<(&RouteContext, &Job)> = routes.iter().flat_map(|r| job_refs.iter().map(move |j| (*r, *j))).collect();
    let step = |acc: InsertionResult, (route_ctx, job): &(&RouteContext, &Job)| {
        let eval_ctx = EvaluationContext { goal, job, leg_selection: &leg, result_selector: &selector };
        eval_job_insertion_in_route(&ctx, &eval_ctx, route_ctx, InsertionPosition::Any, acc)
    };
    // per item: full evaluation, route-level estimate, kind of the pair and the failure fields
    let nj0 = job_refs.len().max(1);
    let per_item: Vec<Value> = items
        .iter()
        .enumerate()
        .map(|(pos, it)| {
            let viol = goal.evaluate(&MoveContext::route(&ctx.solution, it.0, it.1));
            let full = step(InsertionResult::make_failure(), it);
            let rc: Vec<Value> = unshift(goal.estimate(&MoveContext::route(&ctx.solution, it.0, it.1)).iter().collect());
            let skipped = matches!(&full, InsertionResult::Failure(f) if f.job.is_none());
            let kind = if skipped { "skip" } else if viol.is_some() { "viol" } else { "eval" };
            // the same pair evaluated with an accumulator that holds a success strictly worse than the pair's own result (last cost
            // component + 1): best_known_cost = Some(worse); and, for a Multi candidate, every allowed permutation on its own
            let probe = match &full {
                InsertionResult::Success(s) => {
                    let mut alt: Vec<f64> = s.cost.iter().collect();
                    if let Some(l) = alt.last_mut() {
                        *l += 1.0;
                    }
                    let acc = InsertionResult::make_success(InsertionCost::new(&alt), it.1.clone(), vec![], it.0);
                    let r = step(acc, it);
                    json!({"alt": unshift(alt), "cost": cost_of(&r)})
                }
                _ => Value::Null,
            };
            let perm_res: Vec<Value> = siblings[pos % nj0]
                .iter()
                .map(|sib| {
                    let r = step(InsertionResult::make_failure(), &(it.0, sib));
                    json!({"cost": cost_of(&r), "fail": fail_of(&r)})
                })
                .collect();
            json!({"full": cost_of(&full), "rc": rc, "kind": kind, "fail": fail_of(&full), "probe": probe, "perm_res": perm_res})
        })
        .collect();
    let fold = |xs: &[(&RouteContext, &Job)]| xs.iter().fold(InsertionResult::make_failure(), |acc, it| step(acc, it));
    let seq = cost_of(&fold(&items));
    let splits: Vec<Value> = (0..=items.len())
        .map(|k| cost_of(&InsertionResult::choose_best_result(fold(&items[..k]), fold(&items[k..]))))
        .collect();
    // the schedules Model/Reduce2.v :: run_grid evaluates: leaves of k pairs, reduced left- or right-nested
    let reduce_chunks = |k: usize, left: bool| -> InsertionResult {
        let mut leaves: Vec<InsertionResult> = items.chunks(k.max(1)).map(|c| fold(c)).collect();
        if leaves.is_empty() {
            return fold(&[]);
        }
        if left {
            let mut it = leaves.into_iter();
            let first = it.next().unwrap();
            it.fold(first, InsertionResult::choose_best_result)
        } else {
            let mut acc = leaves.pop().unwrap();
            while let Some(l) = leaves.pop() {
                acc = InsertionResult::choose_best_result(l, acc);
            }
            acc
        }
    };
    let nj = job_refs.len();
    let trees: Vec<Value> = [(items.len().max(1), true), (1, true), (1, false), (2, true), (3, false), (nj.max(1), true)]
        .iter()
        .map(|(k, left)| {
            let r = reduce_chunks(*k, *left);
            json!({"cost": cost_of(&r), "fail": fail_of(&r)})
        })
        .collect();
    // twin of the pub(crate) evaluate_and_collect_all: both branches, real step + real rosomaxa::utils::parallel_collect
    let dump_vec = |v: &Vec<InsertionResult>| -> Vec<Value> { v.iter().map(|r| json!({"cost": cost_of(r), "fail": fail_of(r)})).collect() };
    let reduce_vec = |v: Vec<InsertionResult>| -> Value {
        let r = v.into_iter().fold(InsertionResult::make_failure(), InsertionResult::choose_best_result);
        json!({"cost": cost_of(&r), "fail": fail_of(&r)})
    };
    let mut collected = vec![];
    for n in [1usize, 3] {
        let pool = rayon::ThreadPoolBuilder::new().num_threads(n).build().unwrap();
        let by_route: Vec<InsertionResult> = pool.install(|| {
            vrp_core::rosomaxa::utils::parallel_collect(&routes, |route_ctx| {
                job_refs.iter().fold(InsertionResult::make_failure(), |acc, job| step(acc, &(*route_ctx, *job)))
            })
        });
        let by_job: Vec<InsertionResult> = pool.install(|| {
            vrp_core::rosomaxa::utils::parallel_collect(&job_refs, |job| {
                routes.iter().fold(InsertionResult::make_failure(), |acc, route_ctx| step(acc, &(*route_ctx, *job)))
            })
        });
        collected.push(json!({"threads": n, "by_route": dump_vec(&by_route), "by_job": dump_vec(&by_job),
                              "red_route": reduce_vec(by_route), "red_job": reduce_vec(by_job)}));
    }
    let evaluator = PositionInsertionEvaluator::default();
    let mut par = vec![];
    for p in case["pools"].as_array().unwrap() {
        let n = usize_of(p);
        let pool = rayon::ThreadPoolBuilder::new().num_threads(n).build().unwrap();
        for _ in 0..usize_of(&case["reps"]) {
            let r = pool.install(|| evaluator.evaluate_all(&ctx, &job_refs, &routes, &leg, &selector));
            par.push(json!({"threads": n, "cost": cost_of(&r), "fail": fail_of(&r)}));
        }
    }
    // the REAL evaluate_and_collect_all, reached through the public RecreateWithSkipBest (skip index fixed to 2, deterministic
    // selector) and the insertion observer hook: which candidate goes into which tour at the first insertion
    // (not with two or more free vehicles: the registry offers a RANDOM one of equal-typed free vehicles per call)
    let skip_best = if has_codes || free_desc.len() > 1 || case["no_skip_best"].as_bool().unwrap_or(false) {
        Value::Null
    } else {
        use std::cell::RefCell;
        use std::rc::Rc;
        use vrp_core::rosomaxa::evolution::TelemetryMode;
        use vrp_core::solver::search::{Recreate, RecreateWithSkipBest};
        use vrp_core::solver::{create_elitism_population, RefinementContext};
        let cand_ids: Vec<String> = cands.iter().map(job_id).collect();
        let seen: Rc<RefCell<Option<Value>>> = Rc::new(RefCell::new(None));
        let seen2 = seen.clone();
        let ids2 = cand_ids.clone();
        verif_hooks::set_insertion_observer(Some(Box::new(move |c: &InsertionContext| {
            if seen2.borrow().is_some() {
                return;
            }
            for r in c.solution.routes.iter() {
                for a in r.route().tour.all_activities() {
                    if let Some(j) = a.retrieve_job() {
                        let id = job_id(&j);
                        if ids2.contains(&id) {
                            *seen2.borrow_mut() = Some(json!({"job": id, "vehicle": r.route().actor.vehicle.dimens.get_vehicle_id().cloned()}));
                            return;
                        }
                    }
                }
            }
        })));
        let rctx = RefinementContext::new(
            world.problem.clone(),
            Box::new(create_elitism_population(world.problem.goal.clone(), ctx.environment.clone())),
            TelemetryMode::None,
            ctx.environment.clone(),
        );
        let recreate = RecreateWithSkipBest::new(2, 2, Arc::new(FirstChoiceRandom));
        let _ = recreate.run(&rctx, ctx.deep_copy());
        verif_hooks::set_insertion_observer(None);
        let first = seen.borrow().clone();
        json!({"first": first})
    };
    let route_ids: Vec<Value> = routes.iter().map(|r| json!(r.route().actor.vehicle.dimens.get_vehicle_id().cloned())).collect();
    json!({"items": per_item, "seq": seq, "splits": splits, "par": par, "n_routes": routes.len(), "n_jobs": nj,
           "n_solution_routes": ctx.solution.routes.len(), "trees": trees, "collected": collected, "skip_best": skip_best,
           "route_ids": route_ids})
}

fn main() {
    vh::main_loop(run_case);
}
