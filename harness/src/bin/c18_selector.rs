//! C18 sub-stream `c18_selector`: the real DynamicSelective (rosomaxa/src/hyper/dynamic_selective.rs) driven through its public
//! API (new / search / search_many / Display telemetry) over a scripted HeuristicContext, with every source of randomness made
//! reproducible: the Random of the Environment hands out the repeatable RandomGen (thread-local SmallRng seeded with 0), and the
//! whole run happens on ONE fresh thread (a one-thread rayon pool, so the parallel map of search_many runs in order on that
//! thread).  The values the sampler produced inside DynamicSelective cannot be observed from outside, so a SHADOW replays the
//! random stream on a second fresh thread: real SlotMachine objects with a recording sampler (delegating to the public
//! DefaultDistributionSampler::sample_gamma / sample_normal), real random_argmax, updated with the rewards the real run reported.
//! The shadow's recorded draws are the oracle arguments of the Coq model; the real run's choices, rewards, transitions and final
//! parameters are what the model is compared with.
use rosomaxa::algorithms::rl::{SlotAction, SlotFeedback, SlotMachine};
use rosomaxa::hyper::{DynamicSelective, HeuristicDiversifyOperators, HeuristicSearchOperators};
use rosomaxa::prelude::*;
use rosomaxa::utils::{random_argmax, DefaultDistributionSampler, DistributionSampler, RandomGen, Timer};
use serde_json::{json, Value};
use std::any::Any;
use std::cmp::Ordering;
use std::collections::HashMap;
use std::panic::{catch_unwind, AssertUnwindSafe};
use std::sync::{Arc, Mutex};
use vh::util::*;

// ------------------------------------------------------------------ scripted randomness
/// Only the RNG handle is provided (repeatable, thread-local); every other method is unused by SearchAgent::search / update.
struct ScriptRandom;
impl Random for ScriptRandom {
    fn uniform_int(&self, _: i32, _: i32) -> i32 {
        panic!("uniform_int is not expected to be called")
    }
    fn uniform_real(&self, _: Float, _: Float) -> Float {
        panic!("uniform_real is not expected to be called")
    }
    fn is_head_not_tails(&self) -> bool {
        panic!("is_head_not_tails is not expected to be called")
    }
    fn is_hit(&self, _: Float) -> bool {
        panic!("is_hit is not expected to be called")
    }
    fn weighted(&self, _: &[usize]) -> usize {
        panic!("weighted is not expected to be called")
    }
    fn get_rng(&self) -> RandomGen {
        RandomGen::new_repeatable()
    }
}

// ------------------------------------------------------------------ scripted heuristic context
#[derive(Clone)]
struct Sol {
    fit: Vec<f64>,
    tag: usize,
}
impl HeuristicSolution for Sol {
    fn fitness(&self) -> impl Iterator<Item = Float> {
        self.fit.iter().cloned()
    }
    fn deep_copy(&self) -> Self {
        self.clone()
    }
}

/// lexicographic order on the fitness vector (smaller is better)
struct Lex;
impl HeuristicObjective for Lex {
    type Solution = Sol;
    fn total_order(&self, a: &Sol, b: &Sol) -> Ordering {
        for (x, y) in a.fit.iter().zip(b.fit.iter()) {
            match x.partial_cmp(y) {
                Some(Ordering::Equal) | None => continue,
                Some(o) => return o,
            }
        }
        Ordering::Equal
    }
}

struct Ctx {
    objective: Lex,
    best: Option<Sol>,
    stats: HeuristicStatistics,
    env: Environment,
    state: HashMap<usize, Box<dyn Any + Send + Sync>>,
}

impl HeuristicContext for Ctx {
    type Objective = Lex;
    type Solution = Sol;
    fn objective(&self) -> &Lex {
        &self.objective
    }
    fn selected(&self) -> Box<dyn Iterator<Item = &'_ Sol> + '_> {
        Box::new(self.best.iter())
    }
    fn ranked(&self) -> Box<dyn Iterator<Item = &'_ Sol> + '_> {
        Box::new(self.best.iter())
    }
    fn statistics(&self) -> &HeuristicStatistics {
        &self.stats
    }
    fn selection_phase(&self) -> SelectionPhase {
        SelectionPhase::Exploration
    }
    fn environment(&self) -> &Environment {
        &self.env
    }
    fn on_initial(&mut self, _: Sol, _: Timer) {}
    fn on_generation(&mut self, _: Vec<Sol>, _: Float, _: Timer) {}
    fn on_result(self) -> HeuristicResult<Lex, Sol> {
        Err("not used".into())
    }
}

impl Stateful for Ctx {
    type Key = usize;
    fn set_state<T: 'static + Send + Sync>(&mut self, key: usize, state: T) {
        self.state.insert(key, Box::new(state));
    }
    fn get_state<T: 'static + Send + Sync>(&self, key: &usize) -> Option<&T> {
        self.state.get(key).and_then(|v| v.downcast_ref::<T>())
    }
    fn state_mut<T: 'static + Send + Sync, F: Fn() -> T>(&mut self, key: usize, inserter: F) -> &mut T {
        self.state.entry(key).or_insert_with(|| Box::new(inserter())).downcast_mut::<T>().unwrap()
    }
}

/// every operator answers with the outcome scripted for the solution it is handed (looked up by the solution's tag)
struct ScriptedOp {
    outcomes: Arc<Mutex<HashMap<usize, (Vec<f64>, u64)>>>,
    calls: Arc<Mutex<Vec<usize>>>,
    me: usize,
}
impl HeuristicSearchOperator for ScriptedOp {
    type Context = Ctx;
    type Objective = Lex;
    type Solution = Sol;
    fn search(&self, _: &Ctx, s: &Sol) -> Sol {
        let (fit, ms) = self.outcomes.lock().unwrap().get(&s.tag).cloned().expect("scripted outcome");
        self.calls.lock().unwrap().push(self.me);
        if ms > 0 {
            std::thread::sleep(std::time::Duration::from_millis(ms));
        }
        Sol { fit, tag: s.tag }
    }
}

fn parse_f(s: &str) -> f64 {
    match s {
        "inf" => f64::INFINITY,
        "-inf" => f64::NEG_INFINITY,
        "NaN" => f64::NAN,
        _ => s.parse::<f64>().expect("float in telemetry"),
    }
}

fn telemetry(ds: &DynamicSelective<Ctx, Lex, Sol>) -> (Vec<Value>, Vec<Value>) {
    let text = format!("{ds}");
    let mut search = vec![];
    let mut heur = vec![];
    let mut mode = 0;
    for line in text.lines() {
        if line.starts_with("name,generation") {
            mode = 1;
            continue;
        }
        if line.starts_with("generation,state") {
            mode = 2;
            continue;
        }
        if line.ends_with(':') || line == "TELEMETRY" {
            continue;
        }
        let f: Vec<&str> = line.split(',').collect();
        if mode == 1 && f.len() == 6 {
            search.push(json!({"name": f[0], "generation": f[1].parse::<u64>().unwrap(), "reward": bits_of(parse_f(f[2])),
                               "from": f[3], "to": f[4], "duration": f[5].parse::<u64>().unwrap()}));
        }
        if mode == 2 && f.len() == 8 {
            heur.push(json!({"generation": f[0].parse::<u64>().unwrap(), "state": f[1], "name": f[2],
                             "alpha": bits_of(parse_f(f[3])), "beta": bits_of(parse_f(f[4])), "mu": bits_of(parse_f(f[5])),
                             "v": bits_of(parse_f(f[6])), "n": f[7].parse::<u64>().unwrap()}));
        }
    }
    (search, heur)
}

fn opt_fit(v: &Value) -> Option<Vec<f64>> {
    if v.is_null() {
        None
    } else {
        Some(f64s_of(v))
    }
}

fn panic_msg(e: Box<dyn Any + Send>) -> String {
    e.downcast_ref::<String>().cloned().or_else(|| e.downcast_ref::<&str>().map(|s| s.to_string())).unwrap_or_default()
}

/// runs `f` on a fresh thread that is the only worker of its own rayon pool (fresh thread-local repeatable RNG)
fn on_fresh_thread<R: Send, F: FnOnce() -> R + Send>(f: F) -> R {
    let pool = rayon::ThreadPoolBuilder::new().num_threads(1).build().expect("pool");
    pool.install(f)
}

// ------------------------------------------------------------------ the real run
fn real_run(case: &Value) -> Value {
    let nops = usize_of(&case["nops"]);
    let outcomes = Arc::new(Mutex::new(HashMap::new()));
    let calls = Arc::new(Mutex::new(vec![]));
    let env = Environment { random: Arc::new(ScriptRandom), is_experimental: true, ..Environment::default() };
    let mut ctx = Ctx { objective: Lex, best: None, stats: HeuristicStatistics::default(), env, state: HashMap::new() };
    let ops: HeuristicSearchOperators<Ctx, Lex, Sol> = (0..nops)
        .map(|k| (Arc::new(ScriptedOp { outcomes: outcomes.clone(), calls: calls.clone(), me: k }) as Arc<_>, format!("op{k}"), 1.))
        .collect();
    let div: HeuristicDiversifyOperators<Ctx, Lex, Sol> = vec![];
    let mut ds = DynamicSelective::new(ops, div, &ctx.env);
    let mut panic_at = Value::Null;
    let mut tag = 0usize;
    for (k, round) in case["rounds"].as_array().unwrap().iter().enumerate() {
        ctx.best = opt_fit(&round["best"]).map(|fit| Sol { fit, tag: usize::MAX });
        ctx.stats.generation = k;
        ctx.stats.improvement_1000_ratio = f64_of(&round["ratio"]);
        let mut inits = vec![];
        for job in round["jobs"].as_array().unwrap() {
            outcomes.lock().unwrap().insert(tag, (f64s_of(&job["new"]), job["sleep_ms"].as_u64().unwrap_or(0)));
            inits.push(Sol { fit: f64s_of(&job["init"]), tag });
            tag += 1;
        }
        let many = round["many"].as_bool().unwrap_or(false);
        let r = catch_unwind(AssertUnwindSafe(|| {
            let out = if many { ds.search_many(&ctx, inits.iter().collect()) } else { ds.search(&ctx, &inits[0]) };
            // the solutions come back in the order of the solutions handed in
            out.iter().map(|s| s.tag).collect::<Vec<_>>()
        }));
        match r {
            Ok(tags) => {
                let want: Vec<usize> = inits.iter().map(|s| s.tag).collect();
                if tags != want {
                    panic_at = json!({"round": k, "msg": format!("returned solutions {tags:?} for {want:?}")});
                    break;
                }
            }
            Err(e) => {
                panic_at = json!({"round": k, "msg": panic_msg(e)});
                break;
            }
        }
    }
    let (search, heur) = telemetry(&ds);
    let calls = calls.lock().unwrap().clone();
    json!({"search": search, "params": heur, "panic_at": panic_at, "calls": calls})
}

// ------------------------------------------------------------------ the shadow
#[derive(Clone)]
struct RecSampler {
    random: Arc<dyn Random>,
    log: Arc<Mutex<Vec<[f64; 3]>>>,
}
impl DistributionSampler for RecSampler {
    fn gamma(&self, shape: Float, scale: Float) -> Float {
        let g = DefaultDistributionSampler::sample_gamma(shape, scale, self.random.as_ref());
        self.log.lock().unwrap().push([shape, scale, g]);
        g
    }
    fn normal(&self, mean: Float, std_dev: Float) -> Float {
        let x = DefaultDistributionSampler::sample_normal(mean, std_dev, self.random.as_ref());
        self.log.lock().unwrap().push([mean, std_dev, x]);
        x
    }
}
#[derive(Clone)]
struct NoAction;
struct Fb(f64);
impl SlotFeedback for Fb {
    fn reward(&self) -> Float {
        self.0
    }
}
impl SlotAction for NoAction {
    type Context = f64;
    type Feedback = Fb;
    fn take(&self, context: Self::Context) -> Self::Feedback {
        Fb(context)
    }
}

fn shadow_run(case: &Value, real: &Value) -> Value {
    let nops = usize_of(&case["nops"]);
    let random: Arc<dyn Random> = Arc::new(ScriptRandom);
    let log = Arc::new(Mutex::new(vec![]));
    let sampler = RecSampler { random: random.clone(), log: log.clone() };
    let mk = || (0..nops).map(|_| SlotMachine::new(1., NoAction, sampler.clone())).collect::<Vec<_>>();
    let mut rows: HashMap<String, Vec<SlotMachine<NoAction, RecSampler>>> = HashMap::new();
    rows.insert("best".to_string(), mk());
    rows.insert("diverse".to_string(), mk());
    let search = real["search"].as_array().unwrap();
    let mut jobs_out = vec![];
    let mut t = 0usize;
    'outer: for round in case["rounds"].as_array().unwrap() {
        let njobs = round["jobs"].as_array().unwrap().len();
        if t + njobs > search.len() {
            break;
        }
        // the searches of the round: all against the state the round starts with
        for j in 0..njobs {
            let from = search[t + j]["from"].as_str().unwrap();
            let row = match rows.get(from) {
                Some(r) => r,
                None => break 'outer,
            };
            log.lock().unwrap().clear();
            let idx = random_argmax(row.iter().map(|slot| slot.sample()), random.as_ref());
            let l = log.lock().unwrap().clone();
            let slots: Vec<Value> = l
                .chunks(2)
                .filter(|c| c.len() == 2)
                .map(|c| json!([bits_of(c[0][0]), bits_of(c[0][1]), bits_of(c[0][2]), bits_of(c[1][0]), bits_of(c[1][1]), bits_of(c[1][2])]))
                .collect();
            let xs: Vec<u64> = l.chunks(2).filter(|c| c.len() == 2).map(|c| c[1][2].to_bits()).collect();
            let tie = (0..xs.len()).any(|a| (0..a).any(|b| xs[a] == xs[b]));
            jobs_out.push(json!({"slots": slots, "idx": idx.map(|i| i as i64).unwrap_or(-1), "tie": tie, "calls": l.len()}));
        }
        // the updates of the round, in order, with the rewards and the choices of the real run
        for j in 0..njobs {
            let s = &search[t + j];
            let from = s["from"].as_str().unwrap();
            let idx = s["name"].as_str().unwrap().strip_prefix("op").and_then(|x| x.parse::<usize>().ok());
            if let (Some(row), Some(idx)) = (rows.get_mut(from), idx) {
                if idx < row.len() {
                    let fb = row[idx].play(f64_of(&s["reward"]));
                    row[idx].update(&fb);
                }
            }
        }
        t += njobs;
    }
    let params = |name: &str| -> Vec<Value> {
        rows[name]
            .iter()
            .map(|m| {
                let (alpha, beta, mu, v, n) = m.get_params();
                json!([bits_of(alpha), bits_of(beta), bits_of(mu), bits_of(v), n])
            })
            .collect()
    };
    json!({"jobs": jobs_out, "best": params("best"), "diverse": params("diverse"), "replayed": t})
}

fn op_selector(case: &Value) -> Value {
    let real = on_fresh_thread(|| real_run(case));
    let shadow = on_fresh_thread(|| match catch_unwind(AssertUnwindSafe(|| shadow_run(case, &real))) {
        Ok(v) => v,
        Err(e) => json!({"panic": panic_msg(e)}),
    });
    let mut out = real;
    out["shadow"] = shadow;
    out
}

/// RemedianUsize alone (public API): approx_median after every observation
fn op_remedian(case: &Value) -> Value {
    use rosomaxa::algorithms::math::RemedianUsize;
    let base = usize_of(&case["base"]);
    let exponent = usize_of(&case["exponent"]);
    let mut r = RemedianUsize::new(base, exponent, |a, b| a.cmp(b));
    let mut out = vec![];
    for v in i64s_of(&case["values"]) {
        r.add_observation(v as usize);
        out.push(json!(r.approx_median().map(|m| m as i64).unwrap_or(-1)));
    }
    json!({"medians": out})
}

pub fn run_case(case: &Value) -> Value {
    match case["op"].as_str().unwrap() {
        "selector" => op_selector(case),
        "remedian" => op_remedian(case),
        _ => panic!("unknown op"),
    }
}

fn main() {
    vh::main_loop(run_case);
}
