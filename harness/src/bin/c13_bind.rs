//! C13 (sub-stream c13_bind): do capacity and time windows of a problem READ FROM A SCIENTIFIC FILE bind as the file says?
//! The real read_solomon / read_lilim / read_tsplib, then the real constraints of the problem's own goal
//! (TransportFeature time windows + CapacityFeature, created by the reader):
//!   op "extend": a base route given by job ids is built in a RouteContext (tour.insert_last + accept_route_state of
//!                the problem's goal); the candidate (a single job, or a Li&Lim request = Multi job) is evaluated at the
//!                END of the route with the real eval_job_insertion_in_route (InsertionPosition::Last, exhaustive legs).
//!   op "solve" : a short run of the real Solver on the problem; the routes of the best solution are returned.
use serde_json::{json, Value};
use std::collections::HashMap;
use std::sync::Arc;
use vrp_core::construction::heuristics::*;
use vrp_core::models::common::*;
use vrp_core::models::problem::*;
use vrp_core::models::solution::Activity;
use vrp_core::models::Problem;
use vrp_core::prelude::*;
use vrp_core::rosomaxa::utils::{DefaultRandom, Environment, Parallelism};
use vrp_core::solver::{Solver, VrpConfigBuilder};
use vrp_scientific::lilim::LilimProblem;
use vrp_scientific::solomon::SolomonProblem;
use vrp_scientific::tsplib::TsplibProblem;

fn read_problem(fmt: &str, text: &str, rounded: bool) -> Result<Problem, GenericError> {
    match fmt {
        "solomon" => text.to_string().read_solomon(rounded),
        "lilim" => text.to_string().read_lilim(rounded),
        "tsplib" => text.to_string().read_tsplib(rounded),
        _ => panic!("unknown fmt"),
    }
}

fn num(x: f64) -> Value {
    if x == f64::MAX {
        json!("max")
    } else if x.is_finite() && x.fract() == 0. && x.abs() < 9007199254740992. {
        json!(x as i64)
    } else {
        json!(format!("b{}", x.to_bits()))
    }
}

/// all singles of the problem by id: plain jobs and the sub-jobs of multi jobs
fn singles_by_id(problem: &Problem) -> HashMap<String, Arc<Single>> {
    let mut map = HashMap::new();
    for job in problem.jobs.all().iter() {
        match job {
            Job::Single(s) => {
                if let Some(id) = s.dimens.get_job_id() {
                    map.entry(id.clone()).or_insert_with(|| s.clone());
                }
            }
            Job::Multi(m) => {
                for s in m.jobs.iter() {
                    if let Some(id) = s.dimens.get_job_id() {
                        map.entry(id.clone()).or_insert_with(|| s.clone());
                    }
                }
            }
        }
    }
    map
}

fn activity_of(single: &Arc<Single>) -> Activity {
    let place = &single.places[0];
    Activity {
        place: vrp_core::models::solution::Place {
            idx: 0,
            location: place.location.unwrap(),
            duration: place.duration,
            time: place.times.first().and_then(|span| span.as_time_window()).unwrap(),
        },
        schedule: Schedule::new(0.0, 0.0),
        job: Some(single.clone()),
        commute: None,
    }
}

fn environment() -> Arc<Environment> {
    Arc::new(Environment {
        random: Arc::new(DefaultRandom::new_repeatable()),
        parallelism: Parallelism::new_with_cpus(1),
        logger: Arc::new(|_: &str| {}),
        ..Environment::default()
    })
}

fn op_extend(case: &Value, problem: Arc<Problem>) -> Value {
    let ids = singles_by_id(&problem);
    let mut ctx = InsertionContext::new_empty(problem.clone(), environment());
    let actor = problem.fleet.actors[0].clone();
    let mut route_ctx = ctx.solution.registry.get_route(&actor).expect("actor available");
    for id in case["base"].as_array().unwrap() {
        let single = ids.get(id.as_str().unwrap()).expect("harness: unknown job id in base route");
        route_ctx.route_mut().tour.insert_last(activity_of(single));
    }
    problem.goal.accept_route_state(&mut route_ctx);
    let schedule: Vec<Value> = route_ctx
        .route()
        .tour
        .all_activities()
        .map(|a| json!([num(a.schedule.arrival), num(a.schedule.departure)]))
        .collect();
    ctx.solution.routes.push(route_ctx);
    let route_ctx = &ctx.solution.routes[0];

    // the candidate: a job id of the problem (a Li&Lim request is the multi job with that id)
    let cand_id = case["cand"].as_str().unwrap();
    let cand: Job = problem
        .jobs
        .all()
        .iter()
        .find(|j| j.dimens().get_job_id().map(|s| s.as_str()) == Some(cand_id))
        .cloned()
        .expect("harness: unknown candidate job id");
    let selector = BestResultSelector::default();
    let eval_ctx = EvaluationContext {
        goal: &problem.goal,
        job: &cand,
        leg_selection: &LegSelection::Exhaustive,
        result_selector: &selector,
    };
    let result =
        eval_job_insertion_in_route(&ctx, &eval_ctx, route_ctx, InsertionPosition::Last, InsertionResult::make_failure());
    match result {
        InsertionResult::Success(s) => {
            let acts: Vec<Value> = s
                .activities
                .iter()
                .map(|(a, idx)| json!([a.job.as_ref().and_then(|s| s.dimens.get_job_id().cloned()), idx]))
                .collect();
            json!({"status": "ok", "accepted": true, "acts": acts, "schedule": schedule})
        }
        InsertionResult::Failure(f) => {
            json!({"status": "ok", "accepted": false, "code": f.constraint.0, "stopped": f.stopped, "schedule": schedule})
        }
    }
}

fn op_solve(case: &Value, problem: Arc<Problem>) -> Value {
    let generations = case["generations"].as_u64().unwrap_or(10) as usize;
    let solution = VrpConfigBuilder::new(problem.clone())
        .set_environment(environment())
        .prebuild()
        .expect("prebuild")
        .with_max_generations(Some(generations))
        .build()
        .map(|config| Solver::new(problem.clone(), config))
        .expect("solver")
        .solve();
    let solution = match solution {
        Ok(s) => s,
        Err(e) => return json!({"status": "not-solved", "err": e.to_string()}),
    };
    let routes: Vec<Vec<String>> = solution
        .routes
        .iter()
        .map(|r| {
            r.tour
                .all_activities()
                .filter_map(|a| a.job.as_ref())
                .map(|s| s.dimens.get_job_id().cloned().unwrap_or_default())
                .collect()
        })
        .collect();
    let schedules: Vec<Vec<Value>> = solution
        .routes
        .iter()
        .map(|r| r.tour.all_activities().map(|a| json!([num(a.schedule.arrival), num(a.schedule.departure)])).collect())
        .collect();
    let mut unassigned: Vec<String> =
        solution.unassigned.iter().map(|(j, _)| j.dimens().get_job_id().cloned().unwrap_or_default()).collect();
    unassigned.sort();
    json!({"status": "ok", "routes": routes, "schedules": schedules, "unassigned": unassigned,
           "vehicles": problem.fleet.vehicles.len()})
}

pub fn run_case(case: &Value) -> Value {
    let fmt = case["fmt"].as_str().unwrap();
    let text = case["text"].as_str().unwrap();
    let rounded = case["rounded"].as_bool().unwrap_or(true);
    let problem = match read_problem(fmt, text, rounded) {
        Ok(p) => Arc::new(p),
        Err(e) => return json!({"status": "err", "err": e.to_string()}),
    };
    match case["op"].as_str().unwrap() {
        "extend" => op_extend(case, problem),
        "solve" => op_solve(case, problem),
        _ => panic!("unknown op"),
    }
}

fn main() {
    vh::main_loop(run_case);
}
