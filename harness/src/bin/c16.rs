//! C16: routing-cost providers on the real code.
//! ops: core (create_matrix_transport_cost[_with_fallback] + TransportCost queries), simple (SimpleTransportCost),
//!      prag ((problem json, matrices json).read_pragmatic() -> problem.transport / fleet profiles),
//!      approx (coordinate problem: create_approx_matrices + read_pragmatic), sci (scientific CoordIndex::create_transport).
//! Values travel as f64 bit patterns (decimal strings); inputs are exact rationals [num, den] (den a power of two).
use serde_json::{json, Value};
use std::panic::{catch_unwind, AssertUnwindSafe};
use std::sync::Arc;
use vh::util::*;
use vrp_core::models::common::{Dimensions, Location, Profile, TimeInterval, TimeWindow};
use vrp_core::models::problem::*;
use vrp_core::models::solution::{Route, Tour};
use vrp_core::models::Problem;
use vrp_pragmatic::format::problem::{create_approx_matrices, deserialize_problem, PragmaticProblem};
use vrp_pragmatic::format::CoordIndexExtraProperty;
use vrp_pragmatic::format::Location as ApiLocation;

fn q_of(n: &Value, d: &Value) -> f64 {
    i64_of(n) as f64 / i64_of(d) as f64
}

fn zero_costs() -> Costs {
    Costs { fixed: 0., per_distance: 0., per_driving_time: 0., per_waiting_time: 0., per_service_time: 0. }
}

fn route_for(index: usize, scale: f64) -> Route {
    let vehicle = Arc::new(Vehicle {
        profile: Profile { index, scale },
        costs: zero_costs(),
        dimens: Dimensions::default(),
        details: vec![],
    });
    let driver = Arc::new(Driver { costs: zero_costs(), dimens: Dimensions::default(), details: vec![] });
    let actor = Arc::new(Actor {
        vehicle,
        driver,
        detail: ActorDetail {
            start: Some(VehiclePlace { location: 0, time: TimeInterval { earliest: Some(0.), latest: None } }),
            end: None,
            time: TimeWindow::max(),
        },
    });
    let tour = Tour::new(&actor);
    Route { actor, tour }
}

fn guarded(f: impl FnOnce() -> f64) -> Value {
    match catch_unwind(AssertUnwindSafe(f)) {
        Ok(x) => bits_of(x),
        Err(_) => Value::String("panic".to_string()),
    }
}

struct TestFallback;
impl TransportFallback for TestFallback {
    fn duration(&self, _: &Profile, from: Location, to: Location) -> f64 {
        (from * 1000 + to + 7) as f64
    }
    fn distance(&self, _: &Profile, from: Location, to: Location) -> f64 {
        (from * 1000 + to + 9) as f64
    }
}

fn tt(kind: i64, t: f64) -> TravelTime {
    if kind == 0 {
        TravelTime::Departure(t)
    } else {
        TravelTime::Arrival(t)
    }
}

fn op_core(case: &Value) -> Value {
    let mats: Vec<MatrixData> = case["mats"]
        .as_array()
        .unwrap()
        .iter()
        .map(|m| {
            let ts = if m["ts"].is_null() { None } else { Some(q_of(&m["ts"][0], &m["ts"][1])) };
            MatrixData::new(
                usize_of(&m["i"]),
                ts,
                i64s_of(&m["du"]).into_iter().map(|x| x as f64).collect(),
                i64s_of(&m["di"]).into_iter().map(|x| x as f64).collect(),
            )
        })
        .collect();
    let built = if case["fb"].as_bool().unwrap_or(false) {
        create_matrix_transport_cost_with_fallback(mats, TestFallback)
    } else {
        create_matrix_transport_cost(mats)
    };
    let transport = match built {
        Ok(t) => t,
        Err(e) => return json!({"build": format!("err: {e}"), "size": 0, "ans": []}),
    };
    let ans: Vec<Value> = case["qs"]
        .as_array()
        .unwrap()
        .iter()
        .map(|q| {
            let p = usize_of(&q[0]);
            let scale = q_of(&q[1], &q[2]);
            let (from, to) = (usize_of(&q[3]), usize_of(&q[4]));
            let t = q_of(&q[5], &q[6]);
            let kind = i64_of(&q[7]);
            let route = route_for(p, scale);
            let profile = Profile { index: p, scale };
            json!([
                guarded(|| transport.duration(&route, from, to, tt(kind, t))),
                guarded(|| transport.distance(&route, from, to, tt(kind, t))),
                guarded(|| transport.duration_approx(&profile, from, to)),
                guarded(|| transport.distance_approx(&profile, from, to)),
            ])
        })
        .collect();
    json!({"build": "ok", "size": transport.size(), "ans": ans})
}

fn op_simple(case: &Value) -> Value {
    let du: Vec<f64> = i64s_of(&case["du"]).into_iter().map(|x| x as f64).collect();
    let di: Vec<f64> = i64s_of(&case["di"]).into_iter().map(|x| x as f64).collect();
    let t = match SimpleTransportCost::new(du, di) {
        Ok(t) => t,
        Err(e) => return json!({"build": format!("err: {e}"), "size": -1, "ans": []}),
    };
    let route = route_for(3, 4.);
    let ans: Vec<Value> = case["qs"]
        .as_array()
        .unwrap()
        .iter()
        .map(|q| {
            let (from, to) = (usize_of(&q[0]), usize_of(&q[1]));
            json!([
                guarded(|| t.duration(&route, from, to, TravelTime::Departure(5.))),
                guarded(|| t.distance(&route, from, to, TravelTime::Arrival(9.))),
                guarded(|| t.duration_approx(&route.actor.vehicle.profile, from, to)),
                guarded(|| t.distance_approx(&route.actor.vehicle.profile, from, to)),
            ])
        })
        .collect();
    json!({"build": "ok", "size": t.size(), "ans": ans})
}

fn job_json(id: &str, loc: Value) -> Value {
    json!({"id": id, "deliveries": [{"places": [{"location": loc, "duration": 1.0}], "demand": [1]}]})
}

fn vehicle_json(k: usize, name: &str, scale: Option<f64>, loc: Value) -> Value {
    let mut profile = json!({"matrix": name});
    if let Some(s) = scale {
        profile["scale"] = json!(s);
    }
    json!({
        "typeId": format!("t{k}"), "vehicleIds": [format!("v{k}")], "profile": profile,
        "costs": {"fixed": 1.0, "distance": 1.0, "time": 1.0},
        "shifts": [{"start": {"earliest": "1970-01-01T00:00:00Z", "location": loc}}],
        "capacity": [10]
    })
}

fn errs(e: &vrp_pragmatic::format::MultiFormatError) -> String {
    e.errors.iter().map(|e| format!("{}: {} {}", e.code, e.cause, e.action)).collect::<Vec<_>>().join(" | ")
}

fn route_of(problem: &Problem, vid: &str) -> Route {
    let actor = problem
        .fleet
        .actors
        .iter()
        .find(|a| a.vehicle.dimens.get_vehicle_id().map(|s| s.as_str()) == Some(vid))
        .expect("actor")
        .clone();
    let tour = Tour::new(&actor);
    Route { actor, tour }
}

fn op_prag(case: &Value) -> Value {
    let nloc = usize_of(&case["nloc"]);
    let custom = case["custom"].as_bool().unwrap_or(false);
    // jobs are listed in descending index order so that first-seen order differs from the matrix index
    let mut jobs: Vec<Value> = (0..nloc).rev().map(|i| job_json(&format!("j{i}"), json!({"index": i}))).collect();
    if custom {
        jobs.push(job_json("jc", json!({"type": "unknown"})));
    }
    let vehicles: Vec<Value> = case["vehicles"]
        .as_array()
        .unwrap()
        .iter()
        .enumerate()
        .map(|(k, v)| {
            let scale = if i64_of(&v[2]) == 0 { None } else { Some(q_of(&v[1], &v[2])) };
            vehicle_json(k, &format!("p{}", i64_of(&v[0])), scale, json!({"index": 0}))
        })
        .collect();
    let profiles: Vec<Value> =
        case["profiles"].as_array().unwrap().iter().map(|p| json!({"name": format!("p{}", i64_of(p))})).collect();
    let problem = json!({"plan": {"jobs": jobs}, "fleet": {"vehicles": vehicles, "profiles": profiles}});
    let matrices: Vec<String> = case["mats"]
        .as_array()
        .unwrap()
        .iter()
        .map(|m| {
            let mut o = json!({"travelTimes": m["times"], "distances": m["dists"]});
            if !m["profile"].is_null() {
                o["profile"] = json!(format!("p{}", i64_of(&m["profile"])));
            }
            if !m["ts"].is_null() {
                o["timestamp"] = m["tss"].clone();
            }
            if !m["err"].is_null() {
                o["errorCodes"] = m["err"].clone();
            }
            o.to_string()
        })
        .collect();
    let problem = match (problem.to_string(), matrices).read_pragmatic() {
        Ok(p) => p,
        Err(e) => return json!({"build": errs(&e), "size": 0, "vehicles": [], "ans": []}),
    };
    let nveh = case["vehicles"].as_array().unwrap().len();
    let vehicles: Vec<Value> = (0..nveh)
        .map(|k| {
            let r = route_of(&problem, &format!("v{k}"));
            json!([r.actor.vehicle.profile.index, bits_of(r.actor.vehicle.profile.scale)])
        })
        .collect();
    let ci = problem.extras.get_coord_index().expect("coord index");
    let custom_idx = ci.get_by_loc(&ApiLocation::Custom { r#type: vrp_pragmatic::format::CustomLocationType::Unknown });
    let ans: Vec<Value> = case["qs"]
        .as_array()
        .unwrap()
        .iter()
        .map(|q| {
            let route = route_of(&problem, &format!("v{}", i64_of(&q[0])));
            let (from, to) = (usize_of(&q[1]), usize_of(&q[2]));
            let t = i64_of(&q[3]) as f64;
            json!([
                guarded(|| problem.transport.duration(&route, from, to, TravelTime::Departure(t))),
                guarded(|| problem.transport.distance(&route, from, to, TravelTime::Departure(t))),
            ])
        })
        .collect();
    let ref_idx: Vec<Value> = (0..nloc)
        .map(|i| match ci.get_by_loc(&ApiLocation::Reference { index: i }) {
            Some(k) => json!(k),
            None => Value::Null,
        })
        .collect();
    json!({"build": "ok", "size": problem.transport.size(), "vehicles": vehicles, "ans": ans, "custom_idx": custom_idx,
           "ref_idx": ref_idx})
}

/// coordinate based problem without matrices: approximation
fn op_approx(case: &Value) -> Value {
    let locs: Vec<(f64, f64)> =
        case["locs"].as_array().unwrap().iter().map(|l| (q_of(&l[0], &l[1]), q_of(&l[2], &l[3]))).collect();
    let loc_json = |i: usize| json!({"lat": locs[i].0, "lng": locs[i].1});
    // jobs use locations in the given order (with repetitions allowed through "order")
    let order = i64s_of(&case["order"]);
    let jobs: Vec<Value> =
        order.iter().enumerate().map(|(k, &i)| job_json(&format!("j{k}"), loc_json(i as usize))).collect();
    let speeds = case["speeds"].as_array().unwrap();
    let vehicles: Vec<Value> = speeds
        .iter()
        .enumerate()
        .map(|(k, _)| vehicle_json(k, &format!("p{k}"), None, loc_json(i64_of(&case["depot"]) as usize)))
        .collect();
    let profiles: Vec<Value> = speeds
        .iter()
        .enumerate()
        .map(|(k, s)| {
            if s.is_null() {
                json!({"name": format!("p{k}")})
            } else {
                json!({"name": format!("p{k}"), "speed": q_of(&s[0], &s[1])})
            }
        })
        .collect();
    let text = json!({"plan": {"jobs": jobs}, "fleet": {"vehicles": vehicles, "profiles": profiles}}).to_string();
    let api = deserialize_problem(std::io::BufReader::new(text.as_bytes())).map_err(|e| errs(&e)).expect("api problem");
    let mats = create_approx_matrices(&api);
    let mats_json: Vec<Value> =
        mats.iter().map(|m| json!({"profile": m.profile, "times": m.travel_times, "dists": m.distances})).collect();
    let problem = match text.read_pragmatic() {
        Ok(p) => p,
        Err(e) => return json!({"build": errs(&e), "mats": mats_json}),
    };
    let ci = problem.extras.get_coord_index().expect("coord index");
    let idx: Vec<Value> = (0..locs.len())
        .map(|i| match ci.get_by_loc(&ApiLocation::Coordinate { lat: locs[i].0, lng: locs[i].1 }) {
            Some(k) => json!(k),
            None => Value::Null,
        })
        .collect();
    let n = problem.transport.size();
    // full table per vehicle: [dur, dist] as integers (values are rounded i64 by construction)
    let tables: Vec<Value> = (0..speeds.len())
        .map(|k| {
            let route = route_of(&problem, &format!("v{k}"));
            let mut rows = vec![];
            for i in 0..n {
                for j in 0..n {
                    rows.push(json!([
                        guarded(|| problem.transport.duration(&route, i, j, TravelTime::Departure(0.))),
                        guarded(|| problem.transport.distance(&route, i, j, TravelTime::Departure(0.))),
                    ]));
                }
            }
            json!({"pidx": route.actor.vehicle.profile.index, "rows": rows})
        })
        .collect();
    json!({"build": "ok", "size": n, "mats": mats_json, "idx": idx, "tables": tables})
}

fn op_sci(case: &Value) -> Value {
    let mut ci = vrp_scientific::common::CoordIndex::default();
    let locs: Vec<(i32, i32)> =
        case["locs"].as_array().unwrap().iter().map(|l| (i64_of(&l[0]) as i32, i64_of(&l[1]) as i32)).collect();
    let collected: Vec<usize> = locs.iter().map(|&l| ci.collect(l)).collect();
    let logger: vrp_core::prelude::InfoLogger = Arc::new(|_: &str| {});
    let t = match ci.create_transport(true, &logger) {
        Ok(t) => t,
        Err(e) => return json!({"build": format!("err: {e}"), "size": -1, "ans": [], "collected": collected}),
    };
    let route = route_for(0, 1.);
    let ans: Vec<Value> = case["qs"]
        .as_array()
        .unwrap()
        .iter()
        .map(|q| {
            let (from, to) = (usize_of(&q[0]), usize_of(&q[1]));
            json!([
                guarded(|| t.duration(&route, from, to, TravelTime::Departure(0.))),
                guarded(|| t.distance(&route, from, to, TravelTime::Departure(0.))),
                guarded(|| t.duration_approx(&route.actor.vehicle.profile, from, to)),
                guarded(|| t.distance_approx(&route.actor.vehicle.profile, from, to)),
            ])
        })
        .collect();
    json!({"build": "ok", "size": t.size(), "ans": ans, "collected": collected,
           "unique": ci.locations.iter().map(|l| json!([l.0, l.1])).collect::<Vec<_>>()})
}

pub fn run_case(case: &Value) -> Value {
    match case["op"].as_str().unwrap() {
        "core" => op_core(case),
        "simple" => op_simple(case),
        "prag" => op_prag(case),
        "approx" => op_approx(case),
        "sci" => op_sci(case),
        _ => panic!("unknown op"),
    }
}

fn main() {
    vh::main_loop(run_case);
}
