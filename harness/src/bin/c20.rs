//! C20: quote of an insertion (eval_job_insertion_in_route) vs GoalContext::fitness of the solution that a recreate step
//! (InsertionHeuristic::process) hands over with and without that insertion.
use serde_json::{json, Value};
use std::sync::Arc;
use vh::core::*;
use vh::util::*;
use vrp_core::construction::heuristics::*;
use vrp_core::models::problem::*;
use vrp_core::rosomaxa::prelude::HeuristicSolution;

struct OnlyJob(String);
impl JobSelector for OnlyJob {
    fn prepare(&self, _: &mut InsertionContext) {}
    fn select<'a>(&'a self, ctx: &'a InsertionContext) -> Box<dyn Iterator<Item = &'a Job> + 'a> {
        Box::new(ctx.solution.required.iter().filter(move |j| job_id(j) == self.0))
    }
}
struct OnlyVehicle(String);
impl RouteSelector for OnlyVehicle {
    fn prepare(&self, _: &mut InsertionContext) {}
    fn select<'a>(&'a self, ctx: &'a InsertionContext, _: &[&'a Job]) -> Box<dyn Iterator<Item = &'a RouteContext> + 'a> {
        Box::new(
            ctx.solution
                .routes
                .iter()
                .chain(ctx.solution.registry.next_route())
                .filter(move |r| r.route().actor.vehicle.dimens.get_vehicle_id().map_or(false, |id| *id == self.0)),
        )
    }
}

fn dummy(id: i64) -> Arc<Single> {
    Arc::new(single_of(&json!({"id": id, "places": [{"loc": 0, "svc": 0, "tws": [[0, "inf"]]}], "dem": [0, 0, 0, 0]})))
}

fn run_case(case: &Value) -> Value {
    let tour_desc = case["tour"].as_array().unwrap();
    let tour_singles: Vec<Arc<Single>> = tour_desc.iter().map(|a| Arc::new(single_of_act(a))).collect();
    let cand: Job = job_of(&case["job"]);
    let others = case["others"].as_array().cloned().unwrap_or_default();
    let other_singles: Vec<Vec<Arc<Single>>> = others
        .iter()
        .map(|o| o["tour"].as_array().unwrap().iter().map(|a| Arc::new(single_of_act(a))).collect())
        .collect();
    let n_ignored = i64_of(&case["ignored"]);
    let n_extra = i64_of(&case["extra_required"]);
    let ignored: Vec<Arc<Single>> = (0..n_ignored).map(|k| dummy(700 + k)).collect();
    let extra: Vec<Arc<Single>> = (0..n_extra).map(|k| dummy(800 + k)).collect();

    let mut jobs: Vec<Job> = tour_singles.iter().map(|s| Job::Single(s.clone())).collect();
    jobs.extend(other_singles.iter().flatten().map(|s| Job::Single(s.clone())));
    jobs.extend(ignored.iter().chain(extra.iter()).map(|s| Job::Single(s.clone())));
    jobs.push(cand.clone());
    let mut vehicles = vec![vehicle_of(&case["veh"], "v0")];
    for (k, o) in others.iter().enumerate() {
        vehicles.push(vehicle_of(&o["veh"], &format!("o{k}")));
    }
    let world = build_world(case, vehicles, jobs, case["goal"].as_str().unwrap());
    let mut ctx = new_ctx(&world);
    for (k, o) in others.iter().enumerate() {
        let acts: Vec<(Value, Arc<Single>)> =
            o["tour"].as_array().unwrap().iter().cloned().zip(other_singles[k].iter().cloned()).collect();
        add_route(&mut ctx, k + 1, &acts);
    }
    if !tour_desc.is_empty() {
        let acts: Vec<(Value, Arc<Single>)> = tour_desc.iter().cloned().zip(tour_singles.iter().cloned()).collect();
        add_route(&mut ctx, 0, &acts);
    }
    ctx.solution.ignored = ignored.iter().map(|s| Job::Single(s.clone())).collect();
    ctx.solution.required = extra.iter().map(|s| Job::Single(s.clone())).collect();
    ctx.solution.required.push(cand.clone());
    world.problem.goal.accept_solution_state(&mut ctx.solution);

    // the quote
    let selector = BestResultSelector::default();
    let eval_ctx = EvaluationContext {
        goal: &world.problem.goal,
        job: &cand,
        leg_selection: &LegSelection::Exhaustive,
        result_selector: &selector,
    };
    let quote = {
        let route_ctx = ctx
            .solution
            .routes
            .iter()
            .chain(ctx.solution.registry.next_route())
            .find(|r| r.route().actor.vehicle.dimens.get_vehicle_id().map_or(false, |id| id == "v0"))
            .expect("target route");
        match eval_job_insertion_in_route(&ctx, &eval_ctx, route_ctx, InsertionPosition::Any, InsertionResult::make_failure()) {
            InsertionResult::Success(s) => {
                let (a, idx) = &s.activities[0];
                let acts: Vec<Value> = s
                    .activities
                    .iter()
                    .map(|(a, idx)| {
                        json!({"index": idx, "job": a.job.as_ref().and_then(|s| s.dimens.get_job_id().cloned()), "place": a.place.idx, "loc": a.place.location,
                               "svc": t_out(a.place.duration), "tws": t_out(a.place.time.start), "twe": t_out(a.place.time.end)})
                    })
                    .collect();
                json!({"ok": true, "cost": s.cost.iter().map(t_out).collect::<Vec<_>>(), "index": idx, "place": a.place.idx,
                       "loc": a.place.location, "svc": t_out(a.place.duration), "tws": t_out(a.place.time.start), "twe": t_out(a.place.time.end),
                       "acts": acts})
            }
            InsertionResult::Failure(f) => json!({"ok": false, "code": f.constraint.0, "stopped": f.stopped}),
        }
    };

    // hand-over without the insertion: a recreate step that selects no job for insertion
    let heuristic = InsertionHeuristic::default();
    let without = heuristic.process(ctx.deep_copy(), &OnlyJob("none".into()), &OnlyVehicle("v0".into()), &LegSelection::Exhaustive, &selector);
    let fit_without: Vec<Value> = world.problem.goal.fitness(&without).map(t_out).collect();
    // hand-over with the insertion: a recreate step restricted to this job and this vehicle
    let with = heuristic.process(ctx.deep_copy(), &OnlyJob(job_id(&cand)), &OnlyVehicle("v0".into()), &LegSelection::Exhaustive, &selector);
    let fit_with: Vec<Value> = world.problem.goal.fitness(&with).map(t_out).collect();
    let inserted = with.solution.routes.iter().any(|r| r.route().tour.jobs().any(|j| job_id(j) == job_id(&cand)));
    let target_after = with
        .solution
        .routes
        .iter()
        .find(|r| r.route().actor.vehicle.dimens.get_vehicle_id().map_or(false, |id| id == "v0"))
        .map(dump_schedule);
    let target_before =
        ctx.solution.routes.iter().find(|r| r.route().actor.vehicle.dimens.get_vehicle_id().map_or(false, |id| id == "v0")).map(dump_schedule);
    let after_jobs: Option<Vec<Option<String>>> = with
        .solution
        .routes
        .iter()
        .find(|r| r.route().actor.vehicle.dimens.get_vehicle_id().map_or(false, |id| id == "v0"))
        .map(|r| r.route().tour.all_activities().map(|a| a.job.as_ref().and_then(|s| s.dimens.get_job_id().cloned())).collect());
    json!({"quote": quote, "fit_without": fit_without, "fit_with": fit_with, "inserted": inserted,
           "before": target_before, "after": target_after, "after_jobs": after_jobs,
           "unassigned_without": without.solution.unassigned.len(), "unassigned_with": with.solution.unassigned.len(),
           "routes_without": without.solution.routes.len(), "routes_with": with.solution.routes.len()})
}

fn main() {
    vh::main_loop(run_case);
}
