//! C08: drives the real Greedy / Elitism / Rosomaxa populations through the public HeuristicPopulation trait
//! with an integer-valued solution type and a scripted Random; reports ranked/size/phase/selection after every op.
use rosomaxa::algorithms::gsom::Input;
use rosomaxa::evolution::strategies::Iterative;
use rosomaxa::evolution::{EvolutionSimulator, InitialConfig, InitialOperator, ProcessingConfig};
use rosomaxa::population::{Alternative, Elitism, Greedy, RosomaxaContext, RosomaxaSolution};
use rosomaxa::termination::MaxGeneration;
use rosomaxa::TelemetryHeuristicContext;
use rosomaxa::prelude::*;
use rosomaxa::utils::{Parallelism, Timer};
use serde_json::{json, Value};
use std::cmp::Ordering;
use std::collections::VecDeque;
use std::sync::{Arc, Mutex};
use vh::util::*;

#[derive(Clone)]
struct Sol {
    id: i64,
    key: i64,
    tag: i64,
    fit: Vec<Float>,
    weights: Vec<Float>,
}

impl HeuristicSolution for Sol {
    fn fitness(&self) -> impl Iterator<Item = Float> {
        self.fit.iter().cloned()
    }
    fn deep_copy(&self) -> Self {
        self.clone()
    }
}

impl Input for Sol {
    fn weights(&self) -> &[Float] {
        self.weights.as_slice()
    }
}

struct Ctx;
impl RosomaxaContext for Ctx {
    type Solution = Sol;
    fn on_change(&mut self, _: &[Sol]) {}
}

impl RosomaxaSolution for Sol {
    type Context = Ctx;
    fn on_init(&mut self, _: &Ctx) {}
    fn on_update(&mut self, _: &Ctx) {}
}

struct Obj;
impl HeuristicObjective for Obj {
    type Solution = Sol;
    fn total_order(&self, a: &Sol, b: &Sol) -> Ordering {
        a.key.cmp(&b.key)
    }
}
impl Alternative for Obj {
    fn maybe_new(&self, _: &dyn Random) -> Self {
        Obj
    }
}

#[derive(Default)]
struct Script {
    active: bool,
    draws: VecDeque<u64>,
    hits: VecDeque<bool>,
}

/// Random whose `uniform_int` / `is_hit` answers are scripted by the case while a `select` op runs
/// (exhausted script: 0 / false) and come from a splitmix64 stream otherwise.
struct ScriptedRandom {
    script: Mutex<Script>,
    stream: Mutex<SplitMix>,
}

impl ScriptedRandom {
    fn unit(&self) -> f64 {
        (self.stream.lock().unwrap().next() >> 11) as f64 / (1u64 << 53) as f64
    }
}

impl Random for ScriptedRandom {
    fn uniform_int(&self, min: i32, max: i32) -> i32 {
        assert!(min <= max);
        let span = (max as i64 - min as i64 + 1) as u64;
        let d = {
            let mut s = self.script.lock().unwrap();
            if s.active {
                s.draws.pop_front().unwrap_or(0)
            } else {
                drop(s);
                self.stream.lock().unwrap().next()
            }
        };
        (min as i64 + (d % span) as i64) as i32
    }

    fn uniform_real(&self, min: Float, max: Float) -> Float {
        if (min - max).abs() < Float::EPSILON {
            return min;
        }
        assert!(min < max);
        let v = min + self.unit() * (max - min);
        if v >= max { min } else { v }
    }

    fn is_head_not_tails(&self) -> bool {
        self.stream.lock().unwrap().next() & 1 == 1
    }

    fn is_hit(&self, probability: Float) -> bool {
        {
            let mut s = self.script.lock().unwrap();
            if s.active {
                return s.hits.pop_front().unwrap_or(false);
            }
        }
        self.unit() < probability.clamp(0., 1.)
    }

    fn weighted(&self, weights: &[usize]) -> usize {
        weights
            .iter()
            .zip(0_usize..)
            .map(|(&weight, index)| (-self.uniform_real(0., 1.).max(1e-12).ln() / weight as Float, index))
            .min_by(|a, b| a.0.total_cmp(&b.0))
            .unwrap()
            .1
    }

    fn get_rng(&self) -> RandomGen {
        RandomGen::new_repeatable()
    }
}

fn sol_of(v: &Value, two: bool) -> Sol {
    let a = i64s_of(v);
    let (id, key, tag, w) = (a[0], a[1], a[2], a[3]);
    let fit = if two { vec![key as Float, tag as Float] } else { vec![key as Float] };
    Sol { id, key, tag, fit, weights: vec![w as Float] }
}

fn pair(s: &Sol) -> Value {
    json!([s.id, s.key])
}

type Pop = Box<dyn HeuristicPopulation<Objective = Obj, Individual = Sol> + Send + Sync>;

fn phase_of(p: SelectionPhase) -> i64 {
    match p {
        SelectionPhase::Initial => 0,
        SelectionPhase::Exploration => 1,
        SelectionPhase::Exploitation => 2,
    }
}

fn make_population(case: &Value, random: Arc<ScriptedRandom>) -> Pop {
    let cfg = &case["cfg"];
    let two = case["two"].as_bool().unwrap_or(false);
    let objective = Arc::new(Obj);
    match case["kind"].as_str().unwrap() {
        "greedy" => {
            let best = cfg["best"].as_array().and_then(|a| a.first()).map(|v| sol_of(v, two));
            Box::new(Greedy::new(objective, usize_of(&cfg["sel"]), best))
        }
        "elitism" => {
            let (max, sel, mode) = (usize_of(&cfg["max"]), usize_of(&cfg["sel"]), i64_of(&cfg["dedup"]));
            if mode == 4 {
                Box::new(Elitism::new(objective, random, max, sel))
            } else {
                Box::new(Elitism::new_with_dedup(
                    objective,
                    random,
                    max,
                    sel,
                    Box::new(move |_, a: &Sol, b: &Sol| match mode {
                        0 => false,
                        1 => a.tag == b.tag,
                        2 => (a.tag + 2 * b.tag).rem_euclid(3) == 0,
                        _ => true,
                    }),
                ))
            }
        }
        "rosomaxa" => {
            let env = Arc::new(Environment::new(
                random,
                None,
                Parallelism::new_with_cpus(1),
                Arc::new(|_: &str| {}),
                false,
            ));
            let config = RosomaxaConfig {
                initial_size: usize_of(&cfg["initial"]),
                selection_size: usize_of(&cfg["sel"]),
                elite_size: usize_of(&cfg["elite"]),
                node_size: usize_of(&cfg["node"]),
                spread_factor: 0.75,
                distribution_factor: 0.9,
                rebalance_memory: usize_of(&cfg["rebalance"]),
                exploration_ratio: i64_of(&cfg["er"]) as Float / 64.,
            };
            Box::new(Rosomaxa::new(Ctx, objective, env, config).expect("rosomaxa config rejected"))
        }
        _ => panic!("unknown kind"),
    }
}

fn run_history(case: &Value) -> Value {
    let two = case["two"].as_bool().unwrap_or(false);
    let seed = case["seed"].as_u64().unwrap_or(1);
    let random = Arc::new(ScriptedRandom { script: Mutex::new(Script::default()), stream: Mutex::new(SplitMix(seed)) });
    let mut pop = make_population(case, random.clone());
    let mut trace: Vec<Value> = vec![];
    for op in case["ops"].as_array().unwrap() {
        let name = op["op"].as_str().unwrap();
        let mut sel: Vec<Value> = vec![];
        let mut ret = Value::Null;
        match name {
            "add" => ret = json!(pop.add(sol_of(&op["x"], two))),
            "add_all" => {
                let xs: Vec<Sol> = op["xs"].as_array().unwrap().iter().map(|v| sol_of(v, two)).collect();
                ret = json!(pop.add_all(xs));
            }
            "gen" => {
                let r = i64_of(&op["r"]) as Float / 16.;
                let speed = match i64_of(&op["sp"]) {
                    2 => HeuristicSpeed::Slow { ratio: r, average: 1., median: None },
                    1 => HeuristicSpeed::Moderate { average: 1., median: None },
                    _ => HeuristicSpeed::Unknown,
                };
                let stats = HeuristicStatistics {
                    generation: usize_of(&op["g"]),
                    time: Timer::start(),
                    speed,
                    improvement_all_ratio: i64_of(&op["imp"]) as Float / 16.,
                    improvement_1000_ratio: i64_of(&op["imp"]) as Float / 16.,
                    termination_estimate: i64_of(&op["t"]) as Float / 1024.,
                };
                pop.on_generation(&stats);
            }
            "select" => {
                {
                    let mut s = random.script.lock().unwrap();
                    s.active = true;
                    s.draws = i64s_of(&op["draws"]).into_iter().map(|d| d as u64).collect();
                    s.hits = i64s_of(&op["hits"]).into_iter().map(|h| h != 0).collect();
                }
                sel = pop.select().map(pair).collect();
                random.script.lock().unwrap().active = false;
            }
            _ => panic!("unknown op"),
        }
        let ranked: Vec<Value> = pop.ranked().map(pair).collect();
        let first_cmp: Vec<i64> = {
            // the population's own cmp of its first ranked individual against every ranked one
            let v: Vec<&Sol> = pop.ranked().collect();
            v.iter().map(|x| ord_of(pop.cmp(v[0], x))).collect()
        };
        trace.push(json!({"phase": phase_of(pop.selection_phase()), "size": pop.size(), "ranked": ranked,
                          "sel": sel, "ret": ret, "first_cmp": first_cmp}));
    }
    json!({"trace": trace})
}


// ---------------------------------------------------------------- the real evolution loop, seeded
type Ctx2 = TelemetryHeuristicContext<Obj, Sol>;

/// offspring of generation g are scripted by the case (independent of the parents); parents are recorded
struct ScriptedHeuristic {
    two: bool,
    offspring: Vec<Value>,
    generation: usize,
    parents: Arc<Mutex<Vec<Vec<Value>>>>,
}
impl std::fmt::Display for ScriptedHeuristic {
    fn fmt(&self, f: &mut std::fmt::Formatter<'_>) -> std::fmt::Result {
        write!(f, "scripted")
    }
}
impl HyperHeuristic for ScriptedHeuristic {
    type Context = Ctx2;
    type Objective = Obj;
    type Solution = Sol;
    fn search(&mut self, ctx: &Ctx2, solution: &Sol) -> Vec<Sol> {
        self.search_many(ctx, vec![solution])
    }
    fn search_many(&mut self, _: &Ctx2, solutions: Vec<&Sol>) -> Vec<Sol> {
        self.parents.lock().unwrap().push(solutions.iter().map(|s| pair(s)).collect());
        let g = self.generation;
        self.generation += 1;
        self.offspring.get(g).and_then(|v| v.as_array()).map(|a| a.iter().map(|v| sol_of(v, self.two)).collect()).unwrap_or_default()
    }
    fn diversify(&self, _: &Ctx2, _: &Sol) -> Vec<Sol> {
        vec![]
    }
    fn diversify_many(&self, _: &Ctx2, _: Vec<&Sol>) -> Vec<Sol> {
        vec![]
    }
}

struct ScriptedInit {
    two: bool,
    created: Mutex<VecDeque<Value>>,
    log: Arc<Mutex<Vec<Value>>>,
}
impl InitialOperator for ScriptedInit {
    type Context = Ctx2;
    type Objective = Obj;
    type Solution = Sol;
    fn create(&self, _: &Ctx2) -> Sol {
        let v = self.created.lock().unwrap().pop_front().expect("no scripted solution left to create");
        let s = sol_of(&v, self.two);
        self.log.lock().unwrap().push(pair(&s));
        s
    }
}

fn run_evo(case: &Value) -> Value {
    let two = case["two"].as_bool().unwrap_or(false);
    let seed = case["seed"].as_u64().unwrap_or(1);
    let random = Arc::new(ScriptedRandom { script: Mutex::new(Script::default()), stream: Mutex::new(SplitMix(seed)) });
    let population = make_population(case, random.clone());
    let env = Arc::new(Environment::new(random, None, Parallelism::new_with_cpus(1), Arc::new(|_: &str| {}), false));
    let context = TelemetryHeuristicContext::new(Arc::new(Obj), population, TelemetryMode::None, env);
    let parents = Arc::new(Mutex::new(vec![]));
    let created_log = Arc::new(Mutex::new(vec![]));
    let heuristic = ScriptedHeuristic {
        two,
        offspring: case["offspring"].as_array().unwrap().clone(),
        generation: 0,
        parents: parents.clone(),
    };
    let inits: Vec<Sol> = case["inits"].as_array().unwrap().iter().map(|v| sol_of(v, two)).collect();
    let config = EvolutionConfig {
        initial: InitialConfig {
            operators: vec![(
                Box::new(ScriptedInit {
                    two,
                    created: Mutex::new(case["created"].as_array().unwrap().iter().cloned().collect()),
                    log: created_log.clone(),
                }),
                1,
            )],
            max_size: usize_of(&case["max_init"]),
            quota: 1.,
            individuals: inits,
        },
        processing: ProcessingConfig { context: vec![], solution: vec![] },
        context,
        strategy: Box::new(Iterative::new(Box::new(heuristic), usize_of(&case["want"]))),
        termination: Box::new(MaxGeneration::new(usize_of(&case["gens"]))),
    };
    let (solutions, _) = EvolutionSimulator::new(config).expect("config").run().expect("evolution failed");
    let result: Vec<Value> = solutions.iter().map(pair).collect();
    let parents = parents.lock().unwrap().clone();
    let created = created_log.lock().unwrap().clone();
    json!({"result": result, "parents": parents, "created": created})
}

// ---------------------------------------------------------------- end to end: vrp-core Solver seeded through the pragmatic initial-solution reader
mod e2e {
    use super::*;
    use std::io::{BufReader, BufWriter};
    use vrp_core::construction::heuristics::InsertionContext;
    use vrp_core::models::GoalContext;
    use vrp_core::solver::{create_elitism_population, RefinementContext, Solver, TargetPopulation, VrpConfigBuilder};
    use vrp_pragmatic::format::problem::PragmaticProblem;
    use vrp_pragmatic::format::solution::{read_init_solution, write_pragmatic, PragmaticOutputType};

    fn fitness_of(goal: &GoalContext, ctx: &InsertionContext) -> Vec<Value> {
        goal.fitness(ctx).map(|f| if f.fract() == 0. && f.abs() < 1e15 { json!(f as i64) } else { json!(f.to_string()) }).collect()
    }

    pub fn run_solve(case: &Value) -> Value {
        let problem = Arc::new(
            (case["problem"].as_str().unwrap().to_string(), vec![case["matrix"].as_str().unwrap().to_string()])
                .read_pragmatic()
                .unwrap_or_else(|e| panic!("cannot read problem: {e}")),
        );
        let env = Arc::new(Environment::new(
            Arc::new(DefaultRandom::new_repeatable()),
            None,
            Parallelism::new_with_cpus(2),
            Arc::new(|_: &str| {}),
            false,
        ));
        // 1. a good solution from an unseeded run
        let config = VrpConfigBuilder::new(problem.clone())
            .set_environment(env.clone())
            .set_telemetry_mode(TelemetryMode::None)
            .prebuild()
            .unwrap()
            .with_max_generations(Some(usize_of(&case["gens0"])))
            .build()
            .unwrap();
        let s0 = Solver::new(problem.clone(), config).solve().expect("unseeded solve failed");
        // 2. through the pragmatic writer and the initial-solution reader
        let mut buf = Vec::new();
        {
            let mut w = BufWriter::new(&mut buf);
            write_pragmatic(&problem, &s0, PragmaticOutputType::default(), &mut w).expect("cannot write solution");
        }
        let read = read_init_solution(BufReader::new(buf.as_slice()), problem.clone(), env.random.clone())
            .expect("cannot read initial solution");
        let s0_ctx = InsertionContext::new_from_solution(problem.clone(), (s0, None), env.clone());
        let init_ctx = InsertionContext::new_from_solution(problem.clone(), (read, None), env.clone());
        // 3. seeded solve with few generations
        let population: TargetPopulation = match case["pop"].as_str().unwrap_or("default") {
            "greedy" => Box::new(Greedy::new(problem.goal.clone(), 1, None)),
            "elitism" => Box::new(create_elitism_population(problem.goal.clone(), env.clone())),
            _ => rosomaxa::get_default_population(
                problem.goal.clone(),
                vrp_core::models::common::Footprint::new(problem.as_ref()),
                env.clone(),
                usize_of(&case["sel"]),
            ),
        };
        let config = VrpConfigBuilder::new(problem.clone())
            .set_environment(env.clone())
            .set_telemetry_mode(TelemetryMode::None)
            .prebuild()
            .unwrap()
            .with_init_solutions(vec![init_ctx.deep_copy()], Some(usize_of(&case["init_size"])))
            .with_max_generations(Some(usize_of(&case["gens"])))
            .with_context(RefinementContext::new(problem.clone(), population, TelemetryMode::None, env.clone()))
            .build()
            .unwrap();
        let result = Solver::new(problem.clone(), config).solve().expect("seeded solve failed");
        let result_ctx = InsertionContext::new_from_solution(problem.clone(), (result, None), env.clone());
        let goal = problem.goal.as_ref();
        json!({
            "result_vs_given": ord_of(goal.total_order(&result_ctx, &s0_ctx)),
            "result_vs_read": ord_of(goal.total_order(&result_ctx, &init_ctx)),
            "read_vs_given": ord_of(goal.total_order(&init_ctx, &s0_ctx)),
            "fit_given": fitness_of(goal, &s0_ctx), "fit_read": fitness_of(goal, &init_ctx), "fit_result": fitness_of(goal, &result_ctx),
        })
    }
}

pub fn run_case(case: &Value) -> Value {
    match case["kind"].as_str().unwrap() {
        "solve" => e2e::run_solve(case),
        _ => {
            // a fresh thread per case: the crate's repeatable RNG (get_rng) is thread-local, so every case starts from the same state
            let c = case.clone();
            let evo = case["evo"].as_bool().unwrap_or(false);
            match std::thread::spawn(move || if evo { run_evo(&c) } else { run_history(&c) }).join() {
                Ok(v) => v,
                Err(e) => {
                    let msg = e
                        .downcast_ref::<String>()
                        .cloned()
                        .or_else(|| e.downcast_ref::<&str>().map(|s| s.to_string()))
                        .unwrap_or_else(|| "panic".to_string());
                    panic!("{}", msg)
                }
            }
        }
    }
}

fn main() {
    vh::main_loop(run_case);
}
