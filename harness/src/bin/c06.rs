//! C06: the real eval_job_insertion_in_route on a tour built through the public API.
use serde_json::{json, Value};
use std::sync::Arc;
use vh::core::*;
use vh::util::*;
use vrp_core::construction::heuristics::*;
use vrp_core::models::problem::*;

fn run_case(case: &Value) -> Value {
    // jobs of the tour + the candidate
    let tour_desc = case["tour"].as_array().unwrap();
    let tour_singles: Vec<Arc<Single>> = tour_desc.iter().map(|a| Arc::new(single_of_act(a))).collect();
    let cand: Job = if case["job"]["multi"].is_null() {
        Job::Single(Arc::new(single_of(&case["job"])))
    } else {
        let subs: Vec<Single> = case["job"]["multi"].as_array().unwrap().iter().map(single_of).collect();
        let mut b = MultiBuilder::default().id(&format!("m{}", i64_of(&case["job"]["id"])));
        for s in subs {
            b = b.add_job(s);
        }
        b.build_as_job().unwrap()
    };
    let mut jobs: Vec<Job> = tour_singles.iter().map(|s| Job::Single(s.clone())).collect();
    jobs.push(cand.clone());
    let world = build_world(case, vec![vehicle_of(&case["veh"], "v0")], jobs, case["goal"].as_str().unwrap_or("cost"));
    let mut ctx = new_ctx(&world);
    let acts: Vec<(Value, Arc<Single>)> = tour_desc.iter().cloned().zip(tour_singles.iter().cloned()).collect();
    let ridx = add_route(&mut ctx, 0, &acts);
    let route_ctx = &ctx.solution.routes[ridx];
    let before = dump_schedule(route_ctx);
    let digest = route_ctx.state().verif_digest();

    let position = match &case["pos"] {
        Value::String(s) if s == "any" => InsertionPosition::Any,
        Value::String(s) if s == "last" => InsertionPosition::Last,
        v => InsertionPosition::Concrete(usize_of(&v[1])),
    };
    let selector = BestResultSelector::default();
    let eval_ctx = EvaluationContext {
        goal: &world.problem.goal,
        job: &cand,
        leg_selection: &LegSelection::Exhaustive,
        result_selector: &selector,
    };
    let result = eval_job_insertion_in_route(&ctx, &eval_ctx, route_ctx, position, InsertionResult::make_failure());
    let res = match result {
        InsertionResult::Success(s) => {
            let acts: Vec<Value> = s
                .activities
                .iter()
                .map(|(a, idx)| {
                    json!({"index": idx, "job": a.job.as_ref().and_then(|s| s.dimens.get_job_id().cloned()), "place": a.place.idx, "loc": a.place.location, "svc": t_out(a.place.duration),
                           "tws": t_out(a.place.time.start), "twe": t_out(a.place.time.end)})
                })
                .collect();
            json!({"ok": true, "cost": s.cost.iter().map(t_out).collect::<Vec<_>>(), "acts": acts})
        }
        InsertionResult::Failure(f) => json!({"ok": false, "code": f.constraint.0, "stopped": f.stopped}),
    };
    json!({"before": before, "eval": res, "digest": digest})
}

fn main() {
    vh::main_loop(run_case);
}
