//! C09: InsertionCost cmp/add/sub, Goal::total_order/fitness, dominance_order on the real code.
use vh::util::*;
use serde_json::{json, Value};
use std::sync::Arc;
use vrp_core::construction::heuristics::InsertionCost;
use vrp_core::models::{Goal, GoalBuilder};
use vrp_core::prelude::*;
use vrp_core::rosomaxa::evolution::objectives::dominance_order;
use vrp_core::rosomaxa::prelude::HeuristicObjective;

struct VerifFitnessKey;

struct IdxObjective(usize);
impl FeatureObjective for IdxObjective {
    fn fitness(&self, solution: &InsertionContext) -> Cost {
        solution.solution.state.get_value::<VerifFitnessKey, Vec<Float>>().map(|v| v[self.0]).unwrap_or(0.)
    }
    fn estimate(&self, _: &MoveContext<'_>) -> Cost {
        0.
    }
}

fn empty_ctx(problem: &Arc<Problem>, fit: Vec<Float>) -> InsertionContext {
    let mut ctx = InsertionContext::new_empty(problem.clone(), Arc::new(Environment::default()));
    ctx.solution.state.set_value::<VerifFitnessKey, Vec<Float>>(fit);
    ctx
}

thread_local! {
    static PROBLEM: Arc<Problem> = make_problem();
}

fn make_problem() -> Arc<Problem> {
    let transport: Arc<dyn TransportCost> = Arc::new(SimpleTransportCost::new(vec![0.; 4], vec![0.; 4]).unwrap());
    let feature = FeatureBuilder::default().with_name("f0").with_objective(IdxObjective(0)).build().unwrap();
    let goal = GoalContextBuilder::with_features(&[feature]).unwrap().build().unwrap();
    let job = SingleBuilder::default().id("j").location(1).unwrap().build_as_job().unwrap();
    let vehicle = VehicleBuilder::default()
        .id("v")
        .add_detail(VehicleDetailBuilder::default().set_start_location(0).build().unwrap())
        .capacity(SingleDimLoad::new(1))
        .build()
        .unwrap();
    Arc::new(
        ProblemBuilder::default()
            .add_job(job)
            .add_vehicle(vehicle)
            .with_goal(goal)
            .with_transport_cost(transport)
            .build()
            .unwrap(),
    )
}

/// layers: array of ints; 1 = single layer, n>=2 (or 0 meaning a multi layer of one objective is encoded as -1)
/// = multi layer over |n| objectives with the dominance comparator (the one goal_reader.rs installs).
fn build_goal(layers: &[i64]) -> Goal {
    let mut b = GoalBuilder::default();
    let mut idx = 0usize;
    for &l in layers {
        if l == 1 {
            b = b.add_single(Arc::new(IdxObjective(idx)));
            idx += 1;
        } else {
            let n = l.unsigned_abs() as usize;
            let os: Vec<Arc<dyn FeatureObjective>> =
                (0..n).map(|k| Arc::new(IdxObjective(idx + k)) as Arc<dyn FeatureObjective>).collect();
            idx += n;
            b = b.add_multi(
                &os,
                |os, a, b| dominance_order(a, b, os.iter().map(|o| |a, b| o.fitness(a).total_cmp(&o.fitness(b)))),
                |os, m| os.iter().map(|o| o.estimate(m)).sum(),
            );
        }
    }
    b.build().unwrap()
}

pub fn run_case(case: &Value) -> Value {
    let op = case["op"].as_str().unwrap();
    match op {
        "icost" => {
            let a = f64s_of(&case["a"]);
            let b = f64s_of(&case["b"]);
            let (ca, cb) = (InsertionCost::new(&a), InsertionCost::new(&b));
            let cmp = ord_of(ca.cmp(&cb));
            let eq = ca == cb;
            let add: Vec<Value> = (&ca + &cb).iter().map(bits_of).collect();
            let sub: Vec<Value> = (&ca - &cb).iter().map(bits_of).collect();
            let addsub: Vec<Value> = (&(&ca + &cb) - &cb).iter().map(bits_of).collect();
            let addsub_cmp = ord_of((&(&ca + &cb) - &cb).cmp(&ca));
            let subadd: Vec<Value> = (&(&ca - &cb) + &cb).iter().map(bits_of).collect();
            let subadd_cmp = ord_of((&(&ca - &cb) + &cb).cmp(&ca));
            // the by-value operators must agree with the by-reference ones
            let owned_same = (ca.clone() + &cb).cmp(&(&ca + &cb)) == std::cmp::Ordering::Equal
                && (ca.clone() - &cb).cmp(&(&ca - &cb)) == std::cmp::Ordering::Equal;
            json!({"cmp": cmp, "eq": eq, "add": add, "sub": sub, "addsub": addsub, "addsub_cmp": addsub_cmp,
                   "subadd": subadd, "subadd_cmp": subadd_cmp, "owned_same": owned_same})
        }
        "icost3" => {
            // law oracle on the implementation: transitivity on a triple
            let a = InsertionCost::new(&f64s_of(&case["a"]));
            let b = InsertionCost::new(&f64s_of(&case["b"]));
            let c = InsertionCost::new(&f64s_of(&case["c"]));
            json!({"ab": ord_of(a.cmp(&b)), "bc": ord_of(b.cmp(&c)), "ac": ord_of(a.cmp(&c)),
                   "ba": ord_of(b.cmp(&a)), "aa": ord_of(a.cmp(&a))})
        }
        "goal" => {
            let layers = i64s_of(&case["layers"]);
            let goal = build_goal(&layers);
            PROBLEM.with(|p| {
                let fa = f64s_of(&case["a"]);
                let fb = f64s_of(&case["b"]);
                let a = empty_ctx(p, fa);
                let b = empty_ctx(p, fb);
                let ab = ord_of(goal.total_order(&a, &b));
                let ba = ord_of(goal.total_order(&b, &a));
                let aa = ord_of(goal.total_order(&a, &a));
                let fit_a: Vec<Value> = goal.fitness(&a).map(bits_of).collect();
                let fit_b: Vec<Value> = goal.fitness(&b).map(bits_of).collect();
                // the same through GoalContext (HeuristicObjective impl)
                let f = FeatureBuilder::default().with_name("f0").with_objective(IdxObjective(0)).build().unwrap();
                let gc = GoalContextBuilder::with_features(&[f]).unwrap().set_main_goal(goal.clone()).build().unwrap();
                let ab_ctx = ord_of(gc.total_order(&a, &b));
                json!({"ab": ab, "ba": ba, "aa": aa, "fit_a": fit_a, "fit_b": fit_b, "ab_ctx": ab_ctx})
            })
        }
        "dominance" => {
            // orders: array of -1/0/1
            let orders = i64s_of(&case["orders"]);
            let fns = orders.iter().map(|&o| {
                move |_: &(), _: &()| match o {
                    -1 => std::cmp::Ordering::Less,
                    0 => std::cmp::Ordering::Equal,
                    _ => std::cmp::Ordering::Greater,
                }
            });
            json!({"ord": ord_of(dominance_order(&(), &(), fns))})
        }
        _ => panic!("unknown op"),
    }
}

fn main() {
    vh::main_loop(run_case);
}
