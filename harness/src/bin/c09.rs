//! C09: the whole public surface of InsertionCost (cmp / eq / ne / partial_cmp / lt / le / gt / ge / + / - by value and by reference /
//! iter / from_iter / into_iter / Index / max_value / Default), InsertionResult::choose_best_result and the provided
//! ResultSelector::select_cost, Goal::total_order / fitness / estimate, GoalContext (builder, alternatives, estimate),
//! dominance_order on the real code.
use vh::util::*;
use serde_json::{json, Value};
use std::sync::Arc;
use vrp_core::construction::heuristics::{BestResultSelector, InsertionCost, InsertionResult, InsertionSuccess, MoveContext as MC, ResultSelector};
use vrp_core::models::problem::JobIdDimension;
use vrp_core::models::ViolationCode;
use vrp_core::models::{Goal, GoalBuilder};
use vrp_core::prelude::*;
use vrp_core::rosomaxa::evolution::objectives::dominance_order;
use vrp_core::rosomaxa::population::Alternative;
use vrp_core::rosomaxa::prelude::HeuristicObjective;
use vrp_core::rosomaxa::utils::RandomGen;

struct VerifFitnessKey;
struct VerifEstimateKey;

struct IdxObjective(usize);
impl FeatureObjective for IdxObjective {
    fn fitness(&self, solution: &InsertionContext) -> Cost {
        solution.solution.state.get_value::<VerifFitnessKey, Vec<Float>>().map(|v| v[self.0]).unwrap_or(0.)
    }
    fn estimate(&self, m: &MoveContext<'_>) -> Cost {
        // the estimate of the i-th objective is scripted by the state of the solution the move refers to
        let solution_ctx = match m {
            MC::Route { solution_ctx, .. } => solution_ctx,
            MC::Activity { solution_ctx, .. } => solution_ctx,
        };
        solution_ctx.state.get_value::<VerifEstimateKey, Vec<Float>>().and_then(|v| v.get(self.0).copied()).unwrap_or(0.)
    }
}

fn empty_ctx(problem: &Arc<Problem>, fit: Vec<Float>) -> InsertionContext {
    let mut ctx = InsertionContext::new_empty(problem.clone(), Arc::new(Environment::default()));
    ctx.solution.state.set_value::<VerifFitnessKey, Vec<Float>>(fit);
    ctx
}

thread_local! {
    static PROBLEM: Arc<Problem> = make_problem();
}

fn make_problem() -> Arc<Problem> {
    let transport: Arc<dyn TransportCost> = Arc::new(SimpleTransportCost::new(vec![0.; 4], vec![0.; 4]).unwrap());
    let feature = FeatureBuilder::default().with_name("f0").with_objective(IdxObjective(0)).build().unwrap();
    let goal = GoalContextBuilder::with_features(&[feature]).unwrap().build().unwrap();
    let jobs: Vec<_> =
        (0..8).map(|i| SingleBuilder::default().id(&format!("j{}", i)).location(1).unwrap().build_as_job().unwrap()).collect();
    let vehicle = VehicleBuilder::default()
        .id("v")
        .add_detail(VehicleDetailBuilder::default().set_start_location(0).build().unwrap())
        .capacity(SingleDimLoad::new(1))
        .build()
        .unwrap();
    Arc::new(
        ProblemBuilder::default()
            .add_jobs(jobs.into_iter())
            .add_vehicle(vehicle)
            .with_goal(goal)
            .with_transport_cost(transport)
            .build()
            .unwrap(),
    )
}

/// layers: array of ints; 1 = single layer, n>=2 (or 0 meaning a multi layer of one objective is encoded as -1)
/// = multi layer over |n| objectives with the dominance comparator (the one goal_reader.rs installs).
fn build_goal(layers: &[i64]) -> Goal {
    let mut b = GoalBuilder::default();
    let mut idx = 0usize;
    for &l in layers {
        if l == 1 {
            b = b.add_single(Arc::new(IdxObjective(idx)));
            idx += 1;
        } else {
            let n = l.unsigned_abs() as usize;
            let os: Vec<Arc<dyn FeatureObjective>> =
                (0..n).map(|k| Arc::new(IdxObjective(idx + k)) as Arc<dyn FeatureObjective>).collect();
            idx += n;
            b = b.add_multi(
                &os,
                |os, a, b| dominance_order(a, b, os.iter().map(|o| |a, b| o.fitness(a).total_cmp(&o.fitness(b)))),
                |os, m| os.iter().map(|o| o.estimate(m)).sum(),
            );
        }
    }
    b.build().unwrap()
}

/// `Random` whose two answers used by `Alternative::maybe_new` are scripted: is_hit -> hit, uniform_int -> draw.
struct ScriptedRandom {
    hit: bool,
    draw: i32,
}
impl Random for ScriptedRandom {
    fn uniform_int(&self, min: i32, max: i32) -> i32 {
        assert!(min <= self.draw && self.draw <= max, "scripted draw outside of the requested interval");
        self.draw
    }
    fn uniform_real(&self, min: Float, _: Float) -> Float {
        min
    }
    fn is_head_not_tails(&self) -> bool {
        self.hit
    }
    fn is_hit(&self, _: Float) -> bool {
        self.hit
    }
    fn weighted(&self, _: &[usize]) -> usize {
        0
    }
    fn get_rng(&self) -> RandomGen {
        RandomGen::new_repeatable()
    }
}

struct NoConstraint;
impl FeatureConstraint for NoConstraint {
    fn evaluate(&self, _: &MoveContext<'_>) -> Option<ConstraintViolation> {
        None
    }
}

/// the numbers of Model/GoalCtx.v for the error messages of goal.rs / goal_reader.rs
fn err_code(msg: &str) -> i64 {
    let table = [
        ("defined more than once", 1),
        ("no objectives specified in the goal", 2),
        ("cannot find a feature with given name", 3),
        ("has no objective", 4),
        ("nested composite objectives are not supported", 5),
        ("weighted sum requires same amount of weights", 6),
        ("missing goal of optimization", 8),
        ("features with default id are not allowed", 9),
        ("empty feature is not allowed", 10),
    ];
    table.iter().find(|(m, _)| msg.contains(m)).map(|(_, c)| *c).unwrap_or(99)
}

/// goal specification {"via": 0|1, "layers": [[kind, [idx..], [weight bits..]?], ..]}:
/// via 0 = Goal::subset_of(features, names f<first idx>), via 1 = GoalBuilder (kind 0 add_single, kind 1 add_multi with the
/// comparator and estimate goal_reader.rs installs for strategy `sum`, kind 2 those of `weighted-sum` with the given weights)
fn goal_of(features: &[Feature], spec: &Value) -> GenericResult<Goal> {
    let layers = spec["layers"].as_array().unwrap();
    if i64_of(&spec["via"]) == 0 {
        let names: Vec<String> = layers.iter().map(|l| format!("f{}", i64_of(&l[1][0]))).collect();
        return Goal::subset_of(features, &names);
    }
    let mut b = GoalBuilder::default();
    for l in layers {
        let idxs = i64s_of(&l[1]);
        if i64_of(&l[0]) == 0 {
            b = b.add_single(Arc::new(IdxObjective(idxs[0] as usize)));
        } else {
            let os: Vec<Arc<dyn FeatureObjective>> =
                idxs.iter().map(|&k| Arc::new(IdxObjective(k as usize)) as Arc<dyn FeatureObjective>).collect();
            if i64_of(&l[0]) == 1 {
                b = b.add_multi(
                    &os,
                    |os, a, b| dominance_order(a, b, os.iter().map(|o| |a, b| o.fitness(a).total_cmp(&o.fitness(b)))),
                    |os, m| os.iter().map(|o| o.estimate(m)).sum(),
                );
            } else {
                let weights = f64s_of(&l[2]);
                b = b.add_multi(
                    &os,
                    |os, a, b| dominance_order(a, b, os.iter().map(|o| |a, b| o.fitness(a).total_cmp(&o.fitness(b)))),
                    move |os, m| os.iter().enumerate().map(|(idx, o)| o.estimate(m) * weights[idx]).sum(),
                );
            }
        }
    }
    b.build()
}

fn gctx_of(case: &Value) -> GenericResult<GoalContext> {
    let flags = i64s_of(&case["flags"]);
    let features: Vec<Feature> = flags
        .iter()
        .enumerate()
        .map(|(i, &f)| {
            let b = FeatureBuilder::default().with_name(&format!("f{}", i));
            if f != 0 { b.with_objective(IdxObjective(i)) } else { b.with_constraint(NoConstraint) }.build().unwrap()
        })
        .collect();
    let mut b = GoalContextBuilder::with_features(&features)?;
    if !case["main"].is_null() {
        b = b.set_main_goal(goal_of(&features, &case["main"])?);
    }
    for alt in case["alts"].as_array().unwrap() {
        b = b.add_alternative_goal(goal_of(&features, alt)?);
    }
    b.build()
}

/// follows a path of `Alternative::maybe_new` calls ([[hit, draw], ..]) from the built context
fn follow(gc: &GoalContext, path: &Value) -> GoalContext {
    path.as_array().unwrap().iter().fold(gc.clone(), |c, step| {
        c.maybe_new(&ScriptedRandom { hit: i64_of(&step[0]) != 0, draw: i64_of(&step[1]) as i32 })
    })
}

/// [[ab, ba, aa], fitness(a) bits, fitness(b) bits] of one context
fn observe(gc: &GoalContext, a: &InsertionContext, b: &InsertionContext) -> Vec<Value> {
    vec![
        json!([ord_of(gc.total_order(a, b)), ord_of(gc.total_order(b, a)), ord_of(gc.total_order(a, a))]),
        Value::Array(gc.fitness(a).map(bits_of).collect()),
        Value::Array(gc.fitness(b).map(bits_of).collect()),
    ]
}

/// NaN results of an arithmetic operation are reported as the one pattern 0x7FF8000000000000 (sign / payload of a produced NaN
/// depend on the operand order and on constant folding; no statement is about them)
fn cbits(x: f64) -> Value {
    if x.is_nan() { Value::String(0x7FF8000000000000u64.to_string()) } else { bits_of(x) }
}
fn cvec(c: &InsertionCost) -> Vec<Value> {
    c.iter().map(cbits).collect()
}
fn b2i(x: bool) -> i64 {
    x as i64
}

/// an insertion result from [kind, tag | code, cost bits]: kind 1 = success whose job is j<tag>, kind 0 = failure with the code
fn ires_of(p: &Arc<Problem>, v: &Value) -> InsertionResult {
    if i64_of(&v[0]) == 1 {
        let id = format!("j{}", i64_of(&v[1]));
        let job = p.jobs.all().iter().find(|j| j.dimens().get_job_id().is_some_and(|x| *x == id)).cloned().expect("job");
        let actor = p.fleet.actors.first().cloned().expect("actor");
        InsertionResult::Success(InsertionSuccess { cost: InsertionCost::new(&f64s_of(&v[2])), job, activities: vec![], actor })
    } else {
        InsertionResult::make_failure_with_code(ViolationCode(i64_of(&v[1]) as i32), false, None)
    }
}
fn ires_z(r: &InsertionResult) -> Vec<Value> {
    match r {
        InsertionResult::Success(s) => {
            let tag: i64 = s.job.dimens().get_job_id().unwrap()[1..].parse().unwrap();
            let mut out = vec![json!(1), json!(tag)];
            out.extend(s.cost.iter().map(bits_of));
            out
        }
        InsertionResult::Failure(f) => vec![json!(0), json!(f.constraint.0)],
    }
}

/// the estimate of a goal context for a route move of a solution whose state scripts the estimates: [1, bits..] or [-2] (panic)
fn estimate_row(gc: &GoalContext, p: &Arc<Problem>, est: &[Float]) -> Value {
    let mut ctx = InsertionContext::new_empty(p.clone(), Arc::new(Environment::default()));
    ctx.solution.state.set_value::<VerifEstimateKey, Vec<Float>>(est.to_vec());
    let route_ctx = ctx.solution.registry.next_route().next().expect("route").deep_copy();
    let job = p.jobs.all()[0].clone();
    let res = std::panic::catch_unwind(std::panic::AssertUnwindSafe(|| {
        let m = MC::route(&ctx.solution, &route_ctx, &job);
        gc.estimate(&m).iter().map(cbits).collect::<Vec<_>>()
    }));
    match res {
        Ok(v) => {
            let mut out = vec![json!(1)];
            out.extend(v);
            Value::Array(out)
        }
        Err(_) => json!([-2]),
    }
}

pub fn run_case(case: &Value) -> Value {
    let op = case["op"].as_str().unwrap();
    match op {
        "icost" => {
            let a = f64s_of(&case["a"]);
            let b = f64s_of(&case["b"]);
            let (ca, cb) = (InsertionCost::new(&a), InsertionCost::new(&b));
            let cmp = ord_of(ca.cmp(&cb));
            let eq = ca == cb;
            let add: Vec<Value> = (&ca + &cb).iter().map(bits_of).collect();
            let sub: Vec<Value> = (&ca - &cb).iter().map(bits_of).collect();
            let addsub: Vec<Value> = (&(&ca + &cb) - &cb).iter().map(bits_of).collect();
            let addsub_cmp = ord_of((&(&ca + &cb) - &cb).cmp(&ca));
            let subadd: Vec<Value> = (&(&ca - &cb) + &cb).iter().map(bits_of).collect();
            let subadd_cmp = ord_of((&(&ca - &cb) + &cb).cmp(&ca));
            // the by-value operators must agree with the by-reference ones
            let owned_same = (ca.clone() + &cb).cmp(&(&ca + &cb)) == std::cmp::Ordering::Equal
                && (ca.clone() - &cb).cmp(&(&ca - &cb)) == std::cmp::Ordering::Equal;
            // the whole comparison surface, Index, max_value, Default, iter / from_iter / into_iter
            let idx = case.get("idx").map(usize_of).unwrap_or(0);
            let at = std::panic::catch_unwind(std::panic::AssertUnwindSafe(|| ca[idx]));
            let max = InsertionCost::max_value();
            let def = InsertionCost::default();
            let pc = ca.partial_cmp(&cb).map(ord_of).unwrap_or(2);
            let round: InsertionCost = ca.iter().collect();
            let round2: Vec<Value> = round.clone().into_iter().map(bits_of).collect();
            let sel = BestResultSelector::default();
            let api = json!([
                [cmp, b2i(ca == cb), b2i(ca != cb), pc, b2i(ca < cb), b2i(ca <= cb), b2i(ca > cb), b2i(ca >= cb)],
                at.map(|x| vec![bits_of(x)]).unwrap_or_default(),
                [ord_of(ca.cmp(max)), ord_of(ca.cmp(&def)), ord_of(def.cmp(max))],
                round.iter().map(bits_of).collect::<Vec<_>>(),
                max.iter().map(bits_of).collect::<Vec<_>>(),
                def.iter().map(bits_of).collect::<Vec<_>>()
            ]);
            let select = [b2i(sel.select_cost(&ca, &cb).is_left()), b2i(sel.select_cost(&ca, max).is_left())];
            // + and - on every bit pattern (NaN results canonical), by reference and by value
            let arith = json!([cvec(&(&ca + &cb)), cvec(&(&ca - &cb)), cvec(&(&(&ca + &cb) - &cb)), cvec(&(&(&ca - &cb) + &cb))]);
            let owned = json!([cvec(&(ca.clone() + &cb)), cvec(&(ca.clone() - &cb)), cvec(&(ca.clone() + cb.clone())), cvec(&(ca.clone() - cb.clone())),
                               cvec(&(&ca + cb.clone())), cvec(&(&ca - cb.clone()))]);
            // Default is the neutral element: x + default, x - default, default + x, default - x
            let ident = json!([cvec(&(&ca + &def)), cvec(&(&ca - &def)), cvec(&(&def + &ca)), cvec(&(&def - &ca))]);
            json!({"cmp": cmp, "eq": eq, "add": add, "sub": sub, "addsub": addsub, "addsub_cmp": addsub_cmp,
                   "subadd": subadd, "subadd_cmp": subadd_cmp, "owned_same": owned_same, "ident": ident,
                   "api": api, "into_iter": round2, "select": select, "arith": arith, "owned": owned})
        }
        "icost3" => {
            // law oracle on the implementation: transitivity on a triple
            let a = InsertionCost::new(&f64s_of(&case["a"]));
            let b = InsertionCost::new(&f64s_of(&case["b"]));
            let c = InsertionCost::new(&f64s_of(&case["c"]));
            json!({"ab": ord_of(a.cmp(&b)), "bc": ord_of(b.cmp(&c)), "ac": ord_of(a.cmp(&c)),
                   "ba": ord_of(b.cmp(&a)), "aa": ord_of(a.cmp(&a))})
        }
        "goal" => {
            let layers = i64s_of(&case["layers"]);
            let goal = build_goal(&layers);
            PROBLEM.with(|p| {
                let fa = f64s_of(&case["a"]);
                let fb = f64s_of(&case["b"]);
                let a = empty_ctx(p, fa);
                let b = empty_ctx(p, fb);
                let ab = ord_of(goal.total_order(&a, &b));
                let ba = ord_of(goal.total_order(&b, &a));
                let aa = ord_of(goal.total_order(&a, &a));
                let fit_a: Vec<Value> = goal.fitness(&a).map(bits_of).collect();
                let fit_b: Vec<Value> = goal.fitness(&b).map(bits_of).collect();
                // the same through GoalContext (HeuristicObjective impl)
                let f = FeatureBuilder::default().with_name("f0").with_objective(IdxObjective(0)).build().unwrap();
                let gc = GoalContextBuilder::with_features(&[f]).unwrap().set_main_goal(goal.clone()).build().unwrap();
                let ab_ctx = ord_of(gc.total_order(&a, &b));
                json!({"ab": ab, "ba": ba, "aa": aa, "fit_a": fit_a, "fit_b": fit_b, "ab_ctx": ab_ctx})
            })
        }
        "gctx" => match gctx_of(case) {
            Err(e) => json!({"obs": [[-1, err_code(&e.to_string())]], "err": e.to_string()}),
            Ok(gc) => PROBLEM.with(|p| {
                let a = empty_ctx(p, f64s_of(&case["a"]));
                let b = empty_ctx(p, f64s_of(&case["b"]));
                let obs: Vec<Value> =
                    case["paths"].as_array().unwrap().iter().flat_map(|path| observe(&follow(&gc, path), &a, &b)).collect();
                let e = case.get("e").map(f64s_of).unwrap_or_default();
                let est: Vec<Value> =
                    case["paths"].as_array().unwrap().iter().map(|path| estimate_row(&follow(&gc, path), p, &e)).collect();
                json!({"obs": obs, "est": est})
            }),
        },
        "choose" => PROBLEM.with(|p| {
            // InsertionResult::choose_best_result folded over candidate results (accumulated result on the left), directly and
            // through BestResultSelector::select_insertion
            let ctx = empty_ctx(p, vec![]);
            let sel = BestResultSelector::default();
            let rs = case["rs"].as_array().unwrap();
            let direct = rs.iter().fold(ires_of(p, &case["init"]), |acc, r| InsertionResult::choose_best_result(acc, ires_of(p, r)));
            let via = rs.iter().fold(ires_of(p, &case["init"]), |acc, r| sel.select_insertion(&ctx, acc, ires_of(p, r)));
            json!({"chosen": ires_z(&direct), "via_selector": ires_z(&via)})
        }),
        "dominance" => {
            // orders: array of -1/0/1
            let orders = i64s_of(&case["orders"]);
            let fns = orders.iter().map(|&o| {
                move |_: &(), _: &()| match o {
                    -1 => std::cmp::Ordering::Less,
                    0 => std::cmp::Ordering::Equal,
                    _ => std::cmp::Ordering::Greater,
                }
            });
            json!({"ord": ord_of(dominance_order(&(), &(), fns))})
        }
        _ => panic!("unknown op"),
    }
}

fn main() {
    vh::main_loop(run_case);
}
