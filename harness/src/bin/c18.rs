//! C18: the real SlotMachine (recording sampler), random_argmax, Random::weighted, DynamicSelective (rewards via its
//! telemetry output), MaxGeneration/MaxTime/CompositeTermination::estimate and MinVariation::is_termination over a scripted
//! HeuristicContext.  Everything goes through the public API of rosomaxa.
use rosomaxa::algorithms::rl::{SlotAction, SlotFeedback, SlotMachine};
use rosomaxa::hyper::{DynamicSelective, HeuristicDiversifyOperators, HeuristicSearchOperators};
use rosomaxa::prelude::*;
use rosomaxa::termination::{CompositeTermination, MaxGeneration, MaxTime, MinVariation, TargetProximity};
use rosomaxa::utils::{random_argmax, DistributionSampler, Timer};
use serde_json::{json, Value};
use std::any::Any;
use std::cmp::Ordering;
use std::collections::HashMap;
use std::panic::{catch_unwind, AssertUnwindSafe};
use std::sync::{Arc, Mutex};
use vh::util::*;

// ------------------------------------------------------------------ slot machine with a recording sampler
#[derive(Clone)]
struct RecSampler {
    gamma_ret: Arc<Mutex<f64>>,
    normal_ret: f64,
    log: Arc<Mutex<Vec<(f64, f64, f64, f64)>>>,
    pending: Arc<Mutex<(f64, f64)>>,
}

impl DistributionSampler for RecSampler {
    fn gamma(&self, shape: Float, scale: Float) -> Float {
        *self.pending.lock().unwrap() = (shape, scale);
        *self.gamma_ret.lock().unwrap()
    }
    fn normal(&self, mean: Float, std_dev: Float) -> Float {
        let (shape, scale) = *self.pending.lock().unwrap();
        self.log.lock().unwrap().push((shape, scale, mean, std_dev));
        self.normal_ret
    }
}

#[derive(Clone)]
struct NoAction;
struct Fb(f64);
impl SlotFeedback for Fb {
    fn reward(&self) -> Float {
        self.0
    }
}
impl SlotAction for NoAction {
    type Context = f64;
    type Feedback = Fb;
    fn take(&self, context: Self::Context) -> Self::Feedback {
        Fb(context)
    }
}

fn params_json(m: &SlotMachine<NoAction, RecSampler>) -> Value {
    let (alpha, beta, mu, v, n) = m.get_params();
    json!([bits_of(alpha), bits_of(beta), bits_of(mu), bits_of(v), n])
}

fn op_slot(case: &Value) -> Value {
    let prior = f64_of(&case["prior"]);
    let rewards = f64s_of(&case["rewards"]);
    let stride = usize_of(&case["stride"]).max(1);
    // samples: [[k, gamma_bits], ..] sample() is called after k updates with the sampler returning that gamma value
    let samples: Vec<(usize, f64)> = case["samples"]
        .as_array()
        .map(|a| a.iter().map(|s| (usize_of(&s[0]), f64_of(&s[1]))).collect())
        .unwrap_or_default();
    let sampler = RecSampler {
        gamma_ret: Arc::new(Mutex::new(1.)),
        normal_ret: 0.5,
        log: Arc::new(Mutex::new(vec![])),
        pending: Arc::new(Mutex::new((0., 0.))),
    };
    let mut m = SlotMachine::new(prior, NoAction, sampler.clone());
    let mut trace = vec![];
    let mut sample_out = vec![];
    let do_samples = |k: usize, m: &SlotMachine<NoAction, RecSampler>, out: &mut Vec<Value>| {
        for (at, g) in samples.iter() {
            if *at == k {
                *sampler.gamma_ret.lock().unwrap() = *g;
                sampler.log.lock().unwrap().clear();
                let ret = m.sample();
                let log = sampler.log.lock().unwrap();
                let (a, b, c, d) = log[0];
                out.push(json!({"k": k, "args": [bits_of(a), bits_of(b), bits_of(c), bits_of(d)], "ret": bits_of(ret), "calls": log.len()}));
            }
        }
    };
    for (k, r) in rewards.iter().enumerate() {
        if k % stride == 0 {
            trace.push(params_json(&m));
        }
        do_samples(k, &m, &mut sample_out);
        // play() hands the context to the action, whose feedback is the reward: exercised to stay on the public path
        let fb = m.play(*r);
        m.update(&fb);
    }
    trace.push(params_json(&m));
    do_samples(rewards.len(), &m, &mut sample_out);
    json!({"trace": trace, "samples": sample_out})
}

// ------------------------------------------------------------------ random_argmax / weighted
fn op_argmax(case: &Value) -> Value {
    let vals = f64s_of(&case["vals"]);
    let reps = usize_of(&case["reps"]).max(1);
    let random = if case["randomized"].as_bool().unwrap_or(false) { DefaultRandom::default() } else { DefaultRandom::new_repeatable() };
    let res: Vec<Value> = (0..reps)
        .map(|_| match random_argmax(vals.iter().cloned(), &random) {
            Some(i) => json!(i),
            None => json!(-1),
        })
        .collect();
    json!({"res": res})
}

fn op_weighted(case: &Value) -> Value {
    let ws: Vec<usize> = i64s_of(&case["weights"]).into_iter().map(|w| w as usize).collect();
    let reps = usize_of(&case["reps"]).max(1);
    let random = DefaultRandom::new_repeatable();
    let res: Vec<Value> = (0..reps).map(|_| json!(random.weighted(ws.as_slice()))).collect();
    json!({"res": res})
}

// ------------------------------------------------------------------ scripted heuristic context
struct Sol {
    fit: Vec<f64>,
}
impl HeuristicSolution for Sol {
    fn fitness(&self) -> impl Iterator<Item = Float> {
        self.fit.iter().cloned()
    }
    fn deep_copy(&self) -> Self {
        Sol { fit: self.fit.clone() }
    }
}

/// lexicographic order on the fitness vector (smaller is better), the order single-objective layers produce
struct Lex;
impl HeuristicObjective for Lex {
    type Solution = Sol;
    fn total_order(&self, a: &Sol, b: &Sol) -> Ordering {
        for (x, y) in a.fit.iter().zip(b.fit.iter()) {
            match x.partial_cmp(y) {
                Some(Ordering::Equal) | None => continue,
                Some(o) => return o,
            }
        }
        Ordering::Equal
    }
}

struct Ctx {
    objective: Lex,
    best: Option<Sol>,
    stats: HeuristicStatistics,
    phase: i64,
    env: Environment,
    state: HashMap<usize, Box<dyn Any + Send + Sync>>,
}

impl Ctx {
    fn new(experimental: bool) -> Self {
        let env = Environment { random: Arc::new(DefaultRandom::new_repeatable()), is_experimental: experimental, ..Environment::default() };
        Ctx { objective: Lex, best: None, stats: HeuristicStatistics::default(), phase: 1, env, state: HashMap::new() }
    }
}

impl HeuristicContext for Ctx {
    type Objective = Lex;
    type Solution = Sol;
    fn objective(&self) -> &Lex {
        &self.objective
    }
    fn selected(&self) -> Box<dyn Iterator<Item = &'_ Sol> + '_> {
        Box::new(self.best.iter())
    }
    fn ranked(&self) -> Box<dyn Iterator<Item = &'_ Sol> + '_> {
        Box::new(self.best.iter())
    }
    fn statistics(&self) -> &HeuristicStatistics {
        &self.stats
    }
    fn selection_phase(&self) -> SelectionPhase {
        match self.phase {
            0 => SelectionPhase::Initial,
            1 => SelectionPhase::Exploration,
            _ => SelectionPhase::Exploitation,
        }
    }
    fn environment(&self) -> &Environment {
        &self.env
    }
    fn on_initial(&mut self, _: Sol, _: Timer) {}
    fn on_generation(&mut self, _: Vec<Sol>, _: Float, _: Timer) {}
    fn on_result(self) -> HeuristicResult<Lex, Sol> {
        Err("not used".into())
    }
}

impl Stateful for Ctx {
    type Key = usize;
    fn set_state<T: 'static + Send + Sync>(&mut self, key: usize, state: T) {
        self.state.insert(key, Box::new(state));
    }
    fn get_state<T: 'static + Send + Sync>(&self, key: &usize) -> Option<&T> {
        self.state.get(key).and_then(|v| v.downcast_ref::<T>())
    }
    fn state_mut<T: 'static + Send + Sync, F: Fn() -> T>(&mut self, key: usize, inserter: F) -> &mut T {
        self.state.entry(key).or_insert_with(|| Box::new(inserter())).downcast_mut::<T>().unwrap()
    }
}

fn opt_fit(v: &Value) -> Option<Vec<f64>> {
    if v.is_null() {
        None
    } else {
        Some(f64s_of(v))
    }
}

// ------------------------------------------------------------------ DynamicSelective: rewards through telemetry
struct ScriptedOp {
    next: Arc<Mutex<Vec<f64>>>,
    sleep_ms: Arc<Mutex<u64>>,
}
impl HeuristicSearchOperator for ScriptedOp {
    type Context = Ctx;
    type Objective = Lex;
    type Solution = Sol;
    fn search(&self, _: &Ctx, _: &Sol) -> Sol {
        let ms = *self.sleep_ms.lock().unwrap();
        if ms > 0 {
            std::thread::sleep(std::time::Duration::from_millis(ms));
        }
        Sol { fit: self.next.lock().unwrap().clone() }
    }
}

fn parse_f(s: &str) -> f64 {
    match s {
        "inf" => f64::INFINITY,
        "-inf" => f64::NEG_INFINITY,
        "NaN" => f64::NAN,
        _ => s.parse::<f64>().expect("float in telemetry"),
    }
}

fn telemetry(ds: &DynamicSelective<Ctx, Lex, Sol>) -> (Vec<Value>, Vec<Value>) {
    let text = format!("{ds}");
    let mut search = vec![];
    let mut heur = vec![];
    let mut mode = 0;
    for line in text.lines() {
        if line.starts_with("name,generation") {
            mode = 1;
            continue;
        }
        if line.starts_with("generation,state") {
            mode = 2;
            continue;
        }
        if line.ends_with(':') || line == "TELEMETRY" {
            continue;
        }
        let f: Vec<&str> = line.split(',').collect();
        if mode == 1 && f.len() == 6 {
            search.push(json!({"name": f[0], "generation": f[1].parse::<u64>().unwrap(), "reward": bits_of(parse_f(f[2])),
                               "from": f[3], "to": f[4], "duration": f[5].parse::<u64>().unwrap()}));
        }
        if mode == 2 && f.len() == 8 {
            heur.push(json!({"generation": f[0].parse::<u64>().unwrap(), "state": f[1], "name": f[2],
                             "alpha": bits_of(parse_f(f[3])), "beta": bits_of(parse_f(f[4])), "mu": bits_of(parse_f(f[5])),
                             "v": bits_of(parse_f(f[6])), "n": f[7].parse::<u64>().unwrap()}));
        }
    }
    (search, heur)
}

fn op_reward(case: &Value) -> Value {
    let nops = usize_of(&case["nops"]);
    let next = Arc::new(Mutex::new(vec![]));
    let sleep_ms = Arc::new(Mutex::new(0u64));
    let mut ctx = Ctx::new(true);
    let ops: HeuristicSearchOperators<Ctx, Lex, Sol> =
        (0..nops).map(|k| (Arc::new(ScriptedOp { next: next.clone(), sleep_ms: sleep_ms.clone() }) as Arc<_>, format!("op{k}"), 1.)).collect();
    let div: HeuristicDiversifyOperators<Ctx, Lex, Sol> = vec![];
    let mut ds = DynamicSelective::new(ops, div, &ctx.env);
    let steps = case["steps"].as_array().unwrap();
    let mut panic_at = Value::Null;
    for (k, st) in steps.iter().enumerate() {
        ctx.best = opt_fit(&st["best"]).map(|fit| Sol { fit });
        ctx.stats.generation = k;
        ctx.stats.improvement_1000_ratio = f64_of(&st["ratio"]);
        *next.lock().unwrap() = f64s_of(&st["new"]);
        *sleep_ms.lock().unwrap() = st["sleep_ms"].as_u64().unwrap_or(0);
        let init = Sol { fit: f64s_of(&st["init"]) };
        let many = st["many"].as_bool().unwrap_or(false);
        let r = catch_unwind(AssertUnwindSafe(|| {
            let out = if many { ds.search_many(&ctx, vec![&init]) } else { ds.search(&ctx, &init) };
            out.len()
        }));
        match r {
            Ok(n) => assert_eq!(n, 1),
            Err(e) => {
                let msg = e.downcast_ref::<String>().cloned().or_else(|| e.downcast_ref::<&str>().map(|s| s.to_string())).unwrap_or_default();
                panic_at = json!({"step": k, "msg": msg});
                break;
            }
        }
    }
    let (search, heur) = telemetry(&ds);
    json!({"search": search, "params": heur, "panic_at": panic_at})
}

// ------------------------------------------------------------------ termination
fn op_estimate(case: &Value) -> Value {
    // parts: [["gen", limit] | ["time", limit_bits] | ["minvar"] | ["target"]]
    let mut ctx = Ctx::new(false);
    ctx.stats.generation = usize_of(&case["generation"]);
    ctx.best = Some(Sol { fit: vec![1.] });
    let mut singles = vec![];
    let mut boxed: Vec<Box<dyn Termination<Context = Ctx, Objective = Lex>>> = vec![];
    for p in case["parts"].as_array().unwrap() {
        let kind = p[0].as_str().unwrap();
        let t: Box<dyn Termination<Context = Ctx, Objective = Lex>> = match kind {
            "gen" => Box::new(MaxGeneration::<Ctx, Lex, Sol>::new(usize_of(&p[1]))),
            "time" => Box::new(MaxTime::<Ctx, Lex, Sol>::new(f64_of(&p[1]))),
            "minvar" => Box::new(MinVariation::<Ctx, Lex, Sol, usize>::new_with_sample(3, 0.1, true, 7)),
            _ => Box::new(TargetProximity::<Ctx, Lex, Sol>::new(vec![1.], 0.5)),
        };
        singles.push(bits_of(t.estimate(&ctx)));
        boxed.push(t);
    }
    let composite = CompositeTermination::new(boxed);
    let est = composite.estimate(&ctx);
    let fired = composite.is_termination(&mut ctx);
    json!({"singles": singles, "composite": bits_of(est), "fired": fired})
}

fn op_minvar(case: &Value) -> Value {
    let sample = usize_of(&case["sample"]);
    let thr = f64_of(&case["thr"]);
    let is_global = case["global"].as_bool().unwrap();
    let t = MinVariation::<Ctx, Lex, Sol, usize>::new_with_sample(sample, thr, is_global, 0);
    let mut ctx = Ctx::new(false);
    let mut out = vec![];
    for st in case["steps"].as_array().unwrap() {
        ctx.stats.generation = usize_of(&st["gen"]);
        ctx.phase = i64_of(&st["phase"]);
        ctx.best = opt_fit(&st["fit"]).map(|fit| Sol { fit });
        out.push(json!(t.is_termination(&mut ctx)));
    }
    json!({"fired": out})
}

pub fn run_case(case: &Value) -> Value {
    match case["op"].as_str().unwrap() {
        "slot" => op_slot(case),
        "argmax" => op_argmax(case),
        "weighted" => op_weighted(case),
        "reward" => op_reward(case),
        "estimate" => op_estimate(case),
        "minvar" => op_minvar(case),
        _ => panic!("unknown op"),
    }
}

fn main() {
    vh::main_loop(run_case);
}
