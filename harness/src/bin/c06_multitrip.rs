//! C06 sub-stream `c06_multitrip`: the real multi-trip (reload) / multi-dimensional capacity code on tours built through
//! the public API.  Per case: one tour (with reload marker activities), a list of candidate jobs (static delivery / pickup /
//! exchange, shipment = Multi job with dynamic demand, the reload marker job itself) and for each candidate
//!   * the route-level verdict of the goal (MoveContext::route),
//!   * the activity-level verdict of the goal for EVERY leg (MoveContext::activity; first place / first window),
//!   * eval_job_insertion_in_route for the requested positions and, on success, the tour that results from REALLY applying
//!     the insertion to a deep copy of the route (activities inserted, accept_route_state): visiting order, intervals, states;
//! plus the cached state of the tour itself (RouteState::verif_digest: intervals, current / max-past / max-future load),
//! the outcome of accept_solution_state on a copy (marker jobs promoted to `required` = is_new_interval_needed; a marker removed
//! from the tour = is_obsolete_interval / remove_trivial_markers) and goal.merge on pairs of candidates.
use serde_json::{json, Value};
use std::ops::Mul;
use std::sync::Arc;
use vh::core::*;
use vh::util::*;
use vrp_core::construction::features::*;
use vrp_core::construction::heuristics::*;
use vrp_core::models::common::*;
use vrp_core::models::problem::*;
use vrp_core::models::solution::{Activity, Place as ActPlace};
use vrp_core::models::*;
use vrp_core::prelude::SimpleTransportCost;
use vrp_core::rosomaxa::HeuristicSolution;
use vrp_pragmatic::format::{JobTypeDimension, ShiftIndexDimension};

/// how a load value is made from the integers of a case and rendered back
trait CaseLoad: LoadOps + SharedResource + Mul<f64, Output = Self> {
    fn make(data: &[i64]) -> Self;
    fn render(&self) -> Value;
    /// gives the vehicle a capacity of ANOTHER load type, so that get_vehicle_capacity::<Self>() is None
    fn foreign_capacity(dimens: &mut Dimensions);
}

impl CaseLoad for SingleDimLoad {
    fn make(data: &[i64]) -> Self {
        SingleDimLoad::new(data.first().copied().unwrap_or(0) as i32)
    }
    fn render(&self) -> Value {
        json!([self.value])
    }
    fn foreign_capacity(dimens: &mut Dimensions) {
        dimens.set_vehicle_capacity(MultiDimLoad::new(vec![1000]));
    }
}

impl CaseLoad for MultiDimLoad {
    fn make(data: &[i64]) -> Self {
        MultiDimLoad::new(data.iter().map(|x| *x as i32).collect())
    }
    fn render(&self) -> Value {
        json!({"load": self.load.to_vec(), "size": self.size})
    }
    fn foreign_capacity(dimens: &mut Dimensions) {
        dimens.set_vehicle_capacity(SingleDimLoad::new(1000));
    }
}

fn is_reload_single(single: &Single) -> bool {
    single.dimens.get_job_type().is_some_and(|job_type| job_type == "reload")
}

/// one component of a demand: null = the type's default (what the pragmatic reader calls `empty()`), else the listed amounts
fn load_of<T: CaseLoad>(v: &Value) -> T {
    if v.is_null() {
        T::default()
    } else {
        T::make(&i64s_of(v))
    }
}

/// "dem": null (no demand dimension) | [pickup static, pickup dynamic, delivery static, delivery dynamic]
fn set_demand<T: CaseLoad>(dimens: &mut Dimensions, v: &Value) {
    if !v.is_null() {
        dimens.set_job_demand(Demand::<T> {
            pickup: (load_of::<T>(&v[0]), load_of::<T>(&v[1])),
            delivery: (load_of::<T>(&v[2]), load_of::<T>(&v[3])),
        });
    }
}

/// a single job: {"id", "places": [...], "dem", "kind": "job" | "reload", "vehicle": "v0"}
fn single_job<T: CaseLoad>(v: &Value) -> Single {
    let mut dimens = Dimensions::default();
    dimens.set_job_id(format!("j{}", i64_of(&v["id"])));
    set_demand::<T>(&mut dimens, &v["dem"]);
    if v["kind"].as_str() == Some("reload") {
        dimens.set_job_type("reload".to_string());
        dimens.set_shift_index(0);
        dimens.set_vehicle_id(v["vehicle"].as_str().unwrap_or("v0").to_string());
    }
    Single { places: v["places"].as_array().unwrap().iter().map(place_of).collect(), dimens }
}

/// a tour activity description {job, loc, svc, tws, twe, dem, kind} as a single-place single-window job
fn single_act<T: CaseLoad>(v: &Value) -> Single {
    let mut dimens = Dimensions::default();
    dimens.set_job_id(format!("j{}", i64_of(&v["job"])));
    set_demand::<T>(&mut dimens, &v["dem"]);
    if v["kind"].as_str() == Some("reload") {
        dimens.set_job_type("reload".to_string());
        dimens.set_shift_index(0);
        dimens.set_vehicle_id("v0".to_string());
    }
    Single {
        places: vec![Place {
            location: Some(usize_of(&v["loc"])),
            duration: t_of(&v["svc"]),
            times: vec![TimeSpan::Window(TimeWindow::new(t_of(&v["tws"]), t_of(&v["twe"])))],
        }],
        dimens,
    }
}

fn candidate<T: CaseLoad>(v: &Value) -> Job {
    if v["multi"].is_null() {
        Job::Single(Arc::new(single_job::<T>(v)))
    } else {
        let mut b = MultiBuilder::default().id(&format!("m{}", i64_of(&v["id"])));
        for s in v["multi"].as_array().unwrap().iter().map(single_job::<T>) {
            b = b.add_job(s);
        }
        b.build_as_job().unwrap()
    }
}

fn singles_of(job: &Job) -> Vec<Arc<Single>> {
    match job {
        Job::Single(s) => vec![s.clone()],
        Job::Multi(m) => m.jobs.clone(),
    }
}

fn verdict(v: Option<ConstraintViolation>) -> Value {
    match v {
        None => Value::Null,
        Some(v) => json!([v.code.0, v.stopped]),
    }
}

fn tour_ids(route_ctx: &RouteContext) -> Vec<Value> {
    route_ctx
        .route()
        .tour
        .all_activities()
        .map(|a| match &a.job {
            None => json!(-1),
            Some(s) => json!(s.dimens.get_job_id().map(|id| id[1..].parse::<i64>().unwrap()).unwrap_or(-2)),
        })
        .collect()
}

fn demand_out<T: CaseLoad>(job: &Job) -> Value {
    match job.as_single().and_then(|s| s.dimens.get_job_demand::<T>()) {
        None => Value::Null,
        Some(d) => json!([d.pickup.0.render(), d.pickup.1.render(), d.delivery.0.render(), d.delivery.1.render()]),
    }
}

fn run<T: CaseLoad>(case: &Value) -> Value {
    let tour_desc = case["tour"].as_array().unwrap();
    let tour_singles: Vec<Arc<Single>> = tour_desc.iter().map(|a| Arc::new(single_act::<T>(a))).collect();
    let cands: Vec<Job> = case["cands"].as_array().unwrap().iter().map(candidate::<T>).collect();
    let mut jobs: Vec<Job> = tour_singles.iter().map(|s| Job::Single(s.clone())).collect();
    jobs.extend(cands.iter().cloned());

    // vehicle: as in the other core harnesses, the capacity dimension is replaced by the load type of this case
    let mut vehicle = vehicle_of(&json!({"start": case["veh"]["start"], "end": case["veh"]["end"], "shift_start": case["veh"]["shift_start"],
        "shift_end": case["veh"]["shift_end"], "cap": 0, "costs": case["veh"]["costs"]}), "v0");
    let cap = if case["veh"]["cap"].is_null() { None } else { Some(T::make(&i64s_of(&case["veh"]["cap"]))) };
    match cap {
        Some(cap) => {
            vehicle.dimens.set_vehicle_capacity(cap);
        }
        None => {
            T::foreign_capacity(&mut vehicle.dimens);
        }
    }
    vehicle.dimens.set_shift_index(0);

    // goal: [minimize cost (transport, code 1); capacity (code 2) with or without reload intervals]
    let n = usize_of(&case["n"]);
    let dur: Vec<f64> = i64s_of(&case["dur"]).into_iter().map(|x| x as f64).collect();
    let dist: Vec<f64> = i64s_of(&case["dist"]).into_iter().map(|x| x as f64).collect();
    assert_eq!(dur.len(), n * n);
    let transport: Arc<dyn TransportCost> = Arc::new(SimpleTransportCost::new(dur, dist).unwrap());
    let tf = TransportFeatureBuilder::new("transport")
        .set_transport_cost(transport.clone())
        .set_violation_code(ViolationCode(1))
        .build_minimize_cost()
        .unwrap();
    let capacity = if case["reloads"].as_bool().unwrap_or(true) {
        ReloadFeatureFactory::<T>::new("capacity")
            .set_capacity_code(ViolationCode(2))
            .set_load_schedule_threshold(|capacity: &T| *capacity * 0.9)
            .set_is_reload_single(is_reload_single)
            .set_belongs_to_route(|route, job| {
                job.as_single().is_some_and(|single| {
                    is_reload_single(single.as_ref())
                        && single.dimens.get_vehicle_id() == route.actor.vehicle.dimens.get_vehicle_id()
                        && single.dimens.get_shift_index() == route.actor.vehicle.dimens.get_shift_index()
                })
            })
            .build_simple()
            .unwrap()
    } else {
        CapacityFeatureBuilder::<T>::new("capacity").set_violation_code(ViolationCode(2)).build().unwrap()
    };
    let goal = GoalContextBuilder::with_features(&[tf, capacity]).unwrap().build().unwrap();
    let problem = Arc::new(
        ProblemBuilder::default()
            .add_jobs(jobs.into_iter())
            .add_vehicles(vec![vehicle].into_iter())
            .with_goal(goal)
            .with_transport_cost(transport.clone())
            .build()
            .unwrap(),
    );
    let world = World { problem: problem.clone(), transport };
    let mut ctx = new_ctx(&world);
    let acts: Vec<(Value, Arc<Single>)> = tour_desc.iter().cloned().zip(tour_singles.iter().cloned()).collect();
    let ridx = add_route(&mut ctx, 0, &acts);
    // the tour's own jobs are assigned; the candidates stay in `required`
    let in_tour: Vec<Job> = tour_singles.iter().map(|s| Job::Single(s.clone())).collect();
    ctx.solution.required.retain(|j| !in_tour.contains(j));

    let threshold = cap.map(|c| (c * 0.9).render());
    let before = dump_schedule(&ctx.solution.routes[ridx]);
    let digest = ctx.solution.routes[ridx].state().verif_digest();

    let selector = BestResultSelector::default();
    let mut out_cands = Vec::new();
    for (ci, cand) in cands.iter().enumerate() {
        let route_ctx = &ctx.solution.routes[ridx];
        let goal = &problem.goal;
        let route_v = verdict(goal.evaluate(&MoveContext::route(&ctx.solution, route_ctx, cand)));

        // activity level, every leg, every sub-job (first place, first window)
        let mut probes = Vec::new();
        for (si, single) in singles_of(cand).iter().enumerate() {
            for (items, index) in route_ctx.route().tour.legs() {
                let (prev, next) = match items {
                    [prev] => (prev, None),
                    [prev, next] => (prev, Some(next)),
                    _ => continue,
                };
                let place = &single.places[0];
                let start_time = route_ctx.route().tour.start().map_or(0., |act| act.schedule.departure);
                let mut target = Activity::new_with_job(single.clone());
                target.place = ActPlace {
                    idx: 0,
                    location: place.location.unwrap_or(prev.place.location),
                    duration: place.duration,
                    time: place.times[0].to_time_window(start_time),
                };
                let activity_ctx = ActivityContext { index, prev, target: &target, next };
                let v = goal.evaluate(&MoveContext::activity(&ctx.solution, route_ctx, &activity_ctx));
                probes.push(json!([si, index, verdict(v)]));
            }
        }

        // the evaluator itself
        let mut evals = Vec::new();
        for pos in case["cands"][ci]["pos"].as_array().cloned().unwrap_or_default() {
            let position = match &pos {
                Value::String(s) if s == "any" => InsertionPosition::Any,
                Value::String(s) if s == "last" => InsertionPosition::Last,
                v => InsertionPosition::Concrete(usize_of(&v[1])),
            };
            let eval_ctx = EvaluationContext {
                goal,
                job: cand,
                leg_selection: &LegSelection::Exhaustive,
                result_selector: &selector,
            };
            let result = eval_job_insertion_in_route(&ctx, &eval_ctx, route_ctx, position, InsertionResult::make_failure());
            let res = match result {
                InsertionResult::Success(s) => {
                    let acts: Vec<Value> = s
                        .activities
                        .iter()
                        .map(|(a, idx)| {
                            json!({"index": idx,
                                   "job": a.job.as_ref().and_then(|s| s.dimens.get_job_id().map(|id| id[1..].parse::<i64>().unwrap())),
                                   "place": a.place.idx, "loc": a.place.location, "svc": t_out(a.place.duration),
                                   "tws": t_out(a.place.time.start), "twe": t_out(a.place.time.end)})
                        })
                        .collect();
                    // carry the placement out on a copy of the route
                    let mut copy = route_ctx.deep_copy();
                    for (a, idx) in s.activities.iter() {
                        copy.route_mut().tour.insert_at(a.deep_copy(), idx + 1);
                    }
                    goal.accept_route_state(&mut copy);
                    let after = json!({"tour": tour_ids(&copy), "digest": copy.state().verif_digest(),
                                       "sched": dump_schedule(&copy)["sched"]});
                    json!({"pos": pos, "ok": true, "cost": s.cost.iter().map(t_out).collect::<Vec<_>>(), "acts": acts, "after": after})
                }
                InsertionResult::Failure(f) => json!({"pos": pos, "ok": false, "code": f.constraint.0, "stopped": f.stopped}),
            };
            evals.push(res);
        }
        out_cands.push(json!({"route": route_v, "probes": probes, "evals": evals}));
    }

    // solution level: accept_solution_state on a copy; unassigned marker jobs wait in `ignored`
    let sol = {
        let mut copy = ctx.deep_copy();
        let markers: Vec<Job> =
            cands.iter().filter(|j| j.as_single().is_some_and(|s| is_reload_single(s.as_ref()))).cloned().collect();
        copy.solution.required.clear();
        copy.solution.ignored = markers.clone();
        problem.goal.accept_solution_state(&mut copy.solution);
        let ids = |jobs: &[Job]| -> Vec<Value> {
            let mut v: Vec<i64> = jobs
                .iter()
                .filter(|j| markers.contains(j))
                .map(|j| job_id(j)[1..].parse::<i64>().unwrap())
                .collect();
            v.sort();
            v.into_iter().map(|x| json!(x)).collect()
        };
        json!({"required": ids(&copy.solution.required), "ignored": ids(&copy.solution.ignored),
               "tour": tour_ids(&copy.solution.routes[ridx])})
    };

    // merge of candidate pairs (single jobs only carry a demand we can render)
    let mut merges = Vec::new();
    for pair in case["merge"].as_array().cloned().unwrap_or_default() {
        let (a, b) = (usize_of(&pair[0]), usize_of(&pair[1]));
        let r = match problem.goal.merge(cands[a].clone(), cands[b].clone()) {
            Ok(job) => json!({"ok": true, "dem": demand_out::<T>(&job), "id": job_id(&job)[1..].parse::<i64>().unwrap_or(-2)}),
            Err(code) => json!({"ok": false, "code": code.0}),
        };
        merges.push(json!([a, b, r]));
    }

    json!({"before": before, "digest": digest, "tour": tour_ids(&ctx.solution.routes[ridx]), "cands": out_cands, "sol": sol,
           "merge": merges, "threshold": threshold})
}

fn run_case(case: &Value) -> Value {
    match case["load"].as_str().unwrap_or("multi") {
        "single" => run::<SingleDimLoad>(case),
        _ => run::<MultiDimLoad>(case),
    }
}

fn main() {
    vh::main_loop(run_case);
}
