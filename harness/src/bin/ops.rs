//! C04 / C05: operator-level harness.  One case = a problem built through the core API + a HISTORY of real search
//! operators (every public Ruin / Recreate / LocalOperator / HeuristicSearchOperator) driven by a scripted Random.
//! After every step the whole solution context is dumped (homes of jobs, registry, tours with schedules, cached
//! route/solution state digests) together with the same quantities recomputed from the bare tours, and the dump of the
//! PARENT taken before and after the call is compared.  With `observe`, the insertion observer hook additionally
//! compares cached vs recomputed state after every single applied insertion.
use serde_json::{json, Value};
use std::cell::RefCell;
use std::collections::HashMap;
use std::rc::Rc;
use std::sync::atomic::{AtomicU64, Ordering as AtomicOrdering};
use std::sync::Arc;
use vh::core::{demand_of, place_of, t_of, t_out};
use vh::util::*;
use vrp_core::construction::features::*;
use vrp_core::construction::heuristics::*;
use vrp_core::models::common::*;
use vrp_core::models::problem::*;
use vrp_core::models::solution::{Activity, Route};
use vrp_core::models::*;
use vrp_core::prelude::{GenericResult, SimpleTransportCost};
use vrp_core::rosomaxa::evolution::TelemetryMode;
use vrp_core::rosomaxa::prelude::*;
use vrp_core::rosomaxa::utils::{Noise, Parallelism, Quota, RandomGen};
use vrp_core::solver::search::*;
use vrp_core::solver::*;
use vrp_core::utils::Either;

// ------------------------------------------------------------------ scripted randomness
/// rosomaxa's public `Random` implemented deterministically from splitmix64.  `get_rng` has to return rosomaxa's own
/// `RandomGen` (private constructor fields): the repeatable variant is a thread-local SmallRng seeded with 0, which is
/// fresh here because every case runs in its own thread.
struct ScriptedRandom {
    state: AtomicU64,
    /// optional record of every call with its result (case flag `trace`, taken per history step; C04 stream `c04_ops`
    /// feeds the draws of the real run to the operator programs of the Coq model)
    log: std::sync::Mutex<Option<Vec<Value>>>,
}

impl ScriptedRandom {
    fn new(seed: u64) -> Self {
        Self { state: AtomicU64::new(seed), log: std::sync::Mutex::new(None) }
    }
    fn start_log(&self) {
        *self.log.lock().unwrap() = Some(vec![]);
    }
    fn take_log(&self) -> Vec<Value> {
        self.log.lock().unwrap().take().unwrap_or_default()
    }
    fn record(&self, entry: Value) {
        if let Some(log) = self.log.lock().unwrap().as_mut() {
            if log.len() < 4000 {
                log.push(entry);
            }
        }
    }
    fn next(&self) -> u64 {
        let s = self.state.fetch_add(0x9E3779B97F4A7C15, AtomicOrdering::SeqCst).wrapping_add(0x9E3779B97F4A7C15);
        let mut z = s;
        z = (z ^ (z >> 30)).wrapping_mul(0xBF58476D1CE4E5B9);
        z = (z ^ (z >> 27)).wrapping_mul(0x94D049BB133111EB);
        z ^ (z >> 31)
    }
    fn unit(&self) -> f64 {
        (self.next() >> 11) as f64 / (1u64 << 53) as f64
    }
}

impl Random for ScriptedRandom {
    fn uniform_int(&self, min: i32, max: i32) -> i32 {
        if min == max {
            self.record(json!(["ui", min, max, min]));
            return min;
        }
        assert!(min < max);
        let r = min + (self.next() % ((max as i64 - min as i64 + 1) as u64)) as i32;
        self.record(json!(["ui", min, max, r]));
        r
    }
    fn uniform_real(&self, min: Float, max: Float) -> Float {
        if (min - max).abs() < Float::EPSILON {
            self.record(json!(["ur", format!("{:?}", min), format!("{:?}", max), format!("{:?}", min)]));
            return min;
        }
        assert!(min < max);
        let r = min + self.unit() * (max - min);
        self.record(json!(["ur", format!("{:?}", min), format!("{:?}", max), format!("{:?}", r)]));
        r
    }
    fn is_head_not_tails(&self) -> bool {
        let r = self.next() & 1 == 1;
        self.record(json!(["hnt", r]));
        r
    }
    fn is_hit(&self, probability: Float) -> bool {
        let r = self.unit() < probability.clamp(0., 1.);
        self.record(json!(["hit", format!("{:?}", probability), r]));
        r
    }
    fn weighted(&self, weights: &[usize]) -> usize {
        let r = weights
            .iter()
            .zip(0_usize..)
            .map(|(&weight, index)| (-self.uniform_real(0., 1.).max(1e-300).ln() / weight as Float, index))
            .min_by(|a, b| a.0.partial_cmp(&b.0).unwrap())
            .unwrap()
            .1;
        self.record(json!(["w", weights.len(), r]));
        r
    }
    fn get_rng(&self) -> RandomGen {
        RandomGen::new_repeatable()
    }
}

// ------------------------------------------------------------------ problem
/// A computational quota the history can arm per step: it is reached from its k-th poll on (k drawn per step, or never),
/// so a step is interrupted in the middle, after it has already applied insertions.
struct StepQuota {
    limit: std::sync::atomic::AtomicI64,
    calls: std::sync::atomic::AtomicI64,
}

impl StepQuota {
    fn arm(&self, limit: i64) {
        self.calls.store(0, AtomicOrdering::SeqCst);
        self.limit.store(limit, AtomicOrdering::SeqCst);
    }
}

impl Quota for StepQuota {
    fn is_reached(&self) -> bool {
        let limit = self.limit.load(AtomicOrdering::SeqCst);
        limit >= 0 && self.calls.fetch_add(1, AtomicOrdering::SeqCst) >= limit
    }
}

struct Built {
    problem: Arc<Problem>,
    env: Arc<Environment>,
    quota: Arc<StepQuota>,
    vidx: HashMap<String, i64>,
    names: Vec<&'static str>, // objective layer names, in goal order
    shared: Option<Feature>,  // C05 stream `shared`: the shared-resource reload feature (its constraint is the read-out of the cached availability)
    rnd: Arc<ScriptedRandom>, // the same generator as env.random, kept for its call log (case flag `trace`)
    full_rebuild: bool,       // C05 stream `c05_feat` (case key `feat`): "recompute" keeps the pending lists AND runs the route-level handlers
}

fn jid_of(s: &str) -> i64 {
    s.trim_start_matches('j').split('.').next().and_then(|x| x.parse().ok()).unwrap_or(-2)
}

fn job_num(job: &Job) -> i64 {
    job.dimens().get_job_id().map(|s| jid_of(s)).unwrap_or(-2)
}

fn single_from(v: &Value, id: String, top: &Value) -> Single {
    let mut dimens = Dimensions::default();
    dimens.set_job_id(id);
    if !v["dem"].is_null() {
        dimens.set_job_demand(demand_of(&v["dem"]));
    }
    set_tags(&mut dimens, top);
    Single { places: v["places"].as_array().unwrap().iter().map(place_of).collect(), dimens }
}

fn set_tags(dimens: &mut Dimensions, v: &Value) {
    if let Some(c) = v["compat"].as_str() {
        dimens.set_job_compatibility(c.to_string());
    }
    if let Some(g) = v["group"].as_str() {
        dimens.set_job_group(g.to_string());
    }
}

// ------------------------------------------------------------------ shared reload resources (C05 stream `shared`)
/// dimension keys of the reload marker jobs (what vrp-pragmatic stores as job type "reload" + vehicle id) and of the
/// read-out probe (a single that is never part of the problem)
struct ReloadOwnerKey;
struct ProbeKey;

fn is_reload_single(single: &Single) -> bool {
    single.dimens.get_value::<ReloadOwnerKey, String>().is_some()
}

/// `ReloadFeatureFactory::build_shared` configured as vrp-pragmatic's goal_reader does (threshold 0.9, a reload belongs to
/// the vehicle it is defined on, capacity/id of the resource looked up by the reload job, resource demand = static delivery,
/// partial solution = not every job of the problem has a home).  The only addition: a single carrying `ProbeKey` (used by
/// `shared_readout` only, never a job of the problem) has that number as its resource demand and no capacity demand.
fn shared_reload_feature(case: &Value, total_jobs: usize) -> GenericResult<Feature> {
    let caps = i64s_of(&case["shared"]["resources"]);
    let resources: HashMap<String, (SingleDimLoad, usize)> = case["shared"]["reloads"]
        .as_array()
        .unwrap()
        .iter()
        .filter(|r| !r["resource"].is_null())
        .map(|r| {
            let rid = usize_of(&r["resource"]);
            (format!("j{}", i64_of(&r["id"])), (SingleDimLoad::new(caps[rid] as i32), rid))
        })
        .collect();
    ReloadFeatureFactory::<SingleDimLoad>::new("capacity")
        .set_capacity_code(ViolationCode(2))
        .set_load_schedule_threshold(|capacity: &SingleDimLoad| *capacity * 0.9)
        .set_is_reload_single(is_reload_single)
        .set_belongs_to_route(|route: &Route, job: &Job| {
            job.as_single().is_some_and(|single| {
                single.dimens.get_value::<ReloadOwnerKey, String>().is_some_and(|v| Some(v) == route.actor.vehicle.dimens.get_vehicle_id())
            })
        })
        .set_resource_code(ViolationCode(18))
        .set_shared_demand_capacity(|single| {
            single
                .dimens
                .get_value::<ProbeKey, i32>()
                .map(|d| SingleDimLoad::new(*d))
                .or_else(|| single.dimens.get_job_demand().map(|demand: &Demand<SingleDimLoad>| demand.delivery.0))
        })
        .set_shared_resource_capacity(move |activity| {
            activity
                .job
                .as_ref()
                .filter(|single| is_reload_single(single.as_ref()))
                .and_then(|single| single.dimens.get_job_id().and_then(|id| resources.get(id)).cloned())
        })
        .set_is_partial_solution(move |solution_ctx| solution_ctx.get_jobs_amount() != total_jobs)
        .build_shared()
}

/// The cached "shared resource still available" value of every reload interval of a tour.  The state key is private to
/// reloads.rs and the digest hook renders its value as "opaque", so it is read through the feature's own public
/// constraint: a probe with resource demand d placed at the first leg of the interval is accepted iff the cached value is
/// absent or >= d; the largest accepted d is the cached value (null = no value cached for that interval).
fn shared_readout(b: &Built, sctx: &SolutionContext, rc: &RouteContext) -> Value {
    let Some(feature) = b.shared.as_ref() else { return Value::Null };
    let constraint = feature.constraint.as_ref().expect("shared reload constraint");
    let tour = &rc.route().tour;
    let accepts = |s: usize, d: i32| -> bool {
        let mut dimens = Dimensions::default();
        dimens.set_job_id("probe".to_string());
        dimens.set_value::<ProbeKey, i32>(d);
        let single = Arc::new(Single { places: vec![], dimens });
        let target = Activity {
            place: vrp_core::models::solution::Place { idx: 0, location: 0, duration: 0., time: TimeWindow::max() },
            schedule: Schedule::new(0., 0.),
            job: Some(single),
            commute: None,
        };
        let actx = ActivityContext { index: s, prev: tour.get(s).unwrap(), target: &target, next: tour.get(s + 1) };
        constraint.evaluate(&MoveContext::activity(sctx, rc, &actx)).is_none()
    };
    const BIG: i32 = 1 << 20;
    let out: Vec<Value> = rc
        .state()
        .get_reload_intervals()
        .cloned()
        .unwrap_or_default()
        .into_iter()
        .map(|(s, e)| {
            if s >= tour.total() {
                json!([s, e, "interval-outside-tour"])
            } else if accepts(s, BIG) {
                json!([s, e, Value::Null])
            } else if !accepts(s, -BIG) {
                json!([s, e, "below-range"])
            } else {
                let (mut lo, mut hi) = (-BIG, BIG); // accepts(lo) && !accepts(hi)
                while hi - lo > 1 {
                    let mid = lo + (hi - lo) / 2;
                    if accepts(s, mid) {
                        lo = mid;
                    } else {
                        hi = mid;
                    }
                }
                json!([s, e, lo])
            }
        })
        .collect();
    json!(out)
}

/// "recompute from the bare tours" for the `shared` stream: the pending lists are kept (Solution::from drops `ignored`, where
/// the unused reload markers live, and a context without them counts as a PARTIAL solution whose resource consumption the
/// feature refuses to estimate); every tour gets an empty cache and the stale flag, then accept_solution_state runs (every
/// caching feature of this goal - transport, capacity with reload intervals, shared resource, tour order - recomputes a stale
/// tour there).  goal.accept_route_state is NOT used on the way: with a CombinedFeatureState in the goal (the shared reload
/// feature is one) its nested accept_route_state_with_states clears the route state a second time and so wipes what the
/// features listed before it have just written (see notes/C05.md).
fn rebuild_pending(ctx: &InsertionContext) -> InsertionContext {
    let s = &ctx.solution;
    let solution = SolutionContext {
        required: s.required.clone(),
        ignored: s.ignored.clone(),
        unassigned: s.unassigned.clone(),
        locked: s.locked.clone(),
        routes: s.routes.iter().map(|rc| RouteContext::new_with_state(rc.route().deep_copy(), RouteState::default())).collect(),
        registry: s.registry.deep_copy(),
        state: SolutionState::default(),
    };
    let mut fresh = InsertionContext { problem: ctx.problem.clone(), solution, environment: ctx.environment.clone() };
    fresh.restore();
    fresh
}

/// C05 stream `c05_feat`: the marker jobs of the recharge feature (what vrp-pragmatic stores as job type "recharge" + vehicle id)
struct RechargeOwnerKey;

fn is_recharge_single(single: &Single) -> bool {
    single.dimens.get_value::<RechargeOwnerKey, String>().is_some()
}

/// "recompute from the bare tours" for the `c05_feat` stream: the pending lists are kept (recharge / reload markers live in
/// `ignored`), every tour gets an EMPTY cache and the stale flag; then GoalContext::accept_route_state on every tour (clear,
/// the route-level handler of every feature in goal order, unset), the stale flag again, and the solution-level handlers (restore).
fn rebuild_full(ctx: &InsertionContext) -> InsertionContext {
    let s = &ctx.solution;
    let solution = SolutionContext {
        required: s.required.clone(),
        ignored: s.ignored.clone(),
        unassigned: s.unassigned.clone(),
        locked: s.locked.clone(),
        routes: s.routes.iter().map(|rc| RouteContext::new_with_state(rc.route().deep_copy(), RouteState::default())).collect(),
        registry: s.registry.deep_copy(),
        state: SolutionState::default(),
    };
    let mut fresh = InsertionContext { problem: ctx.problem.clone(), solution, environment: ctx.environment.clone() };
    let goal = fresh.problem.goal.clone();
    fresh.solution.routes.iter_mut().for_each(|rc| {
        let _ = rc.state_mut();
        goal.accept_route_state(rc);
        // flagged stale again: every solution-level handler refreshes the tour in its first round, so the result does not
        // depend on how many rounds accept_solution_state_with_states needs (a round is restarted when a handler moves jobs
        // between the pending lists, and since /repo 5d6f1d2 a restart refreshes the work balance value of a tour that an
        // earlier handler of the abandoned round flagged stale)
        let _ = rc.state_mut();
    });
    fresh.restore();
    fresh
}

fn vehicle_from(v: &Value, id: &str) -> Vehicle {
    let costs = i64s_of(&v["costs"]);
    let mut dimens = Dimensions::default();
    dimens.set_vehicle_id(id.to_string());
    dimens.set_vehicle_capacity(SingleDimLoad::new(i64_of(&v["cap"]) as i32));
    let ss = t_of(&v["shift_start"]);
    let latest = if v["shift_latest"].is_null() { ss } else { t_of(&v["shift_latest"]) };
    let start = VehiclePlace {
        location: usize_of(&v["start"]),
        time: TimeInterval { earliest: Some(ss), latest: Some(latest) },
    };
    let end = if v["end"].is_null() {
        None
    } else {
        let se = t_of(&v["shift_end"]);
        Some(VehiclePlace {
            location: usize_of(&v["end"]),
            time: TimeInterval { earliest: None, latest: if se == f64::MAX { None } else { Some(se) } },
        })
    };
    Vehicle {
        profile: Profile::default(),
        costs: Costs {
            fixed: costs[0] as f64,
            per_distance: costs[1] as f64,
            per_driving_time: costs[2] as f64,
            per_waiting_time: costs[3] as f64,
            per_service_time: costs[4] as f64,
        },
        dimens,
        details: vec![VehicleDetail { start: Some(start), end }],
    }
}

fn limit_of(case: &Value, key: &'static str) -> TravelLimitFn<Float> {
    let lims: HashMap<String, f64> = case["vehicles"]
        .as_array()
        .unwrap()
        .iter()
        .enumerate()
        .filter(|(_, v)| !v[key].is_null())
        .map(|(i, v)| (format!("v{i}"), i64_of(&v[key]) as f64))
        .collect();
    Arc::new(move |actor: &Actor| actor.vehicle.dimens.get_vehicle_id().and_then(|id| lims.get(id)).cloned())
}

fn build(case: &Value) -> GenericResult<Built> {
    let n = usize_of(&case["n"]);
    let dur: Vec<f64> = i64s_of(&case["dur"]).into_iter().map(|x| x as f64).collect();
    let dist: Vec<f64> = i64s_of(&case["dist"]).into_iter().map(|x| x as f64).collect();
    assert_eq!(dur.len(), n * n);
    assert_eq!(dist.len(), n * n);
    let transport: Arc<dyn TransportCost> = Arc::new(SimpleTransportCost::new(dur, dist)?);
    let activity: Arc<dyn ActivityCost> = Arc::new(SimpleActivityCost::default());

    let vehicles: Vec<Vehicle> =
        case["vehicles"].as_array().unwrap().iter().enumerate().map(|(i, v)| vehicle_from(v, &format!("v{i}"))).collect();
    let vidx: HashMap<String, i64> = (0..vehicles.len()).map(|i| (format!("v{i}"), i as i64)).collect();

    let mut orders: HashMap<String, f64> = HashMap::new();
    let mut jobs: Vec<Job> = vec![];
    for j in case["jobs"].as_array().unwrap() {
        let id = i64_of(&j["id"]);
        if j["multi"].is_null() {
            if !j["order"].is_null() {
                orders.insert(format!("j{id}"), i64_of(&j["order"]) as f64);
            }
            jobs.push(Job::Single(Arc::new(single_from(j, format!("j{id}"), j))));
        } else {
            let mut b = MultiBuilder::default().id(&format!("j{id}")).dimension(|d| set_tags(d, j));
            for (k, s) in j["multi"].as_array().unwrap().iter().enumerate() {
                b = b.add_job(single_from(s, format!("j{id}.{k}"), j));
            }
            jobs.push(b.build_as_job()?);
        }
    }

    // C05 stream `shared`: reload marker jobs (one single per reload, owned by a vehicle) and the shared-resource feature
    let shared: Option<Feature> = if case["shared"].is_object() {
        for r in case["shared"]["reloads"].as_array().unwrap() {
            let mut dimens = Dimensions::default();
            dimens.set_job_id(format!("j{}", i64_of(&r["id"])));
            dimens.set_value::<ReloadOwnerKey, String>(format!("v{}", i64_of(&r["vehicle"])));
            jobs.push(Job::Single(Arc::new(Single { places: r["places"].as_array().unwrap().iter().map(place_of).collect(), dimens })));
        }
        Some(shared_reload_feature(case, jobs.len())?)
    } else {
        None
    };
    // C05 stream `c05_feat`: marker jobs of the simple reload feature (`reload.reloads`) and of the recharge feature
    // (`recharge.stations`): one single per marker, owned by a vehicle, as vrp-pragmatic builds them
    if let Some(rs) = case["reload"]["reloads"].as_array() {
        for r in rs {
            let mut dimens = Dimensions::default();
            dimens.set_job_id(format!("j{}", i64_of(&r["id"])));
            dimens.set_value::<ReloadOwnerKey, String>(format!("v{}", i64_of(&r["vehicle"])));
            jobs.push(Job::Single(Arc::new(Single { places: r["places"].as_array().unwrap().iter().map(place_of).collect(), dimens })));
        }
    }
    if let Some(rs) = case["recharge"]["stations"].as_array() {
        for r in rs {
            let mut dimens = Dimensions::default();
            dimens.set_job_id(format!("j{}", i64_of(&r["id"])));
            dimens.set_value::<RechargeOwnerKey, String>(format!("v{}", i64_of(&r["vehicle"])));
            jobs.push(Job::Single(Arc::new(Single { places: r["places"].as_array().unwrap().iter().map(place_of).collect(), dimens })));
        }
    }
    // the job index of the problem (known after the first build), for the tour compactness objective
    let jobs_index: RefCell<Option<Arc<Jobs>>> = RefCell::new(None);

    let feats = &case["features"];
    let on = |k: &str| feats[k].as_bool().unwrap_or(false);
    let seed = case["seed"].as_u64().unwrap_or(1);
    let rnd = Arc::new(ScriptedRandom::new(seed));
    let random: Arc<dyn Random> = rnd.clone();
    let quota = Arc::new(StepQuota { limit: std::sync::atomic::AtomicI64::new(-1), calls: std::sync::atomic::AtomicI64::new(0) });
    let env = Arc::new(Environment::new(
        random,
        Some(quota.clone() as Arc<dyn Quota>),
        Parallelism::default(),
        Arc::new(|_: &str| {}),
        false,
    ));

    let total_jobs = jobs.len();
    let make_goal = |fleet: Option<(&Fleet, &[Arc<Lock>])>| -> GenericResult<(GoalContext, Vec<&'static str>)> {
        let mut names = vec!["unassigned", "tours"];
        let mut features = vec![
            MinimizeUnassignedBuilder::new("min-unassigned").build()?,
            create_minimize_tours_feature("min-tours")?,
        ];
        if on("order") {
            let orders = orders.clone();
            let f: SingleTourOrderFn = Arc::new(move |s: &Single| {
                s.dimens.get_job_id().and_then(|id| orders.get(id)).map(|v| OrderResult::Value(*v)).unwrap_or(OrderResult::Default)
            });
            features.push(create_tour_order_soft_feature("order", Either::Left(f))?);
            names.push("order");
        }
        // C05 stream `c05_feat`: further objective features `features.objectives = [{kind, pos}]`, listed - as vrp-pragmatic
        // does - in objective order BEFORE the capacity feature; pos = "before_cost" | "after_cost"
        let extra_objectives = |pos: &str, features: &mut Vec<Feature>, names: &mut Vec<&'static str>| -> GenericResult<()> {
            for o in feats["objectives"].as_array().map(|a| a.as_slice()).unwrap_or(&[]) {
                if o["pos"].as_str().unwrap_or("after_cost") != pos {
                    continue;
                }
                let (name, feature): (&'static str, Option<Feature>) = match o["kind"].as_str().unwrap_or("") {
                    "balance_max_load" => (
                        "balance_max_load",
                        Some(create_max_load_balanced_feature::<SingleDimLoad>(
                            "balance_max_load",
                            |loaded, capacity| loaded.value as Float / capacity.value as Float,
                            |vehicle| vehicle.dimens.get_vehicle_capacity().expect("vehicle has no capacity defined"),
                        )?),
                    ),
                    "balance_activities" => ("balance_activities", Some(create_activity_balanced_feature("balance_activities")?)),
                    "balance_distance" => ("balance_distance", Some(create_distance_balanced_feature("balance_distance")?)),
                    "balance_duration" => ("balance_duration", Some(create_duration_balanced_feature("balance_duration")?)),
                    "fast_service" => (
                        "fast_service",
                        Some(
                            FastServiceFeatureBuilder::new("fast_service")
                                .set_transport(transport.clone())
                                .set_activity(activity.clone())
                                .set_demand_type_fn(|single| {
                                    let demand: Option<&Demand<SingleDimLoad>> = single.dimens.get_job_demand();
                                    demand.map(|d| d.get_type())
                                })
                                .set_is_filtered_job(|job| job.as_single().is_some_and(|s| is_reload_single(s.as_ref())))
                                .build()?,
                        ),
                    ),
                    // needs the job index: absent in the preliminary goal the problem is first built with
                    "compact" => (
                        "compact",
                        match jobs_index.borrow().as_ref() {
                            Some(jobs) => Some(create_tour_compactness_feature("compact", jobs.clone(), o["radius"].as_u64().unwrap_or(2).max(1) as usize)?),
                            None => None,
                        },
                    ),
                    other => panic!("unknown objective kind {other}"),
                };
                if let Some(feature) = feature {
                    features.push(feature);
                    names.push(name);
                }
            }
            Ok(())
        };
        extra_objectives("before_cost", &mut features, &mut names)?;
        features.push(
            TransportFeatureBuilder::new("transport")
                .set_transport_cost(transport.clone())
                .set_activity_cost(activity.clone())
                .set_violation_code(ViolationCode(1))
                .build_minimize_cost()?,
        );
        names.push("cost");
        extra_objectives("after_cost", &mut features, &mut names)?;
        match shared.as_ref() {
            Some(f) => features.push(f.clone()),
            None if case["reload"].is_object() => features.push(
                ReloadFeatureFactory::<SingleDimLoad>::new("capacity")
                    .set_capacity_code(ViolationCode(2))
                    .set_load_schedule_threshold(|capacity: &SingleDimLoad| *capacity * 0.9)
                    .set_is_reload_single(is_reload_single)
                    .set_belongs_to_route(|route: &Route, job: &Job| {
                        job.as_single().is_some_and(|single| {
                            single.dimens.get_value::<ReloadOwnerKey, String>().is_some_and(|v| Some(v) == route.actor.vehicle.dimens.get_vehicle_id())
                        })
                    })
                    .build_simple()?,
            ),
            None => features.push(CapacityFeatureBuilder::<SingleDimLoad>::new("capacity").set_violation_code(ViolationCode(2)).build()?),
        }
        if on("compat") {
            features.push(create_compatibility_feature("compat", ViolationCode(13))?);
        }
        if on("groups") {
            features.push(create_group_feature("groups", total_jobs, ViolationCode(14))?);
        }
        if on("limits") {
            features.push(create_travel_limit_feature(
                "limits",
                transport.clone(),
                activity.clone(),
                ViolationCode(15),
                ViolationCode(16),
                limit_of(case, "dist_limit"),
                limit_of(case, "dur_limit"),
            )?);
        }
        if case["recharge"].is_object() {
            let limit = limit_of(case, "recharge_limit");
            features.push(
                RechargeFeatureBuilder::new("recharge")
                    .set_violation_code(ViolationCode(20))
                    .set_transport(transport.clone())
                    .set_is_recharge_single(is_recharge_single)
                    .set_belongs_to_route(|route: &Route, job: &Job| {
                        job.as_single().is_some_and(|single| {
                            single.dimens.get_value::<RechargeOwnerKey, String>().is_some_and(|v| Some(v) == route.actor.vehicle.dimens.get_vehicle_id())
                        })
                    })
                    .set_distance_limit(move |actor: &Actor| limit(actor))
                    .build()?,
            );
        }
        if on("order_hard") {
            let orders = orders.clone();
            let f: SingleTourOrderFn = Arc::new(move |s: &Single| {
                s.dimens.get_job_id().and_then(|id| orders.get(id)).map(|v| OrderResult::Value(*v)).unwrap_or(OrderResult::Default)
            });
            features.push(create_tour_order_hard_feature("order_hard", ViolationCode(19), Either::Left(f))?);
        }
        if let Some((fleet, locks)) = fleet {
            if !locks.is_empty() {
                features.push(create_locked_jobs_feature("locked", fleet, locks, ViolationCode(17))?);
            }
        }
        Ok((GoalContextBuilder::with_features(&features)?.build()?, names))
    };

    let (goal0, _) = make_goal(None)?;
    let p0 = ProblemBuilder::default()
        .add_jobs(jobs.iter().cloned())
        .add_vehicles(vehicles.into_iter())
        .with_goal(goal0)
        .with_transport_cost(transport.clone())
        .with_activity_cost(activity.clone())
        .build()?;
    *jobs_index.borrow_mut() = Some(p0.jobs.clone());

    // locks: [{vehicle: idx, jobs: [ids], order: "strict"|"sequence"|"any"}]
    let by_id: HashMap<i64, Job> = p0.jobs.all().iter().map(|j| (job_num(j), j.clone())).collect();
    let mut locks: Vec<Arc<Lock>> = vec![];
    if let Some(ls) = case["locks"].as_array() {
        for l in ls {
            let vid = format!("v{}", i64_of(&l["vehicle"]));
            let ljobs: Vec<Job> = i64s_of(&l["jobs"]).iter().map(|id| by_id[id].clone()).collect();
            let order = match l["order"].as_str().unwrap_or("strict") {
                "any" => LockOrder::Any,
                "sequence" => LockOrder::Sequence,
                _ => LockOrder::Strict,
            };
            locks.push(Arc::new(Lock::new(
                Arc::new(move |a: &Actor| a.vehicle.dimens.get_vehicle_id() == Some(&vid)),
                vec![LockDetail::new(order, LockPosition::Any, ljobs)],
                false,
            )));
        }
    }
    let (goal, names) = make_goal(Some((p0.fleet.as_ref(), locks.as_slice())))?;
    let problem = Arc::new(Problem {
        fleet: p0.fleet.clone(),
        jobs: p0.jobs.clone(),
        locks,
        goal: Arc::new(goal),
        activity: p0.activity.clone(),
        transport: p0.transport.clone(),
        extras: p0.extras.clone(),
    });
    Ok(Built { problem, env, quota, vidx, names, shared, rnd, full_rebuild: case["feat"].as_bool().unwrap_or(false) })
}

// ------------------------------------------------------------------ dumps
fn act_dump(a: &Activity) -> Value {
    let (job, sub) = match a.retrieve_job() {
        None => (-1, 0),
        Some(j) => {
            let sub = match (&j, a.job.as_ref()) {
                (Job::Multi(m), Some(s)) => m.jobs.iter().position(|x| Arc::ptr_eq(x, s)).map(|p| p as i64).unwrap_or(-1),
                _ => 0,
            };
            (job_num(&j), sub)
        }
    };
    let dem = a
        .job
        .as_ref()
        .and_then(|s| s.dimens.get_job_demand::<SingleDimLoad>())
        .map(|d: &Demand<SingleDimLoad>| vec![d.pickup.0.value, d.pickup.1.value, d.delivery.0.value, d.delivery.1.value])
        .unwrap_or_else(|| vec![0, 0, 0, 0]);
    json!({"job": job, "sub": sub, "loc": a.place.location, "svc": t_out(a.place.duration), "tws": t_out(a.place.time.start),
           "twe": t_out(a.place.time.end), "dem": dem, "arr": t_out(a.schedule.arrival), "dep": t_out(a.schedule.departure)})
}

fn actor_idx(b: &Built, rc: &RouteContext) -> i64 {
    rc.route().actor.vehicle.dimens.get_vehicle_id().and_then(|id| b.vidx.get(id)).cloned().unwrap_or(-1)
}

fn fit_out(x: f64) -> Value {
    if x == x.trunc() && x.abs() < 9e15 {
        json!(x as i64)
    } else {
        json!(format!("{:?}", x))
    }
}

fn sorted_ids<'a>(it: impl Iterator<Item = &'a Job>) -> Vec<i64> {
    let mut v: Vec<i64> = it.map(job_num).collect();
    v.sort();
    v
}

/// "recompute from the bare tours": copy the tours into a new context, run the route-level handler of every feature on
/// every tour (empty cache) and then the solution-level handlers.
fn rebuild(ctx: &InsertionContext) -> InsertionContext {
    let solution: Solution = ctx.deep_copy().into();
    let mut fresh = InsertionContext::new_from_solution(ctx.problem.clone(), (solution, None), ctx.environment.clone());
    let goal = fresh.problem.goal.clone();
    fresh.solution.routes.iter_mut().for_each(|rc| {
        let _ = rc.state_mut();
        goal.accept_route_state(rc);
    });
    fresh.restore();
    fresh
}

fn sched_of(rc: &RouteContext) -> Vec<Value> {
    rc.route().tour.all_activities().map(|a| json!([t_out(a.schedule.arrival), t_out(a.schedule.departure)])).collect()
}

fn fresh_route_digest(ctx: &InsertionContext, rc: &RouteContext) -> Vec<String> {
    let mut it = RouteContext::new_with_state(rc.route().deep_copy(), RouteState::default());
    ctx.problem.goal.accept_route_state(&mut it);
    it.state().verif_digest()
}

fn dump(b: &Built, ctx: &InsertionContext, with_fresh: bool) -> Value {
    let s = &ctx.solution;
    let mut una: Vec<(i64, i64)> = s
        .unassigned
        .iter()
        .map(|(j, info)| {
            let kind = match info {
                UnassignmentInfo::Unknown => -1,
                UnassignmentInfo::Simple(c) => c.0 as i64,
                UnassignmentInfo::Detailed(_) => -2,
            };
            (job_num(j), kind)
        })
        .collect();
    una.sort();
    let mut avail: Vec<i64> = s
        .registry
        .resources()
        .available()
        .map(|a| a.vehicle.dimens.get_vehicle_id().and_then(|id| b.vidx.get(id)).cloned().unwrap_or(-1))
        .collect();
    avail.sort();
    let routes: Vec<Value> = s
        .routes
        .iter()
        .map(|rc| {
            let mut r = json!({
                "v": actor_idx(b, rc),
                "stale": rc.is_stale(),
                "acts": rc.route().tour.all_activities().map(act_dump).collect::<Vec<_>>(),
                "dig": rc.state().verif_digest(),
            });
            if with_fresh {
                r["route_level"] = json!(fresh_route_digest(ctx, rc));
            }
            if b.shared.is_some() {
                r["shared"] = shared_readout(b, s, rc);
            }
            r
        })
        .collect();
    let mut d = json!({
        "req": s.required.iter().map(job_num).collect::<Vec<_>>(),
        "ign": s.ignored.iter().map(job_num).collect::<Vec<_>>(),
        "una": una,
        "locked": sorted_ids(s.locked.iter()),
        "avail": avail,
        "routes": routes,
        "sdig": s.state.verif_digest(),
        "fit": ctx.problem.goal.fitness(ctx).map(fit_out).collect::<Vec<_>>(),
    });
    if b.shared.is_some() {
        d["partial"] = json!(s.get_jobs_amount() != ctx.problem.jobs.size());
    }
    if with_fresh {
        let fresh = if b.full_rebuild {
            rebuild_full(ctx)
        } else if b.shared.is_some() {
            rebuild_pending(ctx)
        } else {
            rebuild(ctx)
        };
        let fr: Vec<Value> = fresh
            .solution
            .routes
            .iter()
            .map(|rc| {
                let mut r = json!({"v": actor_idx(b, rc), "dig": rc.state().verif_digest(), "sched": sched_of(rc)});
                if b.full_rebuild {
                    r["jobs"] = json!(rc.route().tour.all_activities().map(|a| a.retrieve_job().map(|j| job_num(&j)).unwrap_or(-1)).collect::<Vec<_>>());
                }
                if b.shared.is_some() {
                    r["shared"] = shared_readout(b, &fresh.solution, rc);
                    r["jobs"] = json!(rc.route().tour.all_activities().map(|a| a.retrieve_job().map(|j| job_num(&j)).unwrap_or(-1)).collect::<Vec<_>>());
                }
                r
            })
            .collect();
        d["rebuilt"] = json!({
            "routes": fr,
            "sdig": fresh.solution.state.verif_digest(),
            "fit": fresh.problem.goal.fitness(&fresh).map(fit_out).collect::<Vec<_>>(),
            // "two solutions with identical tours compare equal": GoalContext::total_order(live, rebuilt from the same tours)
            "cmp": format!("{:?}", ctx.problem.goal.total_order(ctx, &fresh)),
        });
    }
    d
}

/// cached vs recomputed, per route (digest and schedules): list of mismatches
fn cache_mismatches(b: &Built, ctx: &InsertionContext) -> Vec<Value> {
    let fresh = rebuild(ctx);
    let by_actor: HashMap<i64, &RouteContext> = fresh.solution.routes.iter().map(|rc| (actor_idx(b, rc), rc)).collect();
    ctx.solution
        .routes
        .iter()
        .filter(|rc| rc.route().tour.has_jobs())
        .filter_map(|rc| {
            let v = actor_idx(b, rc);
            let live = (rc.state().verif_digest(), sched_of(rc));
            match by_actor.get(&v) {
                Some(f) => {
                    let fr = (f.state().verif_digest(), sched_of(f));
                    // a tour holding jobs of two compatibility values exists only inside InfeasibleSearch (constraints
                    // switched off); its tag is "the first tagged job of a HashSet", not a function of the tour: the tag
                    // entry is left out of the comparison for such tours (the plugin applies the same rule)
                    let tags: std::collections::HashSet<String> =
                        rc.route().tour.jobs().filter_map(|j| j.dimens().get_job_compatibility().cloned()).collect();
                    let strip = |d: &Vec<String>| d.iter().filter(|x| !(tags.len() > 1 && x.starts_with("s:"))).cloned().collect::<Vec<_>>();
                    if (strip(&fr.0), &fr.1) == (strip(&live.0), &live.1) {
                        None
                    } else {
                        Some(json!({"v": v, "dig": live.0, "sched": live.1, "fresh_dig": fr.0, "fresh_sched": fr.1,
                                    "jobs": rc.route().tour.all_activities().map(|a| a.retrieve_job().map(|j| job_num(&j)).unwrap_or(-1)).collect::<Vec<_>>()}))
                    }
                }
                None => Some(json!({"v": v, "missing_in_rebuilt": true})),
            }
        })
        .collect()
}

/// `shared` stream, after a single applied insertion: the tours (job id + resource demand of every activity), the cached
/// reload intervals and the cached shared-resource availability of every tour (the plugin recomputes them from the tours),
/// plus the live digest/schedule against the context rebuilt from the same tours (tours which the rebuild's own
/// solution-level clean-up changed - a reload marker that became obsolete in the middle of a step - are left out).
fn shared_observation(b: &Built, ctx: &InsertionContext) -> Value {
    let s = &ctx.solution;
    let fresh = rebuild_pending(ctx);
    let by_actor: HashMap<i64, &RouteContext> = fresh.solution.routes.iter().map(|rc| (actor_idx(b, rc), rc)).collect();
    let ids = |rc: &RouteContext| rc.route().tour.all_activities().map(|a| a.retrieve_job().map(|j| job_num(&j)).unwrap_or(-1)).collect::<Vec<_>>();
    let routes: Vec<Value> = s
        .routes
        .iter()
        .map(|rc| {
            let acts: Vec<Value> = rc
                .route()
                .tour
                .all_activities()
                .map(|a| {
                    let d = a.job.as_ref().and_then(|s| s.dimens.get_job_demand::<SingleDimLoad>()).map(|d: &Demand<SingleDimLoad>| d.delivery.0.value);
                    json!([a.retrieve_job().map(|j| job_num(&j)).unwrap_or(-1), d])
                })
                .collect();
            let v = actor_idx(b, rc);
            let mut r = json!({"v": v, "acts": acts, "shared": shared_readout(b, s, rc)});
            if let Some(f) = by_actor.get(&v).filter(|f| ids(f) == ids(rc)) {
                let (live, fr) = ((rc.state().verif_digest(), sched_of(rc)), (f.state().verif_digest(), sched_of(f)));
                if live != fr {
                    r["dig"] = json!(live.0);
                    r["sched"] = json!(live.1);
                    r["fresh_dig"] = json!(fr.0);
                    r["fresh_sched"] = json!(fr.1);
                }
            }
            r
        })
        .collect();
    json!({"partial": s.get_jobs_amount() != ctx.problem.jobs.size(), "routes": routes})
}

/// `c05_feat` stream, after a single applied insertion: every tour with its activities (the plugin / the Coq model recompute
/// the cached values from them), the live digest, and digest + schedule of the context rebuilt from the same tours (left out
/// for a tour which the rebuild's own solution-level clean-up changed); the fitness vector read live (objectives that read
/// per-route caches only - fast service - are a read-out of those caches at any time)
fn feat_observation(b: &Built, ctx: &InsertionContext) -> Value {
    let s = &ctx.solution;
    let fresh = rebuild_full(ctx);
    let by_actor: HashMap<i64, &RouteContext> = fresh.solution.routes.iter().map(|rc| (actor_idx(b, rc), rc)).collect();
    let ids = |rc: &RouteContext| rc.route().tour.all_activities().map(|a| a.retrieve_job().map(|j| job_num(&j)).unwrap_or(-1)).collect::<Vec<_>>();
    let routes: Vec<Value> = s
        .routes
        .iter()
        .map(|rc| {
            let v = actor_idx(b, rc);
            let mut r = json!({"v": v, "acts": rc.route().tour.all_activities().map(act_dump).collect::<Vec<_>>(),
                               "dig": rc.state().verif_digest()});
            if let Some(f) = by_actor.get(&v).filter(|f| ids(f) == ids(rc)) {
                r["fresh_dig"] = json!(f.state().verif_digest());
                r["fresh_sched"] = json!(sched_of(f));
            }
            r
        })
        .collect();
    json!({"routes": routes, "fit": ctx.problem.goal.fitness(ctx).map(fit_out).collect::<Vec<_>>(),
           "req": s.required.iter().map(job_num).collect::<Vec<_>>()})
}

// ------------------------------------------------------------------ operators
fn limits_of(op: &Value) -> RemovalLimits {
    let a = op["acts"].as_array().map(|_| i64s_of(&op["acts"])).unwrap_or_else(|| vec![1, 4]);
    let r = op["routes"].as_array().map(|_| i64s_of(&op["routes"])).unwrap_or_else(|| vec![1, 3]);
    RemovalLimits {
        removed_activities_range: (a[0] as usize)..(a[1] as usize),
        affected_routes_range: (r[0] as usize)..(r[1] as usize),
    }
}

fn ruin_of(b: &Built, name: &str, op: &Value) -> Arc<dyn Ruin> {
    let l = limits_of(op);
    match name {
        "asr" => Arc::new(AdjustedStringRemoval::new(
            op["lmax"].as_u64().unwrap_or(10) as usize,
            op["cavg"].as_u64().unwrap_or(10) as usize,
            0.01,
            l,
        )),
        "rjob" => Arc::new(RandomJobRemoval::new(l)),
        "rroute" => Arc::new(RandomRouteRemoval::new(l)),
        "wjob" => Arc::new(WorstJobRemoval::new(op["skip"].as_u64().unwrap_or(2) as usize, l)),
        "neigh" => Arc::new(NeighbourRemoval::new(l)),
        "cluster" => Arc::new(ClusterRemoval::new(b.problem.clone(), l).expect("cluster removal")),
        "croute" => Arc::new(CloseRouteRemoval::new(l)),
        "wroute" => Arc::new(WorstRouteRemoval::new(l)),
        _ => panic!("unknown ruin {name}"),
    }
}

fn recreate_of(b: &Built, name: &str, op: &Value) -> Arc<dyn Recreate> {
    let r = b.env.random.clone();
    let mn = op["min"].as_u64().unwrap_or(1) as usize;
    let mx = op["max"].as_u64().unwrap_or(3) as usize;
    match name {
        "cheapest" => Arc::new(RecreateWithCheapest::new(r)),
        "farthest" => Arc::new(RecreateWithFarthest::new(r)),
        "gaps" => Arc::new(RecreateWithGaps::new(mn, mx.max(mn + 1), r)),
        "nearest" => Arc::new(RecreateWithNearestNeighbor::new(r)),
        "perturbation" => Arc::new(RecreateWithPerturbation::new(Noise::new_with_ratio(0.5, (-0.25, 0.25), r.clone()), r)),
        "regret" => Arc::new(RecreateWithRegret::new(mn.max(1), mx.max(mn.max(1)), r)),
        "skip_best" => Arc::new(RecreateWithSkipBest::new(mn.max(1), mx.max(mn.max(1)), r)),
        "skip_random" => Arc::new(RecreateWithSkipRandom::new(r)),
        "slice" => Arc::new(RecreateWithSlice::new(r)),
        "blinks" => Arc::new(RecreateWithBlinks::new_with_defaults(r)),
        _ => panic!("unknown recreate {name}"),
    }
}

fn local_of(b: &Built, name: &str, op: &Value) -> Arc<dyn LocalOperator> {
    match name {
        "inter_best" => Arc::new(ExchangeInterRouteBest::new(0.3, -0.25, 0.25)),
        "inter_random" => Arc::new(ExchangeInterRouteRandom::new(0.3, -0.25, 0.25)),
        "intra_random" => Arc::new(ExchangeIntraRouteRandom::new(0.3, -0.25, 0.25)),
        "sequence" => Arc::new(ExchangeSequence::new(op["size"].as_u64().unwrap_or(4).max(2) as usize, 0.5, 0.2)),
        "swap_star" => Arc::new(ExchangeSwapStar::new(b.env.random.clone(), 100_000)),
        "reschedule" => Arc::new(RescheduleDeparture::default()),
        "composite" => Arc::new(CompositeLocalOperator::new(
            vec![
                (Arc::new(ExchangeInterRouteBest::default()) as Arc<dyn LocalOperator>, 2),
                (Arc::new(ExchangeInterRouteRandom::default()), 2),
                (Arc::new(ExchangeIntraRouteRandom::default()), 2),
                (Arc::new(ExchangeSequence::default()), 2),
                (Arc::new(ExchangeSwapStar::new(b.env.random.clone(), 100_000)), 1),
                (Arc::new(RescheduleDeparture::default()), 1),
            ],
            1,
            3,
        )),
        _ => panic!("unknown local operator {name}"),
    }
}

fn composite(ruin: Arc<dyn Ruin>) -> Arc<dyn Ruin> {
    Arc::new(CompositeRuin::new(vec![(ruin, 1.)]))
}

fn search_of(b: &Built, name: &str, op: &Value) -> TargetSearchOperator {
    let rr = || -> TargetSearchOperator {
        Arc::new(RuinAndRecreate::new(
            composite(ruin_of(b, op["ruin"].as_str().unwrap_or("rjob"), op)),
            recreate_of(b, op["recreate"].as_str().unwrap_or("cheapest"), op),
        ))
    };
    match name {
        "rr" => rr(),
        "local_search" => Arc::new(LocalSearch::new(local_of(b, op["local"].as_str().unwrap_or("composite"), op))),
        "decompose" => Arc::new(DecomposeSearch::new(rr(), (2, 3), op["repeat"].as_u64().unwrap_or(2) as usize, 100_000)),
        "redistribute" => Arc::new(RedistributeSearch::new(recreate_of(b, op["recreate"].as_str().unwrap_or("cheapest"), op))),
        "infeasible" => Arc::new(InfeasibleSearch::new(
            rr(),
            recreate_of(b, op["recovery"].as_str().unwrap_or("cheapest"), op),
            op["repeat"].as_u64().unwrap_or(2).max(1) as usize,
            (0.05, 0.2),
            (0.05, 0.33),
        )),
        "lkh_improve" => Arc::new(LKHSearch::new(LKHSearchMode::ImprovementOnly)),
        "lkh_diverse" => Arc::new(LKHSearch::new(LKHSearchMode::Diverse)),
        _ => panic!("unknown search operator {name}"),
    }
}

fn refinement_ctx(b: &Built) -> RefinementContext {
    RefinementContext::new(
        b.problem.clone(),
        Box::new(create_elitism_population(b.problem.goal.clone(), b.env.clone())),
        TelemetryMode::None,
        b.env.clone(),
    )
}

/// applies one history step to `parent` (which must stay untouched) and returns (new state, note)
fn apply(b: &Built, rctx: &RefinementContext, parent: &InsertionContext, op: &Value) -> (InsertionContext, &'static str) {
    let full = op["op"].as_str().unwrap();
    let (kind, name) = full.split_once(':').unwrap_or((full, ""));
    match kind {
        "ruin" => (composite(ruin_of(b, name, op)).run(rctx, parent.deep_copy()), "ok"),
        "recreate" => (recreate_of(b, name, op).run(rctx, parent.deep_copy()), "ok"),
        "local" => match local_of(b, name, op).explore(rctx, parent) {
            Some(ctx) => (ctx, "ok"),
            None => (parent.deep_copy(), "none"),
        },
        "search" => (search_of(b, name, op).search(rctx, parent), "ok"),
        _ => panic!("unknown op kind {kind}"),
    }
}

fn run_case_inner(case: &Value) -> Value {
    let b = build(case).expect("problem");
    let rctx = refinement_ctx(&b);
    let observe = case["observe"].as_bool().unwrap_or(false);
    let trace = case["trace"].as_bool().unwrap_or(false);

    // observer: cached vs recomputed after every single applied insertion
    let observed: Rc<RefCell<(usize, Vec<Value>)>> = Rc::new(RefCell::new((0, vec![])));
    let bref: Rc<Built> = Rc::new(Built { problem: b.problem.clone(), env: b.env.clone(), quota: b.quota.clone(), vidx: b.vidx.clone(), names: b.names.clone(), shared: b.shared.clone(), rnd: b.rnd.clone(), full_rebuild: b.full_rebuild });
    let stage: Rc<RefCell<String>> = Rc::new(RefCell::new("init".to_string()));
    let shared_obs: Rc<RefCell<Vec<Value>>> = Rc::new(RefCell::new(vec![]));
    if observe {
        let observed = observed.clone();
        let bref = bref.clone();
        let stage = stage.clone();
        let shared_obs = shared_obs.clone();
        verif_hooks::set_insertion_observer(Some(Box::new(move |ctx: &InsertionContext| {
            if bref.full_rebuild {
                let mut o = observed.borrow_mut();
                o.0 += 1;
                let mut so = shared_obs.borrow_mut();
                if so.len() < 40 {
                    let mut rec = feat_observation(&bref, ctx);
                    rec["stage"] = json!(stage.borrow().clone());
                    rec["n"] = json!(o.0);
                    so.push(rec);
                }
                return;
            }
            if bref.shared.is_some() {
                let mut o = observed.borrow_mut();
                o.0 += 1;
                let mut so = shared_obs.borrow_mut();
                if so.len() < 60 {
                    let mut rec = shared_observation(&bref, ctx);
                    rec["stage"] = json!(stage.borrow().clone());
                    rec["n"] = json!(o.0);
                    so.push(rec);
                }
                return;
            }
            let mm = cache_mismatches(&bref, ctx);
            let mut o = observed.borrow_mut();
            o.0 += 1;
            let n = o.0;
            if !mm.is_empty() && o.1.len() < 4 {
                o.1.push(json!({"stage": stage.borrow().clone(), "n": n, "routes": mm}));
            }
        })));
    }

    // start state: construction heuristic on everything
    let mut init_ctx = InsertionContext::new(b.problem.clone(), b.env.clone());
    // some jobs start as pending in `ignored` (as conditional jobs - breaks, reloads - do): a legal home of a job
    if let Some(ids) = case["ignored"].as_array() {
        let ids: Vec<i64> = ids.iter().map(i64_of).collect();
        let picked: Vec<Job> = init_ctx.solution.unassigned.keys().filter(|j| ids.contains(&job_num(j))).cloned().collect();
        for j in picked {
            init_ctx.solution.unassigned.remove(&j);
            init_ctx.solution.ignored.push(j);
        }
        init_ctx.solution.ignored.sort_by_key(job_num);
    }
    let mut state = RecreateWithCheapest::new(b.env.random.clone()).run(&rctx, init_ctx);
    let init = dump(&b, &state, true);

    let mut steps: Vec<Value> = vec![];
    for (k, op) in case["history"].as_array().unwrap().iter().enumerate() {
        *stage.borrow_mut() = format!("step{k}:{}", op["op"].as_str().unwrap_or(""));
        let before = dump(&b, &state, false).to_string();
        b.quota.arm(op["quota"].as_i64().unwrap_or(-1));
        if trace {
            b.rnd.start_log();
        }
        let (next, note) = apply(&b, &rctx, &state, op);
        let rand_log = if trace { Some(b.rnd.take_log()) } else { None };
        b.quota.arm(-1);
        let after = dump(&b, &state, false).to_string();
        let mut st = json!({"op": op["op"], "note": note, "after": dump(&b, &next, true)});
        if let Some(l) = rand_log {
            st["rand"] = json!(l);
        }
        if before != after {
            st["parent_changed"] = json!({"before": serde_json::from_str::<Value>(&before).unwrap(),
                                          "after": serde_json::from_str::<Value>(&after).unwrap()});
        }
        steps.push(st);
        state = next;
    }
    if observe {
        verif_hooks::set_insertion_observer(None);
    }
    let o = observed.borrow();
    let mut res = json!({"names": b.names, "init": init, "steps": steps, "observations": o.0, "observed_mismatches": o.1});
    if b.full_rebuild {
        res["feat_observations"] = json!(*shared_obs.borrow());
    } else if b.shared.is_some() {
        res["shared_observations"] = json!(*shared_obs.borrow());
    }
    res
}

/// every case runs in a fresh thread inside a fresh single-threaded rayon pool: rosomaxa's repeatable RNG is a
/// thread-local seeded with 0 and rayon would otherwise spread work over threads nondeterministically
fn run_case(case: &Value) -> Value {
    static TIMEOUTS: AtomicU64 = AtomicU64::new(0);
    let case = case.clone();
    let (tx, rx) = std::sync::mpsc::channel();
    // watchdog: a history of a few operator calls on a 10-job problem takes milliseconds; a broken bookkeeping can make
    // InsertionHeuristic::process loop forever (and grow a tour without bound), so a stuck case is abandoned
    std::thread::spawn(move || {
        let pool = rayon::ThreadPoolBuilder::new().num_threads(1).stack_size(64 * 1024 * 1024).build().expect("pool");
        let res = pool.install(move || std::panic::catch_unwind(std::panic::AssertUnwindSafe(|| run_case_inner(&case))));
        let _ = tx.send(res.map_err(|e| {
            if let Some(s) = e.downcast_ref::<&str>() {
                s.to_string()
            } else if let Some(s) = e.downcast_ref::<String>() {
                s.clone()
            } else {
                "panic".to_string()
            }
        }));
    });
    match rx.recv_timeout(std::time::Duration::from_secs(20)) {
        Ok(Ok(v)) => v,
        Ok(Err(msg)) => panic!("{}", msg),
        Err(_) => {
            if TIMEOUTS.fetch_add(1, AtomicOrdering::SeqCst) >= 1 {
                // the abandoned threads keep spinning / allocating: stop the whole process, the driver reports the missing results
                std::process::exit(3);
            }
            panic!("timeout: the history did not finish within 20 s (an operator does not terminate)")
        }
    }
}

fn main() {
    vh::main_loop(run_case);
}
