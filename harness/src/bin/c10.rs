//! C10: pragmatic problem reading + validation on the real code.
//! case: {"problem": <json>, "matrices": null | [<json>..]}            (well-formed stream)
//!    or {"raw_problem": "<text>", "raw_matrices": null | ["<text>"..]} (malformed stream)
//! result: {"read": R, "validate": R} with R = {"k":"ok"} | {"k":"err","codes":[..],"causes":[..]} | {"k":"panic","msg":..}
//!         | {"k":"deser"} (validate only: the document does not deserialize, validation is not reached)
//! read     = the public entry point `String::read_pragmatic` / `(String, Vec<String>)::read_pragmatic`
//! validate = `ValidationContext::new(problem, Some(matrices), coord_index).validate()` with the matrices chosen exactly
//!            as problem_reader.rs::map_to_problem_with_{approx,matrices} chooses them.
use serde_json::{json, Value};
use std::panic::{catch_unwind, AssertUnwindSafe};
use vrp_pragmatic::format::problem::{create_approx_matrices, Matrix, PragmaticProblem, Problem};
use vrp_pragmatic::format::{CoordIndex, MultiFormatError};
use vrp_pragmatic::validation::ValidationContext;

fn panic_msg(e: Box<dyn std::any::Any + Send>) -> String {
    if let Some(s) = e.downcast_ref::<&str>() {
        s.to_string()
    } else if let Some(s) = e.downcast_ref::<String>() {
        s.clone()
    } else {
        "panic".to_string()
    }
}

fn err_value(e: &MultiFormatError) -> Value {
    let codes: Vec<String> = e.errors.iter().map(|x| x.code.clone()).collect();
    let causes: Vec<String> = e.errors.iter().map(|x| format!("{} / {}", x.cause, x.action)).collect();
    json!({"k": "err", "codes": codes, "causes": causes})
}

fn texts(case: &Value) -> (String, Option<Vec<String>>) {
    let problem = match case.get("raw_problem") {
        Some(Value::String(s)) => s.clone(),
        _ => serde_json::to_string(&case["problem"]).unwrap(),
    };
    let matrices = match case.get("raw_matrices") {
        Some(Value::Array(a)) => Some(a.iter().map(|m| m.as_str().unwrap_or("").to_string()).collect()),
        _ => match case.get("matrices") {
            Some(Value::Array(a)) => Some(a.iter().map(|m| serde_json::to_string(m).unwrap()).collect()),
            _ => None,
        },
    };
    (problem, matrices)
}

pub fn run_case(case: &Value) -> Value {
    let (problem, matrices) = texts(case);

    let read = {
        let (p, m) = (problem.clone(), matrices.clone());
        match catch_unwind(AssertUnwindSafe(move || match m {
            Some(ms) => (p, ms).read_pragmatic().map(|_| ()),
            None => p.read_pragmatic().map(|_| ()),
        })) {
            Ok(Ok(())) => json!({"k": "ok"}),
            Ok(Err(e)) => err_value(&e),
            Err(e) => json!({"k": "panic", "msg": panic_msg(e)}),
        }
    };

    let validate = {
        let parsed: Option<(Problem, Option<Vec<Matrix>>)> = (|| {
            let p: Problem = serde_json::from_str(&problem).ok()?;
            let ms = match &matrices {
                Some(ms) => {
                    let mut out = vec![];
                    for m in ms {
                        out.push(serde_json::from_str::<Matrix>(m).ok()?);
                    }
                    Some(out)
                }
                None => None,
            };
            Some((p, ms))
        })();
        match parsed {
            None => json!({"k": "deser"}),
            Some((p, ms)) => match catch_unwind(AssertUnwindSafe(|| {
                let coord_index = CoordIndex::new(&p);
                let ms = match ms {
                    Some(ms) => ms,
                    None => {
                        if coord_index.has_indices() {
                            vec![]
                        } else {
                            create_approx_matrices(&p)
                        }
                    }
                };
                ValidationContext::new(&p, Some(&ms), &coord_index).validate()
            })) {
                Ok(Ok(())) => json!({"k": "ok"}),
                Ok(Err(e)) => err_value(&e),
                Err(e) => json!({"k": "panic", "msg": panic_msg(e)}),
            },
        }
    };

    json!({"read": read, "validate": validate})
}

fn main() {
    vh::main_loop(run_case);
}
