//! C12: the bundled solution checker (vrp-pragmatic/src/checker/*.rs) run exactly as `vrp-cli check pragmatic` runs it
//! (vrp_cli::extensions::check::check_pragmatic_solution: deserialize problem / matrices / solution, read_pragmatic,
//! CheckerContext::new(core_problem, problem, Some(matrices), solution).and_then(|c| c.check())).
//!
//! ops:
//!  {"op":"check", "problem":…, "matrices":[…], "solution":…}  -> {"ok": true} | {"errors": [strings]}
//!  {"op":"solve", "problem":…, "matrices":[…], "config":{"max_generations":n,"seed":s}}
//!        -> {"solution": <document without extras>} | {"error": msg}          (deterministic layout: one thread)
//!  {"op":"solve_and_check", …as solve…} -> {"solution":…, "check": {"ok":true}|{"errors":[…]}} | {"error": msg}
//! A panic anywhere in the real code is reported by the case loop as {"panic": msg}.
use serde_json::{json, Value};
use std::io::{BufReader, BufWriter};
use std::sync::Arc;
use vrp_cli::extensions::check::check_pragmatic_solution;
use vrp_core::prelude::*;
use vrp_core::rosomaxa::utils::{DefaultRandom, Random};
use vrp_pragmatic::format::problem::PragmaticProblem;
use vrp_pragmatic::format::solution::{write_pragmatic, PragmaticOutputType};

fn check(problem: &Value, matrices: &Value, solution: &Value) -> Value {
    let problem_text = problem.to_string();
    let solution_text = solution.to_string();
    let matrix_texts: Vec<String> =
        matrices.as_array().map(|ms| ms.iter().map(|m| m.to_string()).collect()).unwrap_or_default();
    let readers: Vec<BufReader<&[u8]>> = matrix_texts.iter().map(|m| BufReader::new(m.as_bytes())).collect();
    let result = check_pragmatic_solution(
        BufReader::new(problem_text.as_bytes()),
        BufReader::new(solution_text.as_bytes()),
        Some(readers),
    );
    match result {
        Ok(()) => json!({"ok": true}),
        Err(errs) => json!({"errors": errs.iter().map(|e| e.to_string()).collect::<Vec<_>>()}),
    }
}

fn solve(case: &Value) -> Value {
    let problem_text = case["problem"].to_string();
    let matrices: Vec<String> =
        case["matrices"].as_array().map(|ms| ms.iter().map(|m| m.to_string()).collect()).unwrap_or_default();
    let cfg = &case["config"];
    let max_generations = cfg["max_generations"].as_u64().map(|g| g as usize);
    let seed = cfg["seed"].as_u64().unwrap_or(0);

    let core_problem = match (problem_text, matrices).read_pragmatic() {
        Ok(p) => Arc::new(p),
        Err(errs) => return json!({"error": format!("read: {}", errs)}),
    };
    let random = DefaultRandom::new_repeatable();
    for _ in 0..(seed % 1024) {
        random.uniform_int(0, 1000);
    }
    let environment =
        Arc::new(Environment::new(Arc::new(random), None, Default::default(), Arc::new(|_: &str| {}), false));
    let config = VrpConfigBuilder::new(core_problem.clone())
        .set_environment(environment)
        .prebuild()
        .and_then(|b| b.with_max_generations(max_generations).build());
    let config = match config {
        Ok(c) => c,
        Err(e) => return json!({"error": format!("config: {}", e)}),
    };
    let solution = match Solver::new(core_problem.clone(), config).solve() {
        Ok(s) => s,
        Err(e) => return json!({"error": format!("solve: {}", e)}),
    };
    let mut buf = BufWriter::new(Vec::new());
    if let Err(e) = write_pragmatic(&core_problem, &solution, PragmaticOutputType::OnlyPragmatic, &mut buf) {
        return json!({"error": format!("write: {}", e)});
    }
    let bytes = buf.into_inner().unwrap_or_default();
    let mut doc: Value = match serde_json::from_slice(&bytes) {
        Ok(v) => v,
        Err(e) => return json!({"error": format!("written solution is not JSON: {}", e)}),
    };
    if let Some(obj) = doc.as_object_mut() {
        obj.remove("extras");
    }
    json!({"solution": doc})
}

fn in_pool(case: &Value) -> Value {
    // fresh single-thread pool: fresh thread-local repeatable RNGs, deterministic run
    let pool = rayon::ThreadPoolBuilder::new().num_threads(1).build().expect("rayon pool");
    pool.install(|| solve(case))
}

fn run_case(case: &Value) -> Value {
    match case["op"].as_str().unwrap_or("") {
        "check" => check(&case["problem"], &case["matrices"], &case["solution"]),
        "solve" => in_pool(case),
        "solve_and_check" => {
            let mut res = in_pool(case);
            if res.get("solution").is_some() {
                let verdict = check(&case["problem"], &case["matrices"], &res["solution"]);
                res["check"] = verdict;
            }
            res
        }
        other => json!({"error": format!("unknown op '{}'", other)}),
    }
}

fn main() {
    vh::main_loop(run_case);
}
