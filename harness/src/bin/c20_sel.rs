//! C20, sub-stream `c20_sel`: "the cheapest quoted insertion really is the cheapest", by brute force on the implementation.
//! A state with several used routes, several unused vehicles (each its own actor group, so the registry offers all of them) and
//! several pending single jobs with alternative places / windows; a goal assembled from the real feature builders: minimize-unassigned
//! (default or a weighted estimator), min / max tours, min arrival time, maximize value (job-only or actor-dependent read function),
//! distance, duration, cost (vehicle + driver rates, different per vehicle), single layers and Sum / WeightedSum groups (GoalBuilder::add_multi).
//!  * every (route, job, leg, place, window) combination is enumerated exactly as analyze_insertion_in_route_leg does it, with the REAL
//!    goal.evaluate / goal.estimate calls (route level, activity level) — the quoted cost vector of every accepted candidate;
//!  * the real eval_job_insertion_in_route folded sequentially over routes x jobs (one leaf) and the real
//!    PositionInsertionEvaluator::evaluate_all (rayon) give the selected insertion;
//!  * EVERY accepted candidate is carried out through a real recreate step (InsertionHeuristic::process with an evaluator that
//!    returns exactly this candidate once): GoalContext::fitness after hand-over; one more step without any insertion is the baseline.
use serde_json::{json, Value};
use std::sync::atomic::{AtomicBool, Ordering};
use std::sync::Arc;
use vh::core::*;
use vh::util::*;
use vrp_core::construction::features::*;
use vrp_core::construction::heuristics::*;
use vrp_core::models::common::*;
use vrp_core::models::problem::*;
use vrp_core::models::solution::Activity;
use vrp_core::models::*;
use vrp_core::prelude::{GenericResult, InfoLogger, SimpleTransportCost};
use vrp_core::rosomaxa::prelude::HeuristicSolution;

struct JobWeightKey;
struct VehicleIndexKey;

fn job_num(job: &Job) -> i64 {
    job_id(job).trim_start_matches('j').parse::<i64>().unwrap_or(-1)
}

/// actor-dependent value (JobReadValueFn::Right): base value + actor index * (job id mod 3 + 1)
fn value_by_actor(actor: &Actor, job: &Job) -> f64 {
    let k = actor.vehicle.dimens.get_value::<VehicleIndexKey, i64>().copied().unwrap_or(0);
    job_value(job) + (k * (job_num(job) % 3 + 1)) as f64
}

fn feature_of(name: &str, idx: usize, case: &Value, transport: Arc<dyn TransportCost>) -> GenericResult<Feature> {
    let fname = format!("{name}-{idx}");
    // only the first transport feature carries the time constraint (a second one would repeat the same verdicts)
    let tf = |constrained: bool| {
        TransportFeatureBuilder::new(&fname)
            .set_transport_cost(transport.clone())
            .set_violation_code(ViolationCode(1))
            .set_time_constrained(constrained)
    };
    let first_transport = case["goal"]["layers"]
        .as_array()
        .unwrap()
        .iter()
        .flat_map(|l| l["feats"].as_array().unwrap().iter())
        .position(|f| matches!(f.as_str().unwrap(), "distance" | "duration" | "cost"))
        .unwrap_or(usize::MAX);
    let constrained = idx == first_transport;
    match name {
        "unassigned" => {
            if case["goal"]["estimator"].as_str() == Some("weighted") {
                MinimizeUnassignedBuilder::new(&fname)
                    .set_job_estimator(|_, job| job.dimens().get_value::<JobWeightKey, f64>().copied().unwrap_or(1.))
                    .build()
            } else {
                MinimizeUnassignedBuilder::new(&fname).build()
            }
        }
        "tours" => create_minimize_tours_feature(&fname),
        "maxtours" => create_maximize_tours_feature(&fname),
        "arrival" => create_minimize_arrival_time_feature(&fname),
        "value" => {
            let read = if case["goal"]["value_by_actor"].as_bool().unwrap_or(false) {
                JobReadValueFn::Right(Arc::new(value_by_actor))
            } else {
                JobReadValueFn::Left(Arc::new(job_value))
            };
            create_maximize_total_job_value_feature(&fname, read, Arc::new(|job, _| job), ViolationCode(3))
        }
        "distance" => tf(constrained).build_minimize_distance(),
        "duration" => tf(constrained).build_minimize_duration(),
        "cost" => tf(constrained).build_minimize_cost(),
        _ => Err(format!("unknown feature {name}").into()),
    }
}

fn build_goal_layers(case: &Value, transport: Arc<dyn TransportCost>) -> GenericResult<GoalContext> {
    let mut features: Vec<Feature> = vec![];
    let mut builder = GoalBuilder::default();
    let mut idx = 0;
    let mut has_transport = false;
    for layer in case["goal"]["layers"].as_array().unwrap() {
        let names: Vec<&str> = layer["feats"].as_array().unwrap().iter().map(|f| f.as_str().unwrap()).collect();
        let mut objectives = vec![];
        for name in names.iter() {
            let f = feature_of(name, idx, case, transport.clone())?;
            has_transport |= matches!(*name, "distance" | "duration" | "cost");
            objectives.push(f.objective.clone().ok_or("feature without objective")?);
            features.push(f);
            idx += 1;
        }
        let weights: Vec<f64> = if layer["weights"].is_null() { vec![] } else { i64s_of(&layer["weights"]).into_iter().map(|w| w as f64).collect() };
        builder = if names.len() == 1 && weights.is_empty() {
            builder.add_single(objectives[0].clone())
        } else if weights.is_empty() {
            // MultiStrategy::Sum as installed by the pragmatic goal reader (the comparison part is C09's subject)
            builder.add_multi(
                &objectives,
                |os, a, b| os.iter().map(|o| o.fitness(a)).sum::<f64>().total_cmp(&os.iter().map(|o| o.fitness(b)).sum::<f64>()),
                |os, move_ctx| os.iter().map(|o| o.estimate(move_ctx)).sum(),
            )
        } else {
            let ws = weights.clone();
            builder.add_multi(
                &objectives,
                |os, a, b| os.iter().map(|o| o.fitness(a)).sum::<f64>().total_cmp(&os.iter().map(|o| o.fitness(b)).sum::<f64>()),
                move |os, move_ctx| os.iter().enumerate().map(|(i, o)| o.estimate(move_ctx) * ws[i]).sum(),
            )
        };
    }
    if !has_transport {
        // schedules, time windows and the cached totals need the transport feature even when no layer asks for it
        features.push(
            TransportFeatureBuilder::new("transport-constraint")
                .set_transport_cost(transport.clone())
                .set_violation_code(ViolationCode(1))
                .build_minimize_distance()?,
        );
    }
    features.push(CapacityFeatureBuilder::<SingleDimLoad>::new("capacity").set_violation_code(ViolationCode(2)).build()?);
    GoalContextBuilder::with_features(&features)?.set_main_goal(builder.build()?).build()
}

fn build_world_sel(case: &Value, vehicles: Vec<Vehicle>, jobs: Vec<Job>) -> World {
    let n = usize_of(&case["n"]);
    let dur: Vec<f64> = i64s_of(&case["dur"]).into_iter().map(|x| x as f64).collect();
    let dist: Vec<f64> = i64s_of(&case["dist"]).into_iter().map(|x| x as f64).collect();
    assert_eq!(dur.len(), n * n);
    assert_eq!(dist.len(), n * n);
    let transport: Arc<dyn TransportCost> = Arc::new(SimpleTransportCost::new(dur, dist).unwrap());
    let goal = build_goal_layers(case, transport.clone()).unwrap();
    let dc = i64s_of(&case["driver"]);
    let driver = Arc::new(Driver {
        costs: Costs {
            fixed: dc[0] as f64,
            per_distance: dc[1] as f64,
            per_driving_time: dc[2] as f64,
            per_waiting_time: dc[3] as f64,
            per_service_time: dc[4] as f64,
        },
        dimens: Default::default(),
        details: vec![],
    });
    let vehicles: Vec<Arc<Vehicle>> = vehicles.into_iter().map(Arc::new).collect();
    // every vehicle its own actor group: the registry offers every unused vehicle
    let fleet = Arc::new(Fleet::new(vec![driver], vehicles, |_| {
        |actor: &Actor| actor.vehicle.dimens.get_value::<VehicleIndexKey, i64>().copied().unwrap_or(0) as usize
    }));
    let logger: InfoLogger = Arc::new(|_| {});
    let jobs = Arc::new(Jobs::new(fleet.as_ref(), jobs, transport.as_ref(), &logger).unwrap());
    let problem = Problem {
        fleet,
        jobs,
        locks: vec![],
        goal: Arc::new(goal),
        activity: Arc::new(SimpleActivityCost::default()),
        transport: transport.clone(),
        extras: Arc::new(Extras::default()),
    };
    World { problem: Arc::new(problem), transport }
}

fn vid(r: &RouteContext) -> String {
    r.route().actor.vehicle.dimens.get_vehicle_id().cloned().unwrap_or_default()
}
fn vnum(r: &RouteContext) -> i64 {
    vid(r).trim_start_matches('v').parse::<i64>().unwrap_or(-1)
}

struct NoShuffleJobs;
impl JobSelector for NoShuffleJobs {
    fn prepare(&self, _: &mut InsertionContext) {}
}
struct NoShuffleRoutes;
impl RouteSelector for NoShuffleRoutes {
    fn prepare(&self, _: &mut InsertionContext) {}
    fn select<'a>(&'a self, ctx: &'a InsertionContext, _: &[&'a Job]) -> Box<dyn Iterator<Item = &'a RouteContext> + 'a> {
        Box::new(ctx.solution.routes.iter().chain(ctx.solution.registry.next_route()))
    }
}

/// returns exactly one prepared insertion (the first time it is asked), afterwards "no routes" so that the step finalizes
struct FixedEvaluator {
    vehicle: String,
    job: String,
    index: usize,
    place: (usize, usize, f64, f64, f64),
    cost: Vec<f64>,
    done: AtomicBool,
}
impl InsertionEvaluator for FixedEvaluator {
    fn evaluate_all(
        &self,
        _: &InsertionContext,
        jobs: &[&Job],
        routes: &[&RouteContext],
        _: &LegSelection,
        _: &(dyn ResultSelector),
    ) -> InsertionResult {
        if self.done.swap(true, Ordering::SeqCst) || self.vehicle.is_empty() {
            return InsertionResult::make_failure();
        }
        let route_ctx = routes.iter().find(|r| vid(r) == self.vehicle).expect("candidate route offered");
        let job = jobs.iter().find(|j| job_id(j) == self.job).expect("candidate job pending");
        let single = match job {
            Job::Single(s) => s.clone(),
            _ => panic!("single jobs only"),
        };
        let mut activity = Activity::new_with_job(single);
        activity.place.idx = self.place.0;
        activity.place.location = self.place.1;
        activity.place.duration = self.place.2;
        activity.place.time = TimeWindow::new(self.place.3, self.place.4);
        InsertionResult::make_success(InsertionCost::new(&self.cost), (*job).clone(), vec![(activity, self.index)], route_ctx)
    }
}

fn fitness_of(world: &World, ctx: &InsertionContext) -> Vec<f64> {
    world.problem.goal.fitness(ctx).collect()
}

/// fitness values travel as [numerator, denominator] with denominator = number of routes when the value is not an integer
fn fit_out(x: f64, routes: usize) -> Value {
    if x == x.trunc() && x.abs() < 9e15 {
        json!([x as i64, 1])
    } else {
        let num = x * routes as f64;
        if (num - num.round()).abs() < 1e-6 { json!([num.round() as i64, routes]) } else { json!([format!("nonint:{}", x), 0]) }
    }
}

/// op "prag": the goal as the REAL pragmatic reader builds it from an `objectives` definition (the estimator closure of
/// minimize-unassigned { breaks }, the read function of maximize-value { breaks }, Sum / WeightedSum groups of
/// eval_multi_objective_strategy); for every job of the problem (plan jobs and the vehicle's break): the route-level estimate vector on
/// the first unused route, and the fitness vector of the state "no route, exactly this job unassigned".
fn run_prag(case: &Value) -> Value {
    use vrp_core::rosomaxa::prelude::Environment;
    use vrp_pragmatic::format::problem::PragmaticProblem;
    use vrp_pragmatic::format::{JobTypeDimension, JobValueDimension};
    let problem_text = case["prag"]["problem"].to_string();
    let matrices = vec![case["prag"]["matrix"].to_string()];
    let problem = match (problem_text, matrices).read_pragmatic() {
        Ok(p) => Arc::new(p),
        Err(errs) => return json!({"error": format!("read: {}", errs)}),
    };
    let ctx = InsertionContext::new_empty(problem.clone(), Arc::new(Environment::default()));
    let route_ctx = ctx.solution.registry.next_route().next().expect("a vehicle");
    let mut jobs: Vec<Value> = problem
        .jobs
        .all()
        .iter()
        .map(|job| {
            let est = problem.goal.estimate(&MoveContext::route(&ctx.solution, route_ctx, job));
            let mut alone = ctx.deep_copy();
            alone.solution.unassigned.insert(job.clone(), UnassignmentInfo::Unknown);
            let fit: Vec<Value> = problem.goal.fitness(&alone).map(t_out).collect();
            json!({"id": job.dimens().get_job_id().cloned(), "type": job.dimens().get_job_type().cloned(),
                   "value": job.dimens().get_job_value().copied().map(t_out),
                   "estimate": est.iter().map(t_out).collect::<Vec<_>>(), "fitness_alone_unassigned": fit})
        })
        .collect();
    jobs.sort_by_key(|j| j["id"].as_str().unwrap_or("").to_string());
    json!({"jobs": jobs})
}

/// op "td": a TIME-DEPENDENT provider (create_matrix_transport_cost over several matrices of one profile with time stamps), goal
/// [minimize distance]: the quote of inserting the job on the given leg (real eval_job_insertion_in_route, InsertionPosition::Concrete)
/// and the distance objective after two real recreate steps (with / without the insertion). The property excludes time-dependent
/// routing; the numbers are compared with the witness model (Model/GoalSelTD.v), nothing is claimed about them.
fn run_td(case: &Value) -> Value {
    use vrp_core::models::problem::{create_matrix_transport_cost, MatrixData};
    use vrp_core::prelude::ProblemBuilder;
    let td = &case["td"];
    let costs: Vec<MatrixData> = td["matrices"]
        .as_array()
        .unwrap()
        .iter()
        .map(|m| {
            MatrixData::new(
                0,
                Some(i64_of(&m["ts"]) as f64),
                i64s_of(&m["dur"]).into_iter().map(|x| x as f64).collect(),
                i64s_of(&m["dist"]).into_iter().map(|x| x as f64).collect(),
            )
        })
        .collect();
    let transport = match create_matrix_transport_cost(costs) {
        Ok(t) => t,
        Err(e) => return json!({"error": format!("{e}")}),
    };
    let features = vec![
        TransportFeatureBuilder::new("distance").set_transport_cost(transport.clone()).set_violation_code(ViolationCode(1)).build_minimize_distance().unwrap(),
        CapacityFeatureBuilder::<SingleDimLoad>::new("capacity").set_violation_code(ViolationCode(2)).build().unwrap(),
    ];
    let goal = GoalContextBuilder::with_features(&features).unwrap().build().unwrap();
    let tour_desc = td["tour"].as_array().unwrap();
    let tour_singles: Vec<Arc<Single>> = tour_desc.iter().map(|a| Arc::new(single_of_act(a))).collect();
    let cand = Job::Single(Arc::new(single_of(&td["job"])));
    let mut jobs: Vec<Job> = tour_singles.iter().map(|s| Job::Single(s.clone())).collect();
    jobs.push(cand.clone());
    let problem = ProblemBuilder::default()
        .add_jobs(jobs.into_iter())
        .add_vehicles(vec![vehicle_of(&td["veh"], "v0")].into_iter())
        .with_goal(goal)
        .with_transport_cost(transport.clone())
        .build()
        .unwrap();
    let world = World { problem: Arc::new(problem), transport };
    let mut ctx = new_ctx(&world);
    let acts: Vec<(Value, Arc<Single>)> = tour_desc.iter().cloned().zip(tour_singles.iter().cloned()).collect();
    add_route(&mut ctx, 0, &acts);
    ctx.solution.required = vec![cand.clone()];
    world.problem.goal.accept_solution_state(&mut ctx.solution);
    let selector = BestResultSelector::default();
    let leg = LegSelection::Exhaustive;
    let index = usize_of(&td["index"]);
    let eval_ctx = EvaluationContext { goal: &world.problem.goal, job: &cand, leg_selection: &leg, result_selector: &selector };
    let (quote, place) = match eval_job_insertion_in_route(&ctx, &eval_ctx, &ctx.solution.routes[0], InsertionPosition::Concrete(index), InsertionResult::make_failure()) {
        InsertionResult::Success(s) => {
            let (a, _) = &s.activities[0];
            (s.cost.iter().map(t_out).collect::<Vec<_>>(), Some((a.place.idx, a.place.location, a.place.duration, a.place.time.start, a.place.time.end)))
        }
        InsertionResult::Failure(f) => return json!({"rejected": f.constraint.0}),
    };
    let run = |ev: FixedEvaluator| -> Vec<Value> {
        let heuristic = InsertionHeuristic::new(Box::new(ev));
        let out = heuristic.process(ctx.deep_copy(), &NoShuffleJobs, &NoShuffleRoutes, &leg, &selector);
        fitness_of(&world, &out).into_iter().map(t_out).collect()
    };
    let without = run(FixedEvaluator { vehicle: String::new(), job: String::new(), index: 0, place: (0, 0, 0., 0., 0.), cost: vec![], done: AtomicBool::new(false) });
    let with = run(FixedEvaluator { vehicle: "v0".into(), job: job_id(&cand), index, place: place.unwrap(), cost: vec![0.], done: AtomicBool::new(false) });
    json!({"quote": quote, "fit_without": without, "fit_with": with})
}

fn run_case(case: &Value) -> Value {
    if !case["prag"].is_null() {
        return run_prag(case);
    }
    if !case["td"].is_null() {
        return run_td(case);
    }
    let used = case["routes"].as_array().cloned().unwrap_or_default();
    let free = case["free"].as_array().cloned().unwrap_or_default();
    let used_singles: Vec<Vec<Arc<Single>>> =
        used.iter().map(|o| o["tour"].as_array().unwrap().iter().map(|a| Arc::new(single_of_act(a))).collect()).collect();
    let cands: Vec<Job> = case["jobs"]
        .as_array()
        .unwrap()
        .iter()
        .map(|v| {
            let mut s = single_of(v);
            if !v["weight"].is_null() {
                s.dimens.set_value::<JobWeightKey, f64>(i64_of(&v["weight"]) as f64);
            }
            Job::Single(Arc::new(s))
        })
        .collect();
    let n_ignored = i64_of(&case["ignored"]);
    let ignored: Vec<Arc<Single>> = (0..n_ignored)
        .map(|k| {
            let mut s = single_of(&json!({"id": 700 + k, "places": [{"loc": 0, "svc": 0, "tws": [[0, "inf"]]}], "dem": [0, 0, 0, 0]}));
            s.dimens.set_value::<JobWeightKey, f64>((2 + k) as f64);
            Arc::new(s)
        })
        .collect();

    let mut jobs: Vec<Job> = used_singles.iter().flatten().map(|s| Job::Single(s.clone())).collect();
    jobs.extend(ignored.iter().map(|s| Job::Single(s.clone())));
    jobs.extend(cands.iter().cloned());
    let mut vehicles = vec![];
    for (k, o) in used.iter().chain(free.iter()).enumerate() {
        let mut v = vehicle_of(&o["veh"], &format!("v{k}"));
        v.dimens.set_value::<VehicleIndexKey, i64>(k as i64);
        vehicles.push(v);
    }
    let world = build_world_sel(case, vehicles, jobs);
    let mut ctx = new_ctx(&world);
    for (k, o) in used.iter().enumerate() {
        let acts: Vec<(Value, Arc<Single>)> = o["tour"].as_array().unwrap().iter().cloned().zip(used_singles[k].iter().cloned()).collect();
        add_route(&mut ctx, k, &acts);
    }
    ctx.solution.ignored = ignored.iter().map(|s| Job::Single(s.clone())).collect();
    ctx.solution.required = cands.clone();
    world.problem.goal.accept_solution_state(&mut ctx.solution);

    let goal = &world.problem.goal;
    // the offered routes: solution.routes in order, then the registry's, in vehicle order
    let mut routes: Vec<&RouteContext> = ctx.solution.routes.iter().collect();
    let mut reg: Vec<&RouteContext> = ctx.solution.registry.next_route().collect();
    reg.sort_by_key(|r| vnum(r));
    routes.extend(reg);
    let offered: Vec<String> = routes.iter().map(|r| vid(r)).collect();

    // ---- enumeration with the real evaluate / estimate ----
    struct Cand {
        k: usize,
        vehicle: String,
        job: String,
        index: usize,
        place: (usize, usize, f64, f64, f64),
        cost: Vec<f64>,
    }
    let mut all: Vec<Cand> = vec![];
    let mut pair_info: Vec<Value> = vec![];
    for (k, route_ctx) in routes.iter().enumerate() {
        for job in cands.iter() {
            let single = match job {
                Job::Single(s) => s.clone(),
                _ => unreachable!(),
            };
            if let Some(v) = goal.evaluate(&MoveContext::route(&ctx.solution, route_ctx, job)) {
                pair_info.push(json!({"k": k, "job": job_num(job), "route_violation": v.code.0}));
                continue;
            }
            let route_costs = goal.estimate(&MoveContext::route(&ctx.solution, route_ctx, job));
            pair_info.push(json!({"k": k, "job": job_num(job), "route_costs": route_costs.iter().map(t_out).collect::<Vec<_>>()}));
            let start_time = route_ctx.route().tour.start().map_or(0., |a| a.schedule.departure);
            let mut target = Activity::new_with_job(single.clone());
            'legs: for (items, index) in route_ctx.route().tour.legs() {
                let (prev, next) = match items {
                    [prev] => (prev, None),
                    [prev, next] => (prev, Some(next)),
                    _ => break 'legs,
                };
                for (place_idx, place) in single.places.iter().enumerate() {
                    target.place.idx = place_idx;
                    target.place.location = place.location.unwrap_or(prev.place.location);
                    target.place.duration = place.duration;
                    for time in place.times.iter() {
                        target.place.time = time.to_time_window(start_time);
                        let activity_ctx = ActivityContext { index, prev, target: &target, next };
                        let move_ctx = MoveContext::activity(&ctx.solution, route_ctx, &activity_ctx);
                        if let Some(violation) = goal.evaluate(&move_ctx) {
                            if violation.stopped {
                                break 'legs;
                            }
                            continue;
                        }
                        let costs = goal.estimate(&move_ctx) + &route_costs;
                        all.push(Cand {
                            k,
                            vehicle: vid(route_ctx),
                            job: job_id(job),
                            index,
                            place: (place_idx, target.place.location, target.place.duration, target.place.time.start, target.place.time.end),
                            cost: costs.iter().collect(),
                        });
                    }
                }
            }
        }
    }

    // ---- the real selection: sequential fold (one leaf, row-major) and the parallel evaluate_all ----
    let selector = BestResultSelector::default();
    let leg = LegSelection::Exhaustive;
    let job_refs: Vec<&Job> = cands.iter().collect();
    let mut acc = InsertionResult::make_failure();
    for route_ctx in routes.iter() {
        for job in cands.iter() {
            let eval_ctx = EvaluationContext { goal, job, leg_selection: &leg, result_selector: &selector };
            acc = eval_job_insertion_in_route(&ctx, &eval_ctx, route_ctx, InsertionPosition::Any, acc);
        }
    }
    let sel_out = |r: &InsertionResult| match r {
        InsertionResult::Success(s) => {
            let (a, idx) = &s.activities[0];
            let vehicle = s.actor.vehicle.dimens.get_vehicle_id().cloned().unwrap_or_default();
            json!({"ok": true, "cost": s.cost.iter().map(t_out).collect::<Vec<_>>(), "k": offered.iter().position(|v| *v == vehicle),
                   "job": job_num(&s.job), "index": idx, "place": a.place.idx, "loc": a.place.location, "svc": t_out(a.place.duration),
                   "tws": t_out(a.place.time.start), "twe": t_out(a.place.time.end)})
        }
        InsertionResult::Failure(f) => json!({"ok": false, "code": f.constraint.0}),
    };
    let seq = sel_out(&acc);
    let par = sel_out(&PositionInsertionEvaluator::default().evaluate_all(&ctx, &job_refs, &routes, &leg, &selector));

    // ---- carry every candidate out ----
    let run = |ev: FixedEvaluator| -> (Vec<Value>, usize) {
        let heuristic = InsertionHeuristic::new(Box::new(ev));
        let out = heuristic.process(ctx.deep_copy(), &NoShuffleJobs, &NoShuffleRoutes, &leg, &selector);
        let nr = out.solution.routes.len();
        (fitness_of(&world, &out).into_iter().map(|x| fit_out(x, nr)).collect(), nr)
    };
    let (base_fit, base_routes) =
        run(FixedEvaluator { vehicle: String::new(), job: String::new(), index: 0, place: (0, 0, 0., 0., 0.), cost: vec![], done: AtomicBool::new(false) });
    let cand_out: Vec<Value> = all
        .iter()
        .map(|c| {
            let (fit, nr) = run(FixedEvaluator {
                vehicle: c.vehicle.clone(),
                job: c.job.clone(),
                index: c.index,
                place: c.place,
                cost: c.cost.clone(),
                done: AtomicBool::new(false),
            });
            json!({"k": c.k, "job": c.job.trim_start_matches('j').parse::<i64>().unwrap_or(-1), "index": c.index, "place": c.place.0, "loc": c.place.1,
                   "svc": t_out(c.place.2), "tws": t_out(c.place.3), "twe": t_out(c.place.4),
                   "cost": c.cost.iter().map(|x| t_out(*x)).collect::<Vec<_>>(), "fit": fit, "routes": nr})
        })
        .collect();

    // schedules of the used routes (the waiting premise of the cost clause is evaluated by the plugin's own simulation)
    let scheds: Vec<Value> = ctx.solution.routes.iter().map(dump_schedule).collect();
    json!({"offered": offered, "pairs": pair_info, "cands": cand_out, "seq": seq, "par": par,
           "base_fit": base_fit, "base_routes": base_routes, "scheds": scheds})
}

fn main() {
    vh::main_loop(run_case);
}
