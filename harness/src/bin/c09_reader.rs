//! C09 (sub-stream c09_reader): goals built by the REAL pragmatic reader from the `objectives` section of a problem document
//! (single objectives, `multi-objective` layers with every strategy, the default objectives), the goal contexts the code
//! hands out for them (main and, through `Alternative::maybe_new`, every alternative), evaluated on small real solutions:
//! total_order(a,b), total_order(b,a), total_order(a,a), fitness(a), fitness(b) for every requested pair and context.
//! Estimates: for requested moves (a route-level and an activity-level move of an unassigned job into a tour of a solution) the
//! InsertionCost every context estimates, next to the estimates of the single objectives of the same move, which the TWIN document
//! reports (the same problem whose `objectives` list the same objectives flattened into single layers: one component per objective).
use serde_json::{json, Value};
use std::sync::Arc;
use vh::util::*;
use vrp_core::construction::heuristics::*;
use vrp_core::models::problem::{JobIdDimension, VehicleIdDimension};
use vrp_core::prelude::*;
use vrp_core::rosomaxa::population::Alternative;
use vrp_core::rosomaxa::prelude::HeuristicObjective;
use vrp_core::rosomaxa::utils::RandomGen;
use vrp_pragmatic::format::problem::PragmaticProblem;
use vrp_scientific::lilim::LilimProblem;
use vrp_scientific::solomon::SolomonProblem;
use vrp_scientific::tsplib::TsplibProblem;

struct ScriptedRandom {
    hit: bool,
    draw: i32,
}
impl Random for ScriptedRandom {
    fn uniform_int(&self, min: i32, max: i32) -> i32 {
        assert!(min <= self.draw && self.draw <= max, "scripted draw outside of the requested interval");
        self.draw
    }
    fn uniform_real(&self, min: Float, _: Float) -> Float {
        min
    }
    fn is_head_not_tails(&self) -> bool {
        self.hit
    }
    fn is_hit(&self, _: Float) -> bool {
        self.hit
    }
    fn weighted(&self, _: &[usize]) -> usize {
        0
    }
    fn get_rng(&self) -> RandomGen {
        RandomGen::new_repeatable()
    }
}

fn err_code(msg: &str) -> i64 {
    let table = [
        ("defined more than once", 1),
        ("no objectives specified in the goal", 2),
        ("cannot find a feature with given name", 3),
        ("has no objective", 4),
        ("nested composite objectives are not supported", 5),
        ("weighted sum requires same amount of weights", 6),
        ("missing goal of optimization", 8),
        ("features with default id are not allowed", 9),
        ("empty feature is not allowed", 10),
    ];
    table.iter().find(|(m, _)| msg.contains(m)).map(|(_, c)| *c).unwrap_or(99)
}

/// vehicles v<k> (own type, start at location index k, optional return), jobs j<i> (delivery at location index nv+i)
fn documents(case: &Value, objectives: &Value) -> (String, String) {
    let nv = usize_of(&case["vehicles"]);
    let nj = usize_of(&case["jobs"]);
    let values = i64s_of(&case["values"]);
    let orders = i64s_of(&case["orders"]);
    let returns = i64s_of(&case["returns"]);
    let costs = case["costs"].as_array().unwrap();
    let jobs: Vec<Value> = (0..nj)
        .map(|i| {
            let mut task = json!({"places": [{"location": {"index": nv + i}, "duration": i64_of(&case["durations"][i])}], "demand": [1]});
            if orders[i] > 0 {
                task["order"] = json!(orders[i]);
            }
            let mut job = json!({"id": format!("j{}", i), "deliveries": [task]});
            if values[i] > 0 {
                job["value"] = json!(values[i]);
            }
            job
        })
        .collect();
    let vehicles: Vec<Value> = (0..nv)
        .map(|k| {
            let mut shift = json!({"start": {"earliest": "2020-01-01T00:00:00Z", "location": {"index": k}}});
            if returns[k] != 0 {
                shift["end"] = json!({"latest": "2020-12-31T00:00:00Z", "location": {"index": k}});
            }
            json!({"typeId": format!("t{}", k), "vehicleIds": [format!("v{}", k)], "profile": {"matrix": "car"},
                   "costs": {"fixed": i64_of(&costs[k][0]), "distance": i64_of(&costs[k][1]), "time": i64_of(&costs[k][2])},
                   "shifts": [shift], "capacity": [10]})
        })
        .collect();
    let mut problem = json!({"plan": {"jobs": jobs}, "fleet": {"vehicles": vehicles, "profiles": [{"name": "car"}]}});
    if !objectives.is_null() {
        problem["objectives"] = objectives.clone();
    }
    let matrix = json!({"profile": "car", "travelTimes": case["times"], "distances": case["distances"]});
    (problem.to_string(), matrix.to_string())
}

/// builds a solution: jobs are appended (in the given order) to the tour of the given vehicle; the other jobs stay unassigned
fn create_solution(problem: &Arc<Problem>, assignment: &Value) -> InsertionContext {
    let mut ctx = InsertionContext::new(problem.clone(), Arc::new(Environment::default()));
    let jobs = ctx.solution.unassigned.drain().map(|(job, _)| job).collect::<Vec<_>>();
    ctx.solution.required.extend(jobs);
    problem.goal.accept_solution_state(&mut ctx.solution);

    for pair in assignment.as_array().unwrap() {
        let job_id = format!("j{}", i64_of(&pair[0]));
        let vehicle_id = format!("v{}", i64_of(&pair[1]));
        let job = problem
            .jobs
            .all()
            .iter()
            .find(|job| job.dimens().get_job_id().is_some_and(|id| *id == job_id))
            .cloned()
            .expect("cannot find job");
        let is_vehicle =
            |route_ctx: &RouteContext| *route_ctx.route().actor.vehicle.dimens.get_vehicle_id().unwrap() == vehicle_id;
        let route_idx = ctx.solution.routes.iter().position(is_vehicle).unwrap_or_else(|| {
            let actor = ctx
                .solution
                .registry
                .next_route()
                .find(|route_ctx| is_vehicle(route_ctx))
                .map(|route_ctx| route_ctx.route().actor.clone())
                .expect("cannot find vehicle");
            let route_ctx = ctx.solution.registry.get_route(&actor).expect("vehicle is already used");
            ctx.solution.routes.push(route_ctx);
            ctx.solution.routes.len() - 1
        });
        let result = eval_job_insertion_in_route(
            &ctx,
            &EvaluationContext {
                goal: problem.goal.as_ref(),
                job: &job,
                leg_selection: &LegSelection::Exhaustive,
                result_selector: &BestResultSelector::default(),
            },
            &ctx.solution.routes[route_idx],
            InsertionPosition::Last,
            InsertionResult::make_failure(),
        );
        let success = match result {
            InsertionResult::Success(success) => success,
            InsertionResult::Failure(failure) => panic!("cannot insert {job_id}: {:?}", failure.constraint),
        };
        let route = ctx.solution.routes[route_idx].route_mut();
        success.activities.into_iter().for_each(|(activity, index)| {
            route.tour.insert_at(activity, index + 1);
        });
        ctx.solution.required.retain(|j| *j != job);
        problem.goal.accept_insertion(&mut ctx.solution, route_idx, &job);
    }

    let unassigned = ctx.solution.required.drain(..).collect::<Vec<_>>();
    ctx.solution.unassigned.extend(unassigned.into_iter().map(|job| (job, UnassignmentInfo::Unknown)));
    problem.goal.accept_solution_state(&mut ctx.solution);
    ctx
}

fn cbits(x: f64) -> Value {
    if x.is_nan() { Value::String(0x7FF8000000000000u64.to_string()) } else { bits_of(x) }
}

/// [route-level estimate, activity-level estimate (null when the job cannot be inserted)] of every given context for the move
/// "job j<job> into the tour of vehicle v<vehicle> (a new tour if the vehicle is unused), last position" in the given solution
fn estimates(problem: &Arc<Problem>, ctxs: &[GoalContext], solution: &InsertionContext, job: i64, vehicle: i64) -> Vec<Value> {
    let job_id = format!("j{}", job);
    let vehicle_id = format!("v{}", vehicle);
    let job = problem.jobs.all().iter().find(|j| j.dimens().get_job_id().is_some_and(|id| *id == job_id)).cloned().expect("job");
    let is_vehicle =
        |route_ctx: &RouteContext| *route_ctx.route().actor.vehicle.dimens.get_vehicle_id().unwrap() == vehicle_id;
    let fresh;
    let route_ctx = match solution.solution.routes.iter().find(|r| is_vehicle(r)) {
        Some(r) => r,
        None => {
            fresh = solution.solution.registry.next_route().find(|r| is_vehicle(r)).expect("vehicle").deep_copy();
            &fresh
        }
    };
    let result = eval_job_insertion_in_route(
        solution,
        &EvaluationContext {
            goal: problem.goal.as_ref(),
            job: &job,
            leg_selection: &LegSelection::Exhaustive,
            result_selector: &BestResultSelector::default(),
        },
        route_ctx,
        InsertionPosition::Last,
        InsertionResult::make_failure(),
    );
    let row = |c: InsertionCost| Value::Array(c.iter().map(cbits).collect());
    ctxs.iter()
        .map(|gc| {
            let route_level = row(gc.estimate(&MoveContext::route(&solution.solution, route_ctx, &job)));
            let activity_level = match &result {
                InsertionResult::Success(success) if success.activities.len() == 1 => {
                    let (target, index) = (&success.activities[0].0, success.activities[0].1);
                    let tour = &route_ctx.route().tour;
                    let activity_ctx =
                        ActivityContext { index, prev: tour.get(index).expect("prev"), target, next: tour.get(index + 1) };
                    row(gc.estimate(&MoveContext::activity(&solution.solution, route_ctx, &activity_ctx)))
                }
                _ => Value::Null,
            };
            json!([route_level, activity_level])
        })
        .collect()
}

fn follow(gc: &GoalContext, path: &Value) -> GoalContext {
    path.as_array().unwrap().iter().fold(gc.clone(), |c, step| {
        c.maybe_new(&ScriptedRandom { hit: i64_of(&step[0]) != 0, draw: i64_of(&step[1]) as i32 })
    })
}

fn observe(gc: &GoalContext, a: &InsertionContext, b: &InsertionContext) -> Vec<Value> {
    vec![
        json!([ord_of(gc.total_order(a, b)), ord_of(gc.total_order(b, a)), ord_of(gc.total_order(a, a))]),
        Value::Array(gc.fitness(a).map(bits_of).collect()),
        Value::Array(gc.fitness(b).map(bits_of).collect()),
    ]
}

/// builds a solution of a problem read by a scientific reader: [[job index, vehicle index], ..] (indices into jobs.all() and into
/// the routes of the registry), every job appended last to the tour
fn create_solution_by_index(problem: &Arc<Problem>, assignment: &Value) -> InsertionContext {
    let mut ctx = InsertionContext::new(problem.clone(), Arc::new(Environment::default()));
    let jobs = ctx.solution.unassigned.drain().map(|(job, _)| job).collect::<Vec<_>>();
    ctx.solution.required.extend(jobs);
    problem.goal.accept_solution_state(&mut ctx.solution);
    let actors: Vec<_> = ctx.solution.registry.next_route().map(|r| r.route().actor.clone()).collect();
    for pair in assignment.as_array().unwrap() {
        let job = problem.jobs.all()[usize_of(&pair[0])].clone();
        let actor = actors[usize_of(&pair[1]) % actors.len()].clone();
        let route_idx = ctx.solution.routes.iter().position(|r| r.route().actor == actor).unwrap_or_else(|| {
            let route_ctx = ctx.solution.registry.get_route(&actor).expect("vehicle is already used");
            ctx.solution.routes.push(route_ctx);
            ctx.solution.routes.len() - 1
        });
        let result = eval_job_insertion_in_route(
            &ctx,
            &EvaluationContext {
                goal: problem.goal.as_ref(),
                job: &job,
                leg_selection: &LegSelection::Exhaustive,
                result_selector: &BestResultSelector::default(),
            },
            &ctx.solution.routes[route_idx],
            InsertionPosition::Last,
            InsertionResult::make_failure(),
        );
        let success = match result {
            InsertionResult::Success(success) => success,
            InsertionResult::Failure(failure) => panic!("cannot insert job: {:?}", failure.constraint),
        };
        let route = ctx.solution.routes[route_idx].route_mut();
        success.activities.into_iter().for_each(|(activity, index)| {
            route.tour.insert_at(activity, index + 1);
        });
        ctx.solution.required.retain(|j| *j != job);
        problem.goal.accept_insertion(&mut ctx.solution, route_idx, &job);
    }
    let unassigned = ctx.solution.required.drain(..).collect::<Vec<_>>();
    ctx.solution.unassigned.extend(unassigned.into_iter().map(|job| (job, UnassignmentInfo::Unknown)));
    problem.goal.accept_solution_state(&mut ctx.solution);
    ctx
}

/// the goal contexts of the scientific text readers: {"sci": {"fmt": solomon|lilim|tsplib, "text": ..}, solutions, pairs, paths}
fn run_sci(case: &Value) -> Value {
    let text = case["sci"]["text"].as_str().unwrap().to_string();
    let problem = match case["sci"]["fmt"].as_str().unwrap() {
        "solomon" => text.read_solomon(false),
        "lilim" => text.read_lilim(false),
        _ => text.read_tsplib(false),
    };
    let problem = match problem {
        Ok(p) => Arc::new(p),
        Err(e) => {
            let msg = e.to_string();
            return json!({"obs": [[-1, err_code(&msg)]], "err": msg});
        }
    };
    let goal = problem.goal.as_ref();
    let solutions: Vec<InsertionContext> =
        case["solutions"].as_array().unwrap().iter().map(|s| create_solution_by_index(&problem, s)).collect();
    // the values of (unassigned, tours, distance): what the built-in alternative reports at positions 0, 2, 3 (position 1 is known_edge)
    let builtin = follow(goal, &json!([[1, 0]]));
    let fit: Vec<Value> = solutions
        .iter()
        .map(|s| {
            let f: Vec<Float> = builtin.fitness(s).collect();
            json!([bits_of(f[0]), bits_of(f[2]), bits_of(f[3])])
        })
        .collect();
    let shape: Vec<Value> =
        solutions.iter().map(|s| json!([s.solution.routes.len(), s.solution.unassigned.len()])).collect();
    let ctxs: Vec<GoalContext> = case["paths"].as_array().unwrap().iter().map(|p| follow(goal, p)).collect();
    let mut obs = Vec::new();
    for pair in case["pairs"].as_array().unwrap() {
        let (a, b) = (&solutions[usize_of(&pair[0])], &solutions[usize_of(&pair[1])]);
        for gc in ctxs.iter() {
            obs.extend(observe(gc, a, b));
        }
    }
    json!({"obs": obs, "fit": fit, "shape": shape, "est": []})
}

pub fn run_case(case: &Value) -> Value {
    if !case["sci"].is_null() {
        return run_sci(case);
    }
    let (problem, matrix) = documents(case, &case["objectives"]);
    let problem = match (problem, vec![matrix]).read_pragmatic() {
        Ok(p) => Arc::new(p),
        Err(e) => {
            let msg = e.to_string();
            return json!({"obs": [[-1, err_code(&msg)]], "err": msg});
        }
    };
    let goal = problem.goal.as_ref();
    let solutions: Vec<InsertionContext> =
        case["solutions"].as_array().unwrap().iter().map(|s| create_solution(&problem, s)).collect();
    // the values of the objectives, solution by solution, as the MAIN goal context reports them
    let fit: Vec<Value> = solutions.iter().map(|s| Value::Array(goal.fitness(s).map(bits_of).collect())).collect();
    let shape: Vec<Value> = solutions
        .iter()
        .map(|s| json!([s.solution.routes.len(), s.solution.unassigned.len()]))
        .collect();
    let ctxs: Vec<GoalContext> = case["paths"].as_array().unwrap().iter().map(|p| follow(goal, p)).collect();
    let mut obs = Vec::new();
    for pair in case["pairs"].as_array().unwrap() {
        let (a, b) = (&solutions[usize_of(&pair[0])], &solutions[usize_of(&pair[1])]);
        for gc in ctxs.iter() {
            obs.extend(observe(gc, a, b));
        }
    }
    // estimates: the contexts of the document against the single objectives reported by the twin document
    let mut est = Vec::new();
    if let Some(moves) = case.get("moves").and_then(|m| m.as_array()).filter(|m| !m.is_empty()) {
        let (twin, matrix) = documents(case, &case["twin"]);
        let twin = Arc::new((twin, vec![matrix]).read_pragmatic().expect("the twin document is not accepted"));
        let twin_solutions: Vec<InsertionContext> =
            case["solutions"].as_array().unwrap().iter().map(|s| create_solution(&twin, s)).collect();
        let twin_ctx = [twin.goal.as_ref().clone()];
        for m in moves {
            let (si, job, vehicle) = (usize_of(&m[0]), i64_of(&m[1]), i64_of(&m[2]));
            let single = estimates(&twin, &twin_ctx, &twin_solutions[si], job, vehicle).remove(0);
            let rows = estimates(&problem, &ctxs, &solutions[si], job, vehicle);
            est.push(json!({"single": single, "ctx": rows}));
        }
    }
    json!({"obs": obs, "fit": fit, "shape": shape, "est": est})
}

fn main() {
    vh::main_loop(run_case);
}
