//! C13: the real read_solomon / read_lilim / read_tsplib, write_solomon / write_tsplib and read_init_solution
//! of vrp-scientific on generated instance text; dumps the core Problem (jobs, places, demand dimension, fleet,
//! coordinate index, routing matrix through the TransportCost trait) and initial-solution routes.
use serde_json::{json, Value};
use std::collections::HashMap;
use std::io::{BufReader, BufWriter};
use std::sync::Arc;
use vrp_core::construction::features::{JobDemandDimension, VehicleCapacityDimension};
use vrp_core::models::common::*;
use vrp_core::models::problem::*;
use vrp_core::models::solution::{Activity, Registry, Route, Tour};
use vrp_core::models::{Problem, Solution};
use vrp_core::prelude::*;
use vrp_scientific::common::{read_init_solution, CoordIndexExtraProperty};
use vrp_scientific::lilim::LilimProblem;
use vrp_scientific::solomon::{SolomonProblem, SolomonSolution};
use vrp_scientific::tsplib::{TsplibProblem, TsplibSolution};

/// integer-valued floats travel as integers, f64::MAX as "max", anything else as "b<bits>"
fn num(x: f64) -> Value {
    if x == f64::MAX {
        json!("max")
    } else if x.is_finite() && x.fract() == 0. && x.abs() < 9007199254740992. {
        json!(x as i64)
    } else {
        json!(format!("b{}", x.to_bits()))
    }
}

fn dump_single(s: &Single) -> Value {
    let demand = s.dimens.get_job_demand::<SingleDimLoad>().map(|d| {
        json!([d.pickup.0.value, d.pickup.1.value, d.delivery.0.value, d.delivery.1.value])
    });
    let places: Vec<Value> = s
        .places
        .iter()
        .map(|p| {
            let times: Vec<Value> = p
                .times
                .iter()
                .map(|t| match t {
                    TimeSpan::Window(w) => json!([num(w.start), num(w.end)]),
                    TimeSpan::Offset(o) => json!(["offset", num(o.start), num(o.end)]),
                })
                .collect();
            json!({"loc": p.location, "dur": num(p.duration), "times": times})
        })
        .collect();
    json!({"id": s.dimens.get_job_id().cloned(), "demand": demand, "places": places})
}

fn dump_place(p: &Option<VehiclePlace>) -> Value {
    match p {
        None => Value::Null,
        Some(p) => json!({"loc": p.location, "earliest": p.time.earliest.map(num), "latest": p.time.latest.map(num)}),
    }
}

/// reads the instance the way `vrp-cli solve <fmt> <file> [--round]` does: through the format registry of
/// vrp-cli/src/extensions/solve/formats.rs (`get_formats(is_rounded, random)`), from a file
fn read_problem_cli(fmt: &str, text: &str, rounded: bool) -> Result<Problem, GenericError> {
    use std::io::Write;
    let formats = vrp_cli::extensions::solve::formats::get_formats(rounded, Arc::new(DefaultRandom::default()));
    let (reader, _, _, _) = formats.get(fmt).ok_or_else(|| GenericError::from(format!("unknown format: {fmt}")))?;
    let path = std::env::temp_dir().join(format!(
        "vh-c13-{}-{:?}-{}.txt",
        std::process::id(),
        std::thread::current().id(),
        text.len()
    ));
    {
        let mut f = std::fs::File::create(&path).map_err(|e| GenericError::from(e.to_string()))?;
        f.write_all(text.as_bytes()).map_err(|e| GenericError::from(e.to_string()))?;
    }
    let file = std::fs::File::open(&path).map_err(|e| GenericError::from(e.to_string()));
    let res = file.and_then(|f| (reader.0)(f, None));
    let _ = std::fs::remove_file(&path);
    res
}

fn temp_path(tag: &str, len: usize) -> std::path::PathBuf {
    std::env::temp_dir().join(format!("vh-c13-{}-{}-{:?}-{}.txt", tag, std::process::id(), std::thread::current().id(), len))
}

/// writes the solution the way `vrp-cli solve <fmt> ... -o file` does: through the SolutionWriter of the format registry
fn write_solution_cli(fmt: &str, problem: &Problem, solution: Solution, rounded: bool) -> Result<String, GenericError> {
    let formats = vrp_cli::extensions::solve::formats::get_formats(rounded, Arc::new(DefaultRandom::default()));
    let (_, _, writer, _) = formats.get(fmt).ok_or_else(|| GenericError::from(format!("unknown format: {fmt}")))?;
    let path = temp_path("w", solution.routes.len());
    let res = {
        let file = std::fs::File::create(&path).map_err(|e| GenericError::from(e.to_string()))?;
        let out: BufWriter<Box<dyn std::io::Write>> = BufWriter::new(Box::new(file));
        (writer.0)(problem, solution, out, None)
    };
    let text = std::fs::read_to_string(&path).map_err(|e| GenericError::from(e.to_string()));
    let _ = std::fs::remove_file(&path);
    res.and(text)
}

/// reads an initial solution the way `vrp-cli solve <fmt> ... --init-solution file` does
fn read_init_cli(fmt: &str, text: &str, problem: Arc<Problem>, rounded: bool) -> Result<Solution, GenericError> {
    use std::io::Write;
    let formats = vrp_cli::extensions::solve::formats::get_formats(rounded, Arc::new(DefaultRandom::default()));
    let (_, init_reader, _, _) = formats.get(fmt).ok_or_else(|| GenericError::from(format!("unknown format: {fmt}")))?;
    let path = temp_path("i", text.len());
    {
        let mut f = std::fs::File::create(&path).map_err(|e| GenericError::from(e.to_string()))?;
        f.write_all(text.as_bytes()).map_err(|e| GenericError::from(e.to_string()))?;
    }
    let file = std::fs::File::open(&path).map_err(|e| GenericError::from(e.to_string()));
    let _ = std::fs::remove_file(&path);
    file.and_then(|f| (init_reader.0)(f, problem))
}

fn read_problem(fmt: &str, text: &str, rounded: bool) -> Result<Problem, GenericError> {
    match fmt {
        "solomon" => text.to_string().read_solomon(rounded),
        "lilim" => text.to_string().read_lilim(rounded),
        "tsplib" => text.to_string().read_tsplib(rounded),
        _ => panic!("unknown fmt"),
    }
}

fn dump_problem(problem: &Problem) -> Value {
    let jobs: Vec<Value> = problem
        .jobs
        .all()
        .iter()
        .map(|job| match job {
            Job::Single(s) => json!({"k": "s", "s": dump_single(s)}),
            Job::Multi(m) => {
                let subs: Vec<Value> = m.jobs.iter().map(|s| dump_single(s)).collect();
                json!({"k": "m", "id": m.dimens.get_job_id().cloned(), "subs": subs})
            }
        })
        .collect();
    let vehicles: Vec<Value> = problem
        .fleet
        .vehicles
        .iter()
        .map(|v| {
            let details: Vec<Value> =
                v.details.iter().map(|d| json!({"start": dump_place(&d.start), "end": dump_place(&d.end)})).collect();
            json!({"id": v.dimens.get_vehicle_id().cloned(),
                   "cap": v.dimens.get_vehicle_capacity::<SingleDimLoad>().map(|c| c.value),
                   "details": details})
        })
        .collect();
    let coords: Vec<Value> = problem
        .extras
        .get_coord_index()
        .map(|ci| ci.locations.iter().map(|(x, y)| json!([x, y])).collect())
        .unwrap_or_default();
    let n = problem.transport.size();
    let profile = Profile::default();
    let mut dist = vec![];
    let mut dur = vec![];
    for a in 0..n {
        for b in 0..n {
            dist.push(num(problem.transport.distance_approx(&profile, a, b)));
            dur.push(num(problem.transport.duration_approx(&profile, a, b)));
        }
    }
    // the route-based accessors of the same trait (need an actor, i.e. at least one vehicle)
    let mut rdist = vec![];
    let mut rdur = vec![];
    if !problem.fleet.actors.is_empty() {
        let registry = Registry::new(&problem.fleet, Arc::new(DefaultRandom::default()));
        let actor = registry.next().next().unwrap();
        let route = Route { actor: actor.clone(), tour: Tour::new(&actor) };
        for a in 0..n {
            for b in 0..n {
                rdist.push(num(problem.transport.distance(&route, a, b, TravelTime::Departure(0.))));
                rdur.push(num(problem.transport.duration(&route, a, b, TravelTime::Departure(0.))));
            }
        }
    }
    json!({"jobs": jobs, "vehicles": vehicles, "drivers": problem.fleet.drivers.len(), "coords": coords,
           "size": n, "dist": dist, "dur": dur, "rdist": rdist, "rdur": rdur})
}

fn routes_of(solution: &Solution) -> Vec<Vec<String>> {
    solution
        .routes
        .iter()
        .map(|r| {
            r.tour
                .all_activities()
                .filter(|a| a.job.is_some())
                .map(|a| a.retrieve_job().unwrap().dimens().get_job_id().cloned().unwrap_or_default())
                .collect()
        })
        .collect()
}

/// builds a Solution by hand: one route per id list, actors taken from a registry
fn build_solution(problem: &Arc<Problem>, routes: &[Vec<String>], cost: f64) -> Solution {
    let random: Arc<dyn Random> = Arc::new(DefaultRandom::default());
    let mut registry = Registry::new(&problem.fleet, random);
    let id_map: HashMap<String, Arc<Single>> = problem
        .jobs
        .all()
        .iter()
        .flat_map(|j| match j {
            Job::Single(s) => vec![s.clone()],
            Job::Multi(m) => m.jobs.clone(),
        })
        .filter_map(|s| s.dimens.get_job_id().cloned().map(|id| (id, s)))
        .collect();
    let mut out = vec![];
    for ids in routes {
        let actor = registry.next().next().expect("harness: more routes than vehicles");
        let mut tour = Tour::new(&actor);
        for id in ids {
            let single = id_map.get(id).expect("harness: unknown job id in route");
            let place = &single.places[0];
            tour.insert_last(Activity {
                place: vrp_core::models::solution::Place {
                    idx: 0,
                    location: place.location.unwrap(),
                    duration: place.duration,
                    time: place.times.first().and_then(|span| span.as_time_window()).unwrap(),
                },
                schedule: Schedule::new(0.0, 0.0),
                job: Some(single.clone()),
                commute: None,
            });
        }
        registry.use_actor(&actor);
        out.push(Route { actor, tour });
    }
    Solution { cost, registry, routes: out, unassigned: Default::default(), telemetry: None }
}

pub fn run_case(case: &Value) -> Value {
    let op = case["op"].as_str().unwrap();
    let fmt = case["fmt"].as_str().unwrap();
    let text = case["text"].as_str().unwrap();
    let rounded = case["rounded"].as_bool().unwrap_or(false);
    let via_cli = case["via"].as_str() == Some("cli");
    // the name handed to the registry (normally the format itself)
    let cli_name = case["cli_name"].as_str().unwrap_or(fmt).to_string();
    let cli_init_name = case["cli_init_name"].as_str().unwrap_or(fmt).to_string();
    let read_problem = |fmt: &str, text: &str, rounded: bool| {
        if via_cli { read_problem_cli(&cli_name, text, rounded) } else { read_problem(fmt, text, rounded) }
    };
    match op {
        "read" => match read_problem(fmt, text, rounded) {
            Ok(p) => json!({"status": "ok", "problem": dump_problem(&p)}),
            Err(e) if e.to_string().starts_with("unknown format: ") => json!({"status": "unknown-format", "err": e.to_string()}),
            Err(e) => json!({"status": "err", "err": e.to_string()}),
        },
        // the std text primitives the readers are built from, on single words / whole texts
        "parse" => {
            let words: Vec<Value> = case["words"]
                .as_array()
                .unwrap()
                .iter()
                .map(|w| {
                    let w = w.as_str().unwrap();
                    json!([w.parse::<i32>().ok(), w.parse::<usize>().ok().map(|v| v.to_string()),
                           w.parse::<f64>().ok().map(|v| v.round() as i32)])
                })
                .collect();
            json!({"status": "ok", "words": words})
        }
        "import" => {
            // vrp-cli import registry: which format names it knows at all (no readers are handed over)
            let names: Vec<Value> = case["names"]
                .as_array()
                .unwrap()
                .iter()
                .map(|n| {
                    let r = vrp_cli::extensions::import::import_problem::<&[u8]>(n.as_str().unwrap(), None);
                    json!(match r {
                        Ok(_) => true,
                        Err(e) => !e.to_string().starts_with("unknown format"),
                    })
                })
                .collect();
            json!({"status": "ok", "known": names})
        }
        "words" => {
            // BufRead::read_line + split_whitespace, as read_line / skip_lines of text_reader.rs use them
            use std::io::BufRead;
            let mut reader = BufReader::new(text.as_bytes());
            let mut buffer = String::new();
            let mut lines = vec![];
            loop {
                buffer.clear();
                match reader.read_line(&mut buffer) {
                    Ok(n) if n > 0 => lines.push(json!(buffer.split_whitespace().collect::<Vec<_>>())),
                    _ => break,
                }
            }
            json!({"status": "ok", "lines": lines})
        }
        "init" => {
            let problem = match read_problem(fmt, text, rounded) {
                Ok(p) => Arc::new(p),
                Err(e) => return json!({"status": "err", "err": e.to_string()}),
            };
            let job_ids: Vec<Value> = problem
                .jobs
                .all()
                .iter()
                .map(|j| json!(j.dimens().get_job_id().cloned()))
                .collect();
            // 1. write (unless the case brings its own initial-solution text)
            let (written, write_err) = match case.get("init_text").and_then(|v| v.as_str()) {
                Some(t) => (t.to_string(), None),
                None => {
                    let routes: Vec<Vec<String>> = case["routes"]
                        .as_array()
                        .unwrap()
                        .iter()
                        .map(|r| r.as_array().unwrap().iter().map(|x| x.as_str().unwrap().to_string()).collect())
                        .collect();
                    // the cost is the double cost_num / 2^cost_shift (exact)
                    let cost = case["cost_num"].as_i64().unwrap_or(0) as f64
                        / (1u64 << case["cost_shift"].as_u64().unwrap_or(0)) as f64;
                    let mut solution = build_solution(&problem, &routes, cost);
                    // jobs listed as unassigned in the Solution (write_text_solution refuses such a solution)
                    if let Some(ids) = case.get("mark_unassigned").and_then(|v| v.as_array()) {
                        for id in ids {
                            let id = id.as_str().unwrap();
                            if let Some(job) =
                                problem.jobs.all().iter().find(|j| j.dimens().get_job_id().map(|s| s.as_str()) == Some(id))
                            {
                                solution
                                    .unassigned
                                    .push((job.clone(), vrp_core::construction::heuristics::UnassignmentInfo::Unknown));
                            }
                        }
                    }
                    if via_cli {
                        match write_solution_cli(fmt, &problem, solution, rounded) {
                            Ok(t) => (t, None),
                            Err(e) => (String::new(), Some(e.to_string())),
                        }
                    } else {
                        let mut writer = BufWriter::new(Vec::new());
                        let r = match fmt {
                            "solomon" => solution.write_solomon(&mut writer),
                            "tsplib" => solution.write_tsplib(&mut writer),
                            "lilim" => {
                                use vrp_scientific::lilim::LilimSolution;
                                solution.write_lilim(&mut writer)
                            }
                            _ => panic!("no writer for fmt"),
                        };
                        let text = String::from_utf8(writer.into_inner().unwrap()).unwrap();
                        (text, r.err().map(|e| e.to_string()))
                    }
                }
            };
            if let Some(e) = write_err {
                return json!({"status": "write-err", "err": e});
            }
            // 2. read back
            let random: Arc<dyn Random> = Arc::new(DefaultRandom::default());
            let back = if via_cli {
                read_init_cli(&cli_init_name, &written, problem.clone(), rounded)
            } else {
                read_init_solution(BufReader::new(written.as_bytes()), problem.clone(), random)
            };
            match back {
                Ok(s) => {
                    let mut un: Vec<String> =
                        s.unassigned.iter().map(|(j, _)| j.dimens().get_job_id().cloned().unwrap_or_default()).collect();
                    un.sort();
                    json!({"status": "ok", "written": written, "routes": routes_of(&s),
                           "unassigned": s.unassigned.len(), "unassigned_ids": un, "job_ids": job_ids,
                           "vehicles": problem.fleet.vehicles.len()})
                }
                Err(e) => json!({"status": "read-err", "written": written, "err": e.to_string()}),
            }
        }
        _ => panic!("unknown op"),
    }
}

fn main() {
    vh::main_loop(run_case);
}
