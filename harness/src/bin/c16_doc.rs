//! C16, sub-stream c16_doc: from pragmatic DOCUMENTS to routing answers on the real code.
//! ops: doc  (problem json [+ matrices json] -> read_pragmatic -> problem.transport.{duration,distance}(route of the vehicle, from, to,
//!            TravelTime::{Departure,Arrival}(t)), Profile{index, scale} of every vehicle, coord index of every location;
//!            without matrices: map_to_problem_with_approx, plus the approximated matrices of `create_approx_matrices` and the RAW
//!            haversine distances recovered through the public API with profile speeds 2^-e: travel time = round(d * 2^e))
//!      bs   (slice::binary_search on u64 lists: the std loop modelled by std_bsearch)
//!      hav  (rounded approximation between two coordinates given as f64 bit patterns, both directions; used by
//!            tools/c16_asym_search.py, the bisection that found the witness of finding C16-F6)
//! Values travel as f64 bit patterns (decimal strings); inputs are exact rationals [num, den] (den a power of two).
use serde_json::{json, Value};
use std::panic::{catch_unwind, AssertUnwindSafe};
use vh::util::*;
use vrp_core::models::problem::{TravelTime, VehicleIdDimension};
use vrp_core::models::solution::{Route, Tour};
use vrp_core::models::Problem;
use vrp_pragmatic::format::problem::{create_approx_matrices, deserialize_problem, PragmaticProblem};
use vrp_pragmatic::format::CoordIndexExtraProperty;
use vrp_pragmatic::format::Location as ApiLocation;

fn q_of(n: &Value, d: &Value) -> f64 {
    i64_of(n) as f64 / i64_of(d) as f64
}

fn guarded(f: impl FnOnce() -> f64) -> Value {
    match catch_unwind(AssertUnwindSafe(f)) {
        Ok(x) => bits_of(x),
        Err(_) => Value::String("panic".to_string()),
    }
}

fn loc_json(l: &Value, coords: &[(f64, f64)]) -> Value {
    match l[0].as_str().unwrap() {
        "ref" => json!({"index": usize_of(&l[1])}),
        "coord" => {
            let c = coords[usize_of(&l[1])];
            json!({"lat": c.0, "lng": c.1})
        }
        "custom" => json!({"type": "unknown"}),
        _ => panic!("unknown location kind"),
    }
}

fn api_loc(l: &Value, coords: &[(f64, f64)]) -> ApiLocation {
    match l[0].as_str().unwrap() {
        "ref" => ApiLocation::Reference { index: usize_of(&l[1]) },
        "coord" => {
            let c = coords[usize_of(&l[1])];
            ApiLocation::Coordinate { lat: c.0, lng: c.1 }
        }
        _ => ApiLocation::Custom { r#type: vrp_pragmatic::format::CustomLocationType::Unknown },
    }
}

fn route_of(problem: &Problem, vid: &str) -> Route {
    let actor = problem
        .fleet
        .actors
        .iter()
        .find(|a| a.vehicle.dimens.get_vehicle_id().map(|s| s.as_str()) == Some(vid))
        .expect("actor")
        .clone();
    let tour = Tour::new(&actor);
    Route { actor, tour }
}

fn problem_json(case: &Value, coords: &[(f64, f64)], profiles: Vec<Value>) -> Value {
    let jobs: Vec<Value> = case["jobs"]
        .as_array()
        .unwrap()
        .iter()
        .enumerate()
        .map(|(k, l)| {
            json!({"id": format!("j{k}"),
                   "deliveries": [{"places": [{"location": loc_json(l, coords), "duration": 1.0}], "demand": [1]}]})
        })
        .collect();
    let vehicles: Vec<Value> = case["vehicles"]
        .as_array()
        .unwrap()
        .iter()
        .enumerate()
        .map(|(k, v)| {
            let mut profile = json!({"matrix": format!("p{}", i64_of(&v[0]))});
            if i64_of(&v[2]) != 0 {
                profile["scale"] = json!(q_of(&v[1], &v[2]));
            }
            json!({
                "typeId": format!("t{k}"), "vehicleIds": [format!("v{k}")], "profile": profile,
                "costs": {"fixed": 1.0, "distance": 1.0, "time": 1.0},
                "shifts": [{"start": {"earliest": "1970-01-01T00:00:00Z", "location": loc_json(&v[3], coords)}}],
                "capacity": [10]
            })
        })
        .collect();
    json!({"plan": {"jobs": jobs}, "fleet": {"vehicles": vehicles, "profiles": profiles}})
}

fn op_doc(case: &Value) -> Value {
    let coords: Vec<(f64, f64)> = case["coords"]
        .as_array()
        .map(|a| a.iter().map(|l| (q_of(&l[0], &l[1]), q_of(&l[2], &l[3]))).collect())
        .unwrap_or_default();
    let profiles: Vec<Value> = case["profiles"]
        .as_array()
        .unwrap()
        .iter()
        .map(|p| {
            let mut o = json!({"name": format!("p{}", i64_of(&p[0]))});
            if !p[1].is_null() {
                o["speed"] = json!(q_of(&p[1][0], &p[1][1]));
            }
            o
        })
        .collect();
    let text = problem_json(case, &coords, profiles).to_string();
    let mut out = json!({});

    let read = if case["mats"].is_null() {
        // approximation path; first the matrices themselves and the raw distances
        let api = deserialize_problem(std::io::BufReader::new(text.as_bytes())).expect("api problem");
        let mats = create_approx_matrices(&api);
        out["approx"] = json!(mats
            .iter()
            .map(|m| json!({"profile": m.profile, "times": m.travel_times, "dists": m.distances,
                            "ts": m.timestamp, "err": m.error_codes}))
            .collect::<Vec<_>>());
        if case["raw"].as_bool().unwrap_or(false) {
            let probe: Vec<Value> =
                (0..=62).map(|e| json!({"name": format!("e{e}"), "speed": (2.0_f64).powi(-e)})).collect();
            let ptext = problem_json(case, &coords, probe).to_string();
            let papi = deserialize_problem(std::io::BufReader::new(ptext.as_bytes())).expect("probe problem");
            let pm = create_approx_matrices(&papi);
            let cells = pm.first().map(|m| m.travel_times.len()).unwrap_or(0);
            let raw: Vec<Value> = (0..cells)
                .map(|c| {
                    // the largest exponent whose product is not saturated
                    let mut best = (pm[0].travel_times[c], 0_i64);
                    for (e, m) in pm.iter().enumerate() {
                        let v = m.travel_times[c];
                        if v.unsigned_abs() < (1_u64 << 62) {
                            best = (v, e as i64);
                        }
                    }
                    json!([best.0.to_string(), best.1])
                })
                .collect();
            out["raw"] = json!(raw);
        }
        text.read_pragmatic()
    } else {
        let matrices: Vec<String> = case["mats"]
            .as_array()
            .unwrap()
            .iter()
            .map(|m| {
                let mut o = json!({"travelTimes": m["times"], "distances": m["dists"]});
                if !m["profile"].is_null() {
                    o["profile"] = json!(format!("p{}", i64_of(&m["profile"])));
                }
                if !m["ts"].is_null() {
                    o["timestamp"] = m["tss"].clone();
                }
                if !m["err"].is_null() {
                    o["errorCodes"] = m["err"].clone();
                }
                o.to_string()
            })
            .collect();
        (text, matrices).read_pragmatic()
    };
    let problem = match read {
        Ok(p) => p,
        Err(e) => {
            out["build"] = json!("err");
            out["codes"] = json!(e.errors.iter().map(|e| e.code.clone()).collect::<Vec<_>>());
            out["msg"] = json!(e.errors.iter().map(|e| format!("{}: {} {}", e.code, e.cause, e.action)).collect::<Vec<_>>().join(" | "));
            return out;
        }
    };
    let nveh = case["vehicles"].as_array().unwrap().len();
    let vehicles: Vec<Value> = (0..nveh)
        .map(|k| {
            let r = route_of(&problem, &format!("v{k}"));
            json!([r.actor.vehicle.profile.index, bits_of(r.actor.vehicle.profile.scale)])
        })
        .collect();
    let ci = problem.extras.get_coord_index().expect("coord index");
    let ans: Vec<Value> = case["qs"]
        .as_array()
        .unwrap()
        .iter()
        .map(|q| {
            let route = route_of(&problem, &format!("v{}", i64_of(&q[0])));
            let (from, to) = (usize_of(&q[1]), usize_of(&q[2]));
            let t = q_of(&q[3], &q[4]);
            let tt = |t: f64| if i64_of(&q[5]) == 0 { TravelTime::Departure(t) } else { TravelTime::Arrival(t) };
            json!([
                guarded(|| problem.transport.duration(&route, from, to, tt(t))),
                guarded(|| problem.transport.distance(&route, from, to, tt(t))),
            ])
        })
        .collect();
    let all_locs: Vec<&Value> = case["jobs"]
        .as_array()
        .unwrap()
        .iter()
        .chain(case["vehicles"].as_array().unwrap().iter().map(|v| &v[3]))
        .collect();
    let loc_idx: Vec<Value> = all_locs
        .iter()
        .map(|l| match ci.get_by_loc(&api_loc(l, &coords)) {
            Some(k) => json!(k),
            None => json!(-1),
        })
        .collect();
    let custom_idx = match ci.get_by_loc(&ApiLocation::Custom { r#type: vrp_pragmatic::format::CustomLocationType::Unknown }) {
        Some(k) => json!(k),
        None => json!(-1),
    };
    out["build"] = json!("ok");
    out["size"] = json!(problem.transport.size());
    out["vehicles"] = json!(vehicles);
    out["ans"] = json!(ans);
    out["loc_idx"] = json!(loc_idx);
    out["custom_idx"] = custom_idx;
    out
}

fn op_bs(case: &Value) -> Value {
    let l: Vec<u64> = i64s_of(&case["l"]).into_iter().map(|x| x as u64).collect();
    let ans: Vec<Value> = i64s_of(&case["xs"])
        .into_iter()
        .map(|x| match l.binary_search(&(x as u64)) {
            Ok(k) => json!([0, k]),
            Err(k) => json!([1, k]),
        })
        .collect();
    json!({"ans": ans})
}

/// rounded approximation between two coordinates given as f64 bit patterns: [d(0,1), d(1,0), t(0,1), t(1,0)] per pair
fn op_hav(case: &Value) -> Value {
    let ans: Vec<Value> = case["pairs"]
        .as_array()
        .unwrap()
        .iter()
        .map(|p| {
            let f = |k: usize| f64::from_bits(p[k].as_str().unwrap().parse::<u64>().unwrap());
            let c = json!({"op": "doc", "profiles": [], "vehicles": [[1, 0, 0, ["coord", 0]]], "jobs": [["coord", 1]]});
            let coords = vec![(f(0), f(1)), (f(2), f(3))];
            let text = problem_json(&c, &coords, vec![json!({"name": "p1"})]).to_string();
            let api = deserialize_problem(std::io::BufReader::new(text.as_bytes())).expect("api problem");
            let m = create_approx_matrices(&api);
            // index order: job location (coordinate 1) first, then the vehicle start (coordinate 0)
            json!([m[0].distances[2], m[0].distances[1], m[0].travel_times[2], m[0].travel_times[1]])
        })
        .collect();
    json!({"ans": ans})
}

pub fn run_case(case: &Value) -> Value {
    match case["op"].as_str().unwrap() {
        "doc" => op_doc(case),
        "bs" => op_bs(case),
        "hav" => op_hav(case),
        _ => panic!("unknown op"),
    }
}

fn main() {
    vh::main_loop(run_case);
}
