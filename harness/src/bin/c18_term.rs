//! C18 sub-stream `c18_term`: the termination structs and the statistics / distance / noise helpers of rosomaxa called directly
//! (public API): MaxGeneration / MaxTime / CompositeTermination::{estimate, is_termination}, MinVariation (sample and period
//! interval types) and TargetProximity::is_termination over a scripted HeuristicContext whose Stateful store the harness owns
//! (so the window state of MinVariation can be read back), get_mean_slice / get_variance / get_cv / relative_distance,
//! Noise::{generate, generate_multi} with a scripted Random.  The wall clock cannot be scripted (Timer wraps Instant): the
//! harness brackets every clock read of the code between two reads of its own (MaxTime) or reads the time stamp the code stored
//! in the window state (MinVariation period mode); both are oracle arguments of the Coq model.
use rosomaxa::algorithms::math::{get_cv, get_mean_slice, get_variance, relative_distance};
use rosomaxa::prelude::*;
use rosomaxa::termination::{CompositeTermination, MaxGeneration, MaxTime, MinVariation, TargetProximity};
use rosomaxa::utils::{Noise, RandomGen, Timer};
use serde_json::{json, Value};
use std::any::Any;
use std::cmp::Ordering;
use std::collections::HashMap;
use std::sync::{Arc, Mutex};
use vh::util::*;

// ------------------------------------------------------------------ scripted heuristic context
struct Sol {
    fit: Vec<f64>,
}
impl HeuristicSolution for Sol {
    fn fitness(&self) -> impl Iterator<Item = Float> {
        self.fit.iter().cloned()
    }
    fn deep_copy(&self) -> Self {
        Sol { fit: self.fit.clone() }
    }
}
struct Lex;
impl HeuristicObjective for Lex {
    type Solution = Sol;
    fn total_order(&self, a: &Sol, b: &Sol) -> Ordering {
        for (x, y) in a.fit.iter().zip(b.fit.iter()) {
            match x.partial_cmp(y) {
                Some(Ordering::Equal) | None => continue,
                Some(o) => return o,
            }
        }
        Ordering::Equal
    }
}
struct Ctx {
    objective: Lex,
    best: Option<Sol>,
    stats: HeuristicStatistics,
    phase: i64,
    env: Environment,
    state: HashMap<usize, Box<dyn Any + Send + Sync>>,
}
impl Ctx {
    fn new() -> Self {
        let env = Environment { random: Arc::new(DefaultRandom::new_repeatable()), ..Environment::default() };
        Ctx { objective: Lex, best: None, stats: HeuristicStatistics::default(), phase: 1, env, state: HashMap::new() }
    }
}
impl HeuristicContext for Ctx {
    type Objective = Lex;
    type Solution = Sol;
    fn objective(&self) -> &Lex {
        &self.objective
    }
    fn selected(&self) -> Box<dyn Iterator<Item = &'_ Sol> + '_> {
        Box::new(self.best.iter())
    }
    fn ranked(&self) -> Box<dyn Iterator<Item = &'_ Sol> + '_> {
        Box::new(self.best.iter())
    }
    fn statistics(&self) -> &HeuristicStatistics {
        &self.stats
    }
    fn selection_phase(&self) -> SelectionPhase {
        match self.phase {
            0 => SelectionPhase::Initial,
            1 => SelectionPhase::Exploration,
            _ => SelectionPhase::Exploitation,
        }
    }
    fn environment(&self) -> &Environment {
        &self.env
    }
    fn on_initial(&mut self, _: Sol, _: Timer) {}
    fn on_generation(&mut self, _: Vec<Sol>, _: Float, _: Timer) {}
    fn on_result(self) -> HeuristicResult<Lex, Sol> {
        Err("not used".into())
    }
}
impl Stateful for Ctx {
    type Key = usize;
    fn set_state<T: 'static + Send + Sync>(&mut self, key: usize, state: T) {
        self.state.insert(key, Box::new(state));
    }
    fn get_state<T: 'static + Send + Sync>(&self, key: &usize) -> Option<&T> {
        self.state.get(key).and_then(|v| v.downcast_ref::<T>())
    }
    fn state_mut<T: 'static + Send + Sync, F: Fn() -> T>(&mut self, key: usize, inserter: F) -> &mut T {
        self.state.entry(key).or_insert_with(|| Box::new(inserter())).downcast_mut::<T>().unwrap()
    }
}

fn opt_fit(v: &Value) -> Option<Vec<f64>> {
    if v.is_null() {
        None
    } else {
        Some(f64s_of(v))
    }
}

// ------------------------------------------------------------------ estimates
fn op_estimate(case: &Value) -> Value {
    // parts: ["gen", limit] | ["time", limit_bits] | ["minvar"] | ["target"]
    let mut ctx = Ctx::new();
    ctx.stats.generation = usize_of(&case["generation"]);
    ctx.best = Some(Sol { fit: vec![1.] });
    let before = Timer::start();
    let mut boxed: Vec<Box<dyn Termination<Context = Ctx, Objective = Lex>>> = vec![];
    for p in case["parts"].as_array().unwrap() {
        let t: Box<dyn Termination<Context = Ctx, Objective = Lex>> = match p[0].as_str().unwrap() {
            "gen" => Box::new(MaxGeneration::<Ctx, Lex, Sol>::new(usize_of(&p[1]))),
            "time" => Box::new(MaxTime::<Ctx, Lex, Sol>::new(f64_of(&p[1]))),
            "minvar" => Box::new(MinVariation::<Ctx, Lex, Sol, usize>::new_with_sample(3, 0.1, true, 7)),
            _ => Box::new(TargetProximity::<Ctx, Lex, Sol>::new(vec![1.], 0.5)),
        };
        boxed.push(t);
    }
    let after = Timer::start();
    let ms = case["sleep_ms"].as_u64().unwrap_or(0);
    if ms > 0 {
        std::thread::sleep(std::time::Duration::from_millis(ms));
    }
    // every clock read of the code lies between `after.elapsed` taken before the call and `before.elapsed` taken after it
    let mut singles = vec![];
    let mut fired = vec![];
    let mut brackets = vec![];
    for t in boxed.iter() {
        let lo = after.elapsed_secs_as_float();
        let e = t.estimate(&ctx);
        let f = t.is_termination(&mut ctx);
        let hi = before.elapsed_secs_as_float();
        singles.push(bits_of(e));
        fired.push(f);
        brackets.push(json!([bits_of(lo), bits_of(hi)]));
    }
    let composite = CompositeTermination::new(boxed);
    let lo = after.elapsed_secs_as_float();
    let est = composite.estimate(&ctx);
    let hi = before.elapsed_secs_as_float();
    json!({"singles": singles, "fired": fired, "brackets": brackets, "composite": bits_of(est), "cbracket": [bits_of(lo), bits_of(hi)]})
}

// ------------------------------------------------------------------ statistics
fn op_stats(case: &Value) -> Value {
    let vals = f64s_of(&case["vals"]);
    let other = f64s_of(&case["other"]);
    json!({"mean": bits_of(get_mean_slice(&vals)), "variance": bits_of(get_variance(&vals)), "cv": bits_of(get_cv(&vals)),
           "distance": bits_of(relative_distance(vals.iter(), other.iter()))})
}

// ------------------------------------------------------------------ MinVariation, sample interval
fn op_minvar(case: &Value) -> Value {
    let sample = usize_of(&case["sample"]);
    let thr = f64_of(&case["thr"]);
    let is_global = case["global"].as_bool().unwrap();
    let t = MinVariation::<Ctx, Lex, Sol, usize>::new_with_sample(sample, thr, is_global, 0);
    let mut ctx = Ctx::new();
    let mut out = vec![];
    for st in case["steps"].as_array().unwrap() {
        ctx.stats.generation = usize_of(&st["gen"]);
        ctx.phase = i64_of(&st["phase"]);
        ctx.best = opt_fit(&st["fit"]).map(|fit| Sol { fit });
        out.push(json!(t.is_termination(&mut ctx)));
    }
    json!({"fired": out})
}

// ------------------------------------------------------------------ MinVariation, period interval (wall clock)
type PState = Vec<(u128, Vec<Float>)>;

fn run_period_sub(sub: &Value) -> Value {
    let period = usize_of(&sub["period"]);
    let thr = f64_of(&sub["thr"]);
    let is_global = sub["global"].as_bool().unwrap();
    let t = MinVariation::<Ctx, Lex, Sol, usize>::new_with_period(period, thr, is_global, 0);
    let mut ctx = Ctx::new(); // statistics().time starts here
    let mut calls = vec![];
    for st in sub["steps"].as_array().unwrap() {
        let ms = st["sleep_ms"].as_u64().unwrap_or(0);
        if ms > 0 {
            std::thread::sleep(std::time::Duration::from_millis(ms));
        }
        let rep = st["rep"].as_u64().unwrap_or(1);
        for _ in 0..rep {
            ctx.phase = i64_of(&st["phase"]);
            ctx.best = opt_fit(&st["fit"]).map(|fit| Sol { fit });
            let len_before = ctx.get_state::<PState>(&0).map_or(0, |s| s.len());
            if len_before >= 1000 {
                // the compaction call: start it right after a tick of the millisecond clock so that the code reads the same value
                let t = ctx.stats.time.elapsed_millis();
                while ctx.stats.time.elapsed_millis() == t {}
            }
            let t0 = ctx.stats.time.elapsed_millis();
            let fired = t.is_termination(&mut ctx);
            let t1 = ctx.stats.time.elapsed_millis();
            let state = ctx.get_state::<PState>(&0);
            let len_after = state.map_or(0, |s| s.len());
            let last = state.and_then(|s| s.last().map(|e| e.0 as u64));
            let full = len_after <= 200 || len_after < len_before + 1;
            let entries: Value = if full {
                json!(state.map_or(vec![], |s| s.iter().map(|(tm, f)| json!([*tm as u64, f.iter().map(|x| bits_of(*x)).collect::<Vec<_>>()])).collect::<Vec<_>>()))
            } else {
                Value::Null
            };
            calls.push(json!({"fired": fired, "t0": t0 as u64, "t1": t1 as u64, "len": len_after, "last": last, "entries": entries}));
        }
    }
    json!({"calls": calls})
}

fn op_minvar_period(case: &Value) -> Value {
    // independent sub-cases run concurrently: most of their time is spent sleeping
    let subs: Vec<Value> = case["subs"].as_array().unwrap().clone();
    let handles: Vec<_> = subs
        .into_iter()
        .map(|sub| {
            std::thread::spawn(move || match std::panic::catch_unwind(std::panic::AssertUnwindSafe(|| run_period_sub(&sub))) {
                Ok(v) => v,
                Err(e) => json!({"panic": e.downcast_ref::<String>().cloned().or_else(|| e.downcast_ref::<&str>().map(|s| s.to_string())).unwrap_or_default()}),
            })
        })
        .collect();
    let res: Vec<Value> = handles.into_iter().map(|h| h.join().unwrap_or(json!({"panic": "thread"}))).collect();
    json!({"subs": res})
}

// ------------------------------------------------------------------ TargetProximity
fn op_target(case: &Value) -> Value {
    let target = f64s_of(&case["target"]);
    let thr = f64_of(&case["thr"]);
    let t = TargetProximity::<Ctx, Lex, Sol>::new(target.clone(), thr);
    let mut ctx = Ctx::new();
    ctx.best = opt_fit(&case["best"]).map(|fit| Sol { fit });
    let fired = t.is_termination(&mut ctx);
    let dist = ctx.best.as_ref().map(|b| relative_distance(target.iter(), b.fit.iter())).unwrap_or(0.);
    json!({"fired": fired, "distance": bits_of(dist), "estimate": bits_of(t.estimate(&ctx))})
}

// ------------------------------------------------------------------ Noise
struct NoiseRandom {
    hit: bool,
    u: f64,
    log: Mutex<Vec<Value>>,
}
impl Random for NoiseRandom {
    fn uniform_int(&self, _: i32, _: i32) -> i32 {
        panic!("uniform_int is not expected to be called")
    }
    fn uniform_real(&self, min: Float, max: Float) -> Float {
        self.log.lock().unwrap().push(json!(["uniform_real", bits_of(min), bits_of(max)]));
        self.u
    }
    fn is_head_not_tails(&self) -> bool {
        panic!("is_head_not_tails is not expected to be called")
    }
    fn is_hit(&self, probability: Float) -> bool {
        self.log.lock().unwrap().push(json!(["is_hit", bits_of(probability)]));
        self.hit
    }
    fn weighted(&self, _: &[usize]) -> usize {
        panic!("weighted is not expected to be called")
    }
    fn get_rng(&self) -> RandomGen {
        RandomGen::new_repeatable()
    }
}

fn op_noise(case: &Value) -> Value {
    let mut out = vec![];
    for d in case["draws"].as_array().unwrap() {
        let random = Arc::new(NoiseRandom { hit: d["hit"].as_bool().unwrap(), u: f64_of(&d["u"]), log: Mutex::new(vec![]) });
        let range = (f64_of(&d["lo"]), f64_of(&d["hi"]));
        let prob = f64_of(&d["prob"]);
        let noise = if d["add"].as_bool().unwrap() {
            Noise::new_with_addition(prob, range, random.clone())
        } else {
            Noise::new_with_ratio(prob, range, random.clone())
        };
        let value = f64_of(&d["value"]);
        let g = noise.generate(value);
        let calls = random.log.lock().unwrap().clone();
        let multi: Vec<Value> = noise.generate_multi(vec![value].into_iter()).map(bits_of).collect();
        out.push(json!({"generate": bits_of(g), "multi": multi, "calls": calls}));
    }
    json!({"draws": out})
}

pub fn run_case(case: &Value) -> Value {
    match case["op"].as_str().unwrap() {
        "estimate" => op_estimate(case),
        "stats" => op_stats(case),
        "minvar" => op_minvar(case),
        "minvar_period" => op_minvar_period(case),
        "target" => op_target(case),
        "noise" => op_noise(case),
        _ => panic!("unknown op"),
    }
}

fn main() {
    vh::main_loop(run_case);
}
