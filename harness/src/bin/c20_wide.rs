//! C20, sub-stream `c20_wide`: quote of an insertion (eval_job_insertion_in_route) vs GoalContext::fitness of the solution that a
//! recreate step (InsertionHeuristic::process) hands over with and without that insertion, for
//!  * fleets whose DRIVER has non-zero costs (the Problem is assembled through the core API: Fleet::new with an own Driver), and
//!  * candidates with several alternative places / time windows per (sub-)job: single jobs and Multi jobs of 2-3 sub-jobs,
//!    the latter with the default order of sub-jobs or an explicit list of allowed permutations (FixedJobPermutation).
//! Reported besides the quote: every activity of the quote (insertion index, place index, location, duration, window) and every
//! activity of the target tour after the real insertion (job, place index, location, duration, window, schedule).
use serde_json::{json, Value};
use std::sync::Arc;
use vh::core::*;
use vh::util::*;
use vrp_core::construction::heuristics::*;
use vrp_core::models::problem::*;
use vrp_core::models::{Extras, Problem};
use vrp_core::prelude::{InfoLogger, MultiBuilder, SimpleTransportCost};
use vrp_core::rosomaxa::prelude::HeuristicSolution;

struct OnlyJob(String);
impl JobSelector for OnlyJob {
    fn prepare(&self, _: &mut InsertionContext) {}
    fn select<'a>(&'a self, ctx: &'a InsertionContext) -> Box<dyn Iterator<Item = &'a Job> + 'a> {
        Box::new(ctx.solution.required.iter().filter(move |j| job_id(j) == self.0))
    }
}
struct OnlyVehicle(String);
impl RouteSelector for OnlyVehicle {
    fn prepare(&self, _: &mut InsertionContext) {}
    fn select<'a>(&'a self, ctx: &'a InsertionContext, _: &[&'a Job]) -> Box<dyn Iterator<Item = &'a RouteContext> + 'a> {
        Box::new(
            ctx.solution
                .routes
                .iter()
                .chain(ctx.solution.registry.next_route())
                .filter(move |r| r.route().actor.vehicle.dimens.get_vehicle_id().map_or(false, |id| *id == self.0)),
        )
    }
}

fn dummy(id: i64) -> Arc<Single> {
    Arc::new(single_of(&json!({"id": id, "places": [{"loc": 0, "svc": 0, "tws": [[0, "inf"]]}], "dem": [0, 0, 0, 0]})))
}

/// the Problem assembled field by field (ProblemBuilder always creates a driver without costs)
fn build_world_with_driver(case: &Value, vehicles: Vec<Vehicle>, jobs: Vec<Job>, goal_kind: &str) -> World {
    let n = usize_of(&case["n"]);
    let dur: Vec<f64> = i64s_of(&case["dur"]).into_iter().map(|x| x as f64).collect();
    let dist: Vec<f64> = i64s_of(&case["dist"]).into_iter().map(|x| x as f64).collect();
    assert_eq!(dur.len(), n * n);
    assert_eq!(dist.len(), n * n);
    let transport: Arc<dyn TransportCost> = Arc::new(SimpleTransportCost::new(dur, dist).unwrap());
    let goal = build_goal(goal_kind, transport.clone()).unwrap();
    let dc = i64s_of(&case["driver"]);
    let driver = Arc::new(Driver {
        costs: Costs {
            fixed: dc[0] as f64,
            per_distance: dc[1] as f64,
            per_driving_time: dc[2] as f64,
            per_waiting_time: dc[3] as f64,
            per_service_time: dc[4] as f64,
        },
        dimens: Default::default(),
        details: vec![],
    });
    let vehicles: Vec<Arc<Vehicle>> = vehicles.into_iter().map(Arc::new).collect();
    let fleet = Arc::new(Fleet::new(vec![driver], vehicles, |_| |actor: &Actor| actor.vehicle.profile.index));
    let logger: InfoLogger = Arc::new(|_| {});
    let jobs = Arc::new(Jobs::new(fleet.as_ref(), jobs, transport.as_ref(), &logger).unwrap());
    let problem = Problem {
        fleet,
        jobs,
        locks: vec![],
        goal: Arc::new(goal),
        activity: Arc::new(SimpleActivityCost::default()),
        transport: transport.clone(),
        extras: Arc::new(Extras::default()),
    };
    World { problem: Arc::new(problem), transport }
}

/// candidate job: as vh::core::job_of, plus an explicit list of allowed sub-job orders ("perms": [[1, 0], ..]) for Multi jobs
fn job_of_x(v: &Value) -> Job {
    if v["multi"].is_null() || v["perms"].is_null() {
        return job_of(v);
    }
    let mut b = MultiBuilder::default().id(&format!("m{}", i64_of(&v["id"])));
    if !v["value"].is_null() {
        let value = i64_of(&v["value"]) as f64;
        b = b.dimension(move |dimens| dimens.set_value::<JobValueKey, f64>(value));
    }
    for s in v["multi"].as_array().unwrap().iter().map(single_of) {
        b = b.add_job(s);
    }
    let perms: Vec<Vec<usize>> =
        v["perms"].as_array().unwrap().iter().map(|p| p.as_array().unwrap().iter().map(usize_of).collect()).collect();
    b.permutation(FixedJobPermutation::new(perms)).build_as_job().unwrap()
}

fn is_v0(r: &RouteContext) -> bool {
    r.route().actor.vehicle.dimens.get_vehicle_id().map_or(false, |id| id == "v0")
}

fn run_case(case: &Value) -> Value {
    let tour_desc = case["tour"].as_array().unwrap();
    let tour_singles: Vec<Arc<Single>> = tour_desc.iter().map(|a| Arc::new(single_of_act(a))).collect();
    let cand: Job = job_of_x(&case["job"]);
    let others = case["others"].as_array().cloned().unwrap_or_default();
    let other_singles: Vec<Vec<Arc<Single>>> = others
        .iter()
        .map(|o| o["tour"].as_array().unwrap().iter().map(|a| Arc::new(single_of_act(a))).collect())
        .collect();
    let n_ignored = i64_of(&case["ignored"]);
    let n_extra = i64_of(&case["extra_required"]);
    let ignored: Vec<Arc<Single>> = (0..n_ignored).map(|k| dummy(700 + k)).collect();
    let extra: Vec<Arc<Single>> = (0..n_extra).map(|k| dummy(800 + k)).collect();

    let mut jobs: Vec<Job> = tour_singles.iter().map(|s| Job::Single(s.clone())).collect();
    jobs.extend(other_singles.iter().flatten().map(|s| Job::Single(s.clone())));
    jobs.extend(ignored.iter().chain(extra.iter()).map(|s| Job::Single(s.clone())));
    jobs.push(cand.clone());
    let mut vehicles = vec![vehicle_of(&case["veh"], "v0")];
    for (k, o) in others.iter().enumerate() {
        vehicles.push(vehicle_of(&o["veh"], &format!("o{k}")));
    }
    let world = build_world_with_driver(case, vehicles, jobs, case["goal"].as_str().unwrap());
    let mut ctx = new_ctx(&world);
    for (k, o) in others.iter().enumerate() {
        let acts: Vec<(Value, Arc<Single>)> =
            o["tour"].as_array().unwrap().iter().cloned().zip(other_singles[k].iter().cloned()).collect();
        add_route(&mut ctx, k + 1, &acts);
    }
    if !tour_desc.is_empty() {
        let acts: Vec<(Value, Arc<Single>)> = tour_desc.iter().cloned().zip(tour_singles.iter().cloned()).collect();
        add_route(&mut ctx, 0, &acts);
    }
    ctx.solution.ignored = ignored.iter().map(|s| Job::Single(s.clone())).collect();
    ctx.solution.required = extra.iter().map(|s| Job::Single(s.clone())).collect();
    ctx.solution.required.push(cand.clone());
    world.problem.goal.accept_solution_state(&mut ctx.solution);

    // the quote
    let selector = BestResultSelector::default();
    let eval_ctx = EvaluationContext {
        goal: &world.problem.goal,
        job: &cand,
        leg_selection: &LegSelection::Exhaustive,
        result_selector: &selector,
    };
    let quote = {
        let route_ctx =
            ctx.solution.routes.iter().chain(ctx.solution.registry.next_route()).find(|r| is_v0(r)).expect("target route");
        match eval_job_insertion_in_route(&ctx, &eval_ctx, route_ctx, InsertionPosition::Any, InsertionResult::make_failure()) {
            InsertionResult::Success(s) => {
                let acts: Vec<Value> = s
                    .activities
                    .iter()
                    .map(|(a, idx)| {
                        json!({"index": idx, "job": a.job.as_ref().and_then(|s| s.dimens.get_job_id().cloned()), "place": a.place.idx,
                               "loc": a.place.location, "svc": t_out(a.place.duration), "tws": t_out(a.place.time.start),
                               "twe": t_out(a.place.time.end)})
                    })
                    .collect();
                json!({"ok": true, "cost": s.cost.iter().map(t_out).collect::<Vec<_>>(), "acts": acts})
            }
            InsertionResult::Failure(f) => json!({"ok": false, "code": f.constraint.0, "stopped": f.stopped}),
        }
    };

    // hand-over without the insertion: a recreate step that selects no job for insertion
    let heuristic = InsertionHeuristic::default();
    let without = heuristic.process(ctx.deep_copy(), &OnlyJob("none".into()), &OnlyVehicle("v0".into()), &LegSelection::Exhaustive, &selector);
    let fit_without: Vec<Value> = world.problem.goal.fitness(&without).map(t_out).collect();
    // hand-over with the insertion: a recreate step restricted to this job and this vehicle
    let with = heuristic.process(ctx.deep_copy(), &OnlyJob(job_id(&cand)), &OnlyVehicle("v0".into()), &LegSelection::Exhaustive, &selector);
    let fit_with: Vec<Value> = world.problem.goal.fitness(&with).map(t_out).collect();
    let inserted = with.solution.routes.iter().any(|r| r.route().tour.jobs().any(|j| job_id(j) == job_id(&cand)));
    let target_after = with.solution.routes.iter().find(|r| is_v0(r)).map(dump_schedule);
    let after_acts: Option<Vec<Value>> = with.solution.routes.iter().find(|r| is_v0(r)).map(|r| {
        r.route()
            .tour
            .all_activities()
            .map(|a| {
                json!({"job": a.job.as_ref().and_then(|s| s.dimens.get_job_id().cloned()), "place": a.place.idx, "loc": a.place.location,
                       "svc": t_out(a.place.duration), "tws": t_out(a.place.time.start), "twe": t_out(a.place.time.end)})
            })
            .collect()
    });
    json!({"quote": quote, "fit_without": fit_without, "fit_with": fit_with, "inserted": inserted,
           "after": target_after, "after_acts": after_acts,
           "unassigned_without": without.solution.unassigned.len(), "unassigned_with": with.solution.unassigned.len(),
           "routes_without": without.solution.routes.len(), "routes_with": with.solution.routes.len()})
}

fn main() {
    vh::main_loop(run_case);
}
