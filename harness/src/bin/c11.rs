//! C11: problem / matrix / solution documents through the real (de)serialisers, CSV import + validation,
//! solver output fed back through read_init_solution.
//! ops:
//!   rt   {kind: problem|matrix|solution, doc: <json text>}
//!          -> {ok:false, err} | {ok:true, v1: ser(parse(doc)), v2: ser(parse(ser(parse(doc)))), reparse_err?}
//!   flt  {bits: [u64 as string]}  -> text round trip of f64 values through serialize_solution/deserialize_solution
//!   csv  {jobs: <csv text>, vehicles: <csv text>} -> imported problem (as JSON value) + validation result
//!   init {problem: <json text>, generations, seed} -> solve, write, read back as initial solution, dump both
use serde_json::{json, Value};
use std::io::{BufReader, BufWriter};
use std::sync::Arc;
use vh::util::*;
use vrp_cli::extensions::import::read_csv_problem;
use vrp_pragmatic::format::problem::{
    deserialize_matrix, deserialize_problem, serialize_problem, Matrix, PragmaticProblem, Problem,
};
use vrp_pragmatic::format::solution::{
    deserialize_solution, read_init_solution, serialize_solution, write_pragmatic, Extras, Generation, Individual,
    Metrics, Population, PragmaticOutputType, Solution, Statistic,
};
use vrp_pragmatic::format::{CoordIndex, JobIndexExtraProperty};
use vrp_pragmatic::validation::ValidationContext;

fn ser_problem(p: &Problem) -> String {
    let mut w = BufWriter::new(Vec::new());
    serialize_problem(p, &mut w).expect("serialize problem");
    String::from_utf8(w.into_inner().unwrap()).unwrap()
}

fn ser_solution(s: &Solution) -> String {
    let mut w = BufWriter::new(Vec::new());
    serialize_solution(s, &mut w).expect("serialize solution");
    String::from_utf8(w.into_inner().unwrap()).unwrap()
}

fn ser_matrix(m: &Matrix) -> String {
    // there is no serialize_matrix in the crate: the derived Serialize is the writer
    serde_json::to_string_pretty(m).expect("serialize matrix")
}

fn value_of(text: &str) -> Value {
    serde_json::from_str(text).expect("serialised document is not JSON")
}

fn rt<T>(
    doc: &str,
    parse: impl Fn(&str) -> Result<T, String>,
    ser: impl Fn(&T) -> String,
) -> Value {
    match parse(doc) {
        Err(e) => json!({"ok": false, "err": e}),
        Ok(p1) => {
            let s1 = ser(&p1);
            match parse(&s1) {
                Err(e) => json!({"ok": true, "v1": value_of(&s1), "reparse_err": e}),
                Ok(p2) => {
                    let s2 = ser(&p2);
                    json!({"ok": true, "v1": value_of(&s1), "v2": value_of(&s2), "text_equal": s1 == s2})
                }
            }
        }
    }
}

fn op_rt(case: &Value) -> Value {
    let doc = case["doc"].as_str().unwrap();
    match case["kind"].as_str().unwrap() {
        "problem" => rt(
            doc,
            |t| deserialize_problem(BufReader::new(t.as_bytes())).map_err(|e| e.to_string()),
            ser_problem,
        ),
        "matrix" => rt(
            doc,
            |t| deserialize_matrix(BufReader::new(t.as_bytes())).map_err(|e| e.to_string()),
            ser_matrix,
        ),
        "solution" => rt(
            doc,
            |t| deserialize_solution(BufReader::new(t.as_bytes())).map_err(|e| e.to_string()),
            ser_solution,
        ),
        _ => panic!("unknown kind"),
    }
}

fn op_flt(case: &Value) -> Value {
    let xs = f64s_of(&case["bits"]);
    let solution = Solution {
        statistic: Statistic { cost: xs.first().copied().unwrap_or(0.), ..Statistic::default() },
        tours: vec![],
        unassigned: None,
        violations: None,
        extras: Some(Extras {
            metrics: Some(Metrics {
                duration: 0,
                generations: 0,
                speed: 0.,
                evolution: vec![Generation {
                    number: 0,
                    timestamp: 0.,
                    i_all_ratio: 0.,
                    i_1000_ratio: 0.,
                    is_improvement: false,
                    population: Population { individuals: vec![Individual { difference: 0., fitness: xs.clone() }] },
                }],
            }),
            features: None,
        }),
    };
    let s1 = ser_solution(&solution);
    let back = match deserialize_solution(BufReader::new(s1.as_bytes())) {
        Ok(s) => s,
        Err(e) => return json!({"ok": false, "err": e.to_string(), "text": s1}),
    };
    let ys = back.extras.as_ref().unwrap().metrics.as_ref().unwrap().evolution[0].population.individuals[0]
        .fitness
        .clone();
    let s2 = ser_solution(&back);
    let back2 = deserialize_solution(BufReader::new(s2.as_bytes())).expect("second parse");
    let zs =
        back2.extras.as_ref().unwrap().metrics.as_ref().unwrap().evolution[0].population.individuals[0].fitness.clone();
    json!({"ok": true,
           "back": ys.iter().map(|y| bits_of(*y)).collect::<Vec<_>>(),
           "back2": zs.iter().map(|y| bits_of(*y)).collect::<Vec<_>>(),
           "cost_back": bits_of(back.statistic.cost),
           "text_equal": s1 == s2})
}

fn op_csv(case: &Value) -> Value {
    let jobs = case["jobs"].as_str().unwrap();
    let vehicles = case["vehicles"].as_str().unwrap();
    match read_csv_problem(BufReader::new(jobs.as_bytes()), BufReader::new(vehicles.as_bytes())) {
        Err(e) => json!({"ok": false, "err": e.to_string()}),
        Ok(problem) => {
            let value = value_of(&ser_problem(&problem));
            let coord_index = CoordIndex::new(&problem);
            let validation = match ValidationContext::new(&problem, None, &coord_index).validate() {
                Ok(()) => json!([]),
                Err(errs) => json!(errs.errors.iter().map(|e| e.code.clone()).collect::<Vec<_>>()),
            };
            json!({"ok": true, "problem": value, "validation": validation})
        }
    }
}

pub fn run_case(case: &Value) -> Value {
    match case["op"].as_str().unwrap() {
        "rt" => op_rt(case),
        "flt" => op_flt(case),
        "csv" => op_csv(case),
        _ => panic!("unknown op"),
    }
}

fn main() {
    vh::main_loop(run_case);
}
