//! C11: problem / matrix / solution documents through the real (de)serialisers, CSV import + validation,
//! solver output fed back through read_init_solution.
//! ops:
//!   rt   {kind: problem|matrix|solution, doc: <json text>}
//!          -> {ok:false, err} | {ok:true, v1: ser(parse(doc)), v2: ser(parse(ser(parse(doc)))), reparse_err?}
//!   flt  {bits: [u64 as string]}  -> text round trip of f64 values through serialize_solution/deserialize_solution
//!   csv  {jobs: <csv text>, vehicles: <csv text>} -> imported problem (as JSON value) + validation result
//!   init {problem: <json text>, generations, seed} -> solve, write, read back as initial solution, dump both
use serde_json::{json, Value};
use std::io::{BufReader, BufWriter};
use std::sync::Arc;
use vh::util::*;
use vrp_cli::extensions::import::read_csv_problem;
use vrp_pragmatic::format::problem::{
    deserialize_matrix, deserialize_problem, serialize_problem, Matrix, PragmaticProblem, Problem,
};
use vrp_pragmatic::format::solution::{
    deserialize_solution, read_init_solution, serialize_solution, write_pragmatic, Extras, Generation, Individual,
    Metrics, Population, PragmaticOutputType, Solution, Statistic,
};
use vrp_core::models::problem::{JobIdDimension, Multi, VehicleIdDimension};
use vrp_core::models::{Problem as CoreProblem, Solution as CoreSolution};
use vrp_core::prelude::*;
use vrp_core::rosomaxa::utils::{DefaultRandom, Environment, Parallelism};
use vrp_core::solver::{Solver, VrpConfigBuilder};
use vrp_pragmatic::format::{CoordIndex, CoordIndexExtraProperty, JobTypeDimension, ShiftIndexDimension};
use vrp_pragmatic::validation::ValidationContext;

fn ser_problem(p: &Problem) -> String {
    let mut w = BufWriter::new(Vec::new());
    serialize_problem(p, &mut w).expect("serialize problem");
    String::from_utf8(w.into_inner().unwrap()).unwrap()
}

fn ser_solution(s: &Solution) -> String {
    let mut w = BufWriter::new(Vec::new());
    serialize_solution(s, &mut w).expect("serialize solution");
    String::from_utf8(w.into_inner().unwrap()).unwrap()
}

fn ser_matrix(m: &Matrix) -> String {
    // there is no serialize_matrix in the crate: the derived Serialize is the writer
    serde_json::to_string_pretty(m).expect("serialize matrix")
}

fn value_of(text: &str) -> Value {
    serde_json::from_str(text).expect("serialised document is not JSON")
}

fn rt<T>(
    doc: &str,
    parse: impl Fn(&str) -> Result<T, String>,
    ser: impl Fn(&T) -> String,
) -> Value {
    match parse(doc) {
        Err(e) => json!({"ok": false, "err": e}),
        Ok(p1) => {
            let s1 = ser(&p1);
            match parse(&s1) {
                Err(e) => json!({"ok": true, "v1": value_of(&s1), "reparse_err": e}),
                Ok(p2) => {
                    let s2 = ser(&p2);
                    json!({"ok": true, "v1": value_of(&s1), "v2": value_of(&s2), "text_equal": s1 == s2})
                }
            }
        }
    }
}

fn op_rt(case: &Value) -> Value {
    let doc = case["doc"].as_str().unwrap();
    match case["kind"].as_str().unwrap() {
        "problem" => rt(
            doc,
            |t| deserialize_problem(BufReader::new(t.as_bytes())).map_err(|e| e.to_string()),
            ser_problem,
        ),
        "matrix" => rt(
            doc,
            |t| deserialize_matrix(BufReader::new(t.as_bytes())).map_err(|e| e.to_string()),
            ser_matrix,
        ),
        "solution" => rt(
            doc,
            |t| deserialize_solution(BufReader::new(t.as_bytes())).map_err(|e| e.to_string()),
            ser_solution,
        ),
        _ => panic!("unknown kind"),
    }
}

fn op_flt(case: &Value) -> Value {
    let xs = f64s_of(&case["bits"]);
    let solution = Solution {
        statistic: Statistic { cost: xs.first().copied().unwrap_or(0.), ..Statistic::default() },
        tours: vec![],
        unassigned: None,
        violations: None,
        extras: Some(Extras {
            metrics: Some(Metrics {
                duration: 0,
                generations: 0,
                speed: 0.,
                evolution: vec![Generation {
                    number: 0,
                    timestamp: 0.,
                    i_all_ratio: 0.,
                    i_1000_ratio: 0.,
                    is_improvement: false,
                    population: Population { individuals: vec![Individual { difference: 0., fitness: xs.clone() }] },
                }],
            }),
            features: None,
        }),
    };
    let s1 = ser_solution(&solution);
    let back = match deserialize_solution(BufReader::new(s1.as_bytes())) {
        Ok(s) => s,
        Err(e) => return json!({"ok": false, "err": e.to_string(), "text": s1}),
    };
    let ys = back.extras.as_ref().unwrap().metrics.as_ref().unwrap().evolution[0].population.individuals[0]
        .fitness
        .clone();
    let s2 = ser_solution(&back);
    let back2 = deserialize_solution(BufReader::new(s2.as_bytes())).expect("second parse");
    let zs =
        back2.extras.as_ref().unwrap().metrics.as_ref().unwrap().evolution[0].population.individuals[0].fitness.clone();
    json!({"ok": true,
           "back": ys.iter().map(|y| bits_of(*y)).collect::<Vec<_>>(),
           "back2": zs.iter().map(|y| bits_of(*y)).collect::<Vec<_>>(),
           "cost_back": bits_of(back.statistic.cost),
           "text_equal": s1 == s2})
}

fn op_csv(case: &Value) -> Value {
    let jobs = case["jobs"].as_str().unwrap();
    let vehicles = case["vehicles"].as_str().unwrap();
    match read_csv_problem(BufReader::new(jobs.as_bytes()), BufReader::new(vehicles.as_bytes())) {
        Err(e) => json!({"ok": false, "err": e.to_string()}),
        Ok(problem) => {
            let value = value_of(&ser_problem(&problem));
            let coord_index = CoordIndex::new(&problem);
            let validation = match ValidationContext::new(&problem, None, &coord_index).validate() {
                Ok(()) => json!([]),
                Err(errs) => json!(errs.errors.iter().map(|e| e.code.clone()).collect::<Vec<_>>()),
            };
            json!({"ok": true, "problem": value, "validation": validation})
        }
    }
}

fn end_of(x: f64) -> Value {
    if x >= 1e300 { Value::Null } else { json!(x as i64) }
}

/// customer-job activities of a core solution, per route, in visiting order, with the place the activity uses
fn dump_solution(problem: &CoreProblem, solution: &CoreSolution) -> Value {
    let coord_index = problem.extras.get_coord_index().expect("coord index");
    let mut routes = vec![];
    for route in solution.routes.iter() {
        let dimens = &route.actor.vehicle.dimens;
        let vehicle_id = dimens.get_vehicle_id().cloned().unwrap_or_default();
        let shift = dimens.get_shift_index().copied().unwrap_or(0);
        let mut acts = vec![];
        // vehicle-specific activities (optional breaks, reloads, recharges) with the conditional job they belong to
        let mut vacts = vec![];
        // every job activity of the tour in visiting order (customer and vehicle-specific ones interleaved)
        let mut seq = vec![];
        for a in route.tour.all_activities() {
            let single = match a.job.as_ref() {
                Some(s) => s,
                None => continue,
            };
            let ty = single.dimens.get_job_type().cloned().unwrap_or_default();
            if matches!(ty.as_str(), "break" | "reload" | "recharge") {
                let job_id = single.dimens.get_job_id().cloned().unwrap_or_default();
                vacts.push(json!({
                    "job_id": job_id, "type": ty, "place": a.place.idx, "loc": a.place.location,
                    "dur": a.place.duration as i64, "tw": [a.place.time.start as i64, end_of(a.place.time.end)],
                    "arr": a.schedule.arrival as i64, "dep": a.schedule.departure as i64,
                    "frac": a.place.duration.fract() != 0. || a.place.time.start.fract() != 0.,
                }));
                seq.push(json!([ty, job_id]));
                continue;
            }
            if !matches!(ty.as_str(), "pickup" | "delivery" | "replacement" | "service") {
                continue;
            }
            let (job_id, sub) = match Multi::roots(single) {
                Some(multi) => (
                    multi.dimens.get_job_id().cloned().unwrap_or_default(),
                    multi.jobs.iter().position(|s| Arc::ptr_eq(s, single)).map(|p| p as i64).unwrap_or(-1),
                ),
                None => (single.dimens.get_job_id().cloned().unwrap_or_default(), 0),
            };
            acts.push(json!({
                "job_id": job_id, "type": ty, "sub": sub, "place": a.place.idx, "loc": a.place.location,
                "location": coord_index.get_by_idx(a.place.location).map(|l| serde_json::to_value(l).unwrap()),
                "dur": a.place.duration as i64, "tw": [a.place.time.start as i64, end_of(a.place.time.end)],
                "frac": a.place.duration.fract() != 0. || a.place.time.start.fract() != 0.,
                "arr": a.schedule.arrival as i64, "dep": a.schedule.departure as i64,
            }));
            seq.push(json!([ty, job_id, sub]));
        }
        let start_dep = route.tour.start().map(|a| a.schedule.departure as i64);
        routes.push(json!({"vehicle_id": vehicle_id, "shift": shift, "acts": acts, "vacts": vacts, "seq": seq,
                           "start_dep": start_dep}));
    }
    let mut unassigned: Vec<String> =
        solution.unassigned.iter().filter_map(|(job, _)| job.dimens().get_job_id().cloned()).collect();
    unassigned.sort();
    json!({"routes": routes, "unassigned": unassigned})
}

fn op_init(case: &Value) -> Value {
    let problem_text = case["problem"].as_str().unwrap();
    let matrix_text = case["matrix"].as_str().unwrap();
    let generations = case["generations"].as_u64().unwrap_or(2) as usize;
    let problem = deserialize_problem(BufReader::new(problem_text.as_bytes())).expect("problem document");
    let matrix = deserialize_matrix(BufReader::new(matrix_text.as_bytes())).expect("matrix document");
    let core = match (problem, vec![matrix]).read_pragmatic() {
        Ok(p) => Arc::new(p),
        Err(e) => return json!({"status": "problem-rejected", "err": e.to_string()}),
    };
    let environment = Arc::new(Environment {
        random: Arc::new(DefaultRandom::new_repeatable()),
        parallelism: Parallelism::new_with_cpus(1),
        logger: Arc::new(|_: &str| {}),
        ..Environment::default()
    });
    let solution = VrpConfigBuilder::new(core.clone())
        .set_environment(environment.clone())
        .prebuild()
        .expect("prebuild")
        .with_max_generations(Some(generations))
        .build()
        .map(|config| Solver::new(core.clone(), config))
        .expect("solver")
        .solve();
    let solution = match solution {
        Ok(s) => s,
        Err(e) => return json!({"status": "not-solved", "err": e.to_string()}),
    };
    let orig = dump_solution(&core, &solution);
    let mut writer = BufWriter::new(Vec::new());
    if let Err(e) = write_pragmatic(&core, &solution, PragmaticOutputType::default(), &mut writer) {
        return json!({"status": "write-err", "err": e.to_string(), "orig": orig});
    }
    let text = String::from_utf8(writer.into_inner().unwrap()).unwrap();
    let written = value_of(&text);
    match read_init_solution(BufReader::new(text.as_bytes()), core.clone(), environment.random.clone()) {
        Ok(back) => json!({"status": "ok", "orig": orig, "back": dump_solution(&core, &back), "written": written}),
        Err(e) => json!({"status": "read-err", "err": e.to_string(), "orig": orig, "written": written}),
    }
}

pub fn run_case(case: &Value) -> Value {
    match case["op"].as_str().unwrap() {
        "rt" => op_rt(case),
        "flt" => op_flt(case),
        "csv" => op_csv(case),
        "init" => op_init(case),
        _ => panic!("unknown op"),
    }
}

fn main() {
    vh::main_loop(run_case);
}
