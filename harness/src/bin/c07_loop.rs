//! C07 sub-stream "c07_loop": the REAL evolution loop (EvolutionConfigBuilder / EvolutionSimulator::run / Iterative::run /
//! Telemetry / MaxGeneration, and for the vrp domain VrpConfigBuilder + Solver::solve) driven with USER-SUPPLIED pluggable pieces:
//!   * a scripted `HyperHeuristic` (public trait rosomaxa::hyper::HyperHeuristic, installed with
//!     EvolutionConfigBuilder::with_heuristic / VrpConfigBuilder::set_heuristic) that wraps a built-in one and, per generation,
//!     hands over nothing / everything / every offspring several times (deep copies), and adds scripted `diversify_many` results;
//!   * a scripted `HeuristicPopulation` that wraps a built-in one and selects no / fewer parents in scripted generations;
//!   * a scripted `Termination` that wraps the builder's criteria, observes every evaluation and optionally adds a criterion that is
//!     reached only through the statistics (`statistics().generation >= limit`).
//! Every call of the wrappers is appended to ONE event log, so the number of executed loop iterations (= calls of `search_many`)
//! is the implementation's own count, independent of the telemetry.
//!
//! case: {"op":"loop", "domain":"vrp"|"scalar",
//!        "problem": <pragmatic problem>, "matrices": [..]                       (vrp)
//!        "scalar": {"init": [[x, y, ..], ..]}                                   (scalar: one initial operator per point)
//!        "config": {"max_generations": n|null, "quota_after_polls": k|null, "seed": s,
//!                   "hyper":   {"inner": "dynamic"|"static"|"copy", "script": [m, ..], "default": m},
//!                              m = -1: the inner heuristic is not called, nothing handed over; 0: called, everything dropped;
//!                                  1: handed over as is; 2, 3, ..: every offspring handed over m times
//!                   "diverse": {"script": [d, ..], "default": d}   d = -1: the inner diversify_many; d >= 0: d copies of the first parent
//!                   "population": {"kind": "greedy"|"elitism", "selection_size": n, "script": [c, ..], "default": c}
//!                              c = -1: inner select(); 0: no parent; n > 0: the first n of inner select()
//!                              "phase": {"script": [f, ..], "default": f}  f = 0: the inner selection_phase(); 1: Exploration; 2: Initial
//!                   "user_termination": L|null, "init_size": n (default 4), "max_calls": watchdog (default 4 * (limit + 2) + 8),
//!                   "init_ops": n|null (number of initial operators: scalar = one per point, vrp = the first n default ones),
//!                   "weights": [w, ..] (default 1 each), "track_population": T (default 1), "max_time": secs|null,
//!                   "delay_ms": sleep between building the configuration and running it (default 0),
//!                   "iter_sleep_ms": sleep inside every search_many call (default 0)}
//!        "scalar": {"init": [[x, ..], ..], "individuals": [[x, ..], ..] (with_init_solutions)}
//! res:  {"outcome": "solution"|"error", "error": msg, "solution": <document> (vrp) | "best": [[data], fitness] (scalar),
//!        "search_calls": n, "diversify_calls": n,
//!        "gens": [{"stat": statistics().generation seen by search_many, "parents": p, "inner": r, "returned": x, "diverse": d}],
//!        "term": [[statistics().generation, answer], ..], "adds": [sizes of add / add_all], "pop_on_generation": [statistics.generation],
//!        "selects": [parents handed out], "creates": [operator index per create], "n_ops": initial operators installed, "fits": [first fitness value of every individual
//!        handed to the population, in order], "events": "compact event string" (t/T is_termination, e estimate, c create, a add,
//!        p select, d diversify_many, s search_many, A add_all, g population.on_generation), "generations": metrics.generations,
//!        "evolution": [TelemetryGeneration.number, ..], "polls": n, "poll_sites": [..], "watchdog": bool}
use serde_json::{json, Value};
use std::cmp::Ordering as CmpOrdering;
use std::fmt::{Display, Formatter};
use std::io::BufWriter;
use std::sync::atomic::{AtomicBool, AtomicUsize, Ordering};
use std::sync::{Arc, Mutex};
use vrp_core::construction::heuristics::InsertionContext;
use vrp_core::models::GoalContext;
use vrp_core::prelude::*;
use vrp_core::rosomaxa::evolution::{
    EvolutionConfig, EvolutionConfigBuilder, EvolutionSimulator, InitialOperator, InitialOperators, TelemetryMetrics, TelemetryMode,
};
use vrp_core::rosomaxa::example::{VectorContext, VectorInitialOperator, VectorObjective, VectorSolution};
use vrp_core::rosomaxa::hyper::{DynamicSelective, HeuristicDiversifyOperator, HeuristicSearchOperator, HyperHeuristic, StaticSelective};
use vrp_core::rosomaxa::population::{Elitism, Greedy, HeuristicPopulation, SelectionPhase};
use vrp_core::rosomaxa::prelude::{HeuristicContext, HeuristicObjective, HeuristicSolution, HeuristicStatistics};
use vrp_core::rosomaxa::termination::Termination;
use vrp_core::rosomaxa::utils::{DefaultRandom, Parallelism, Quota, Random};
use vrp_core::solver::{
    create_default_init_operators, get_default_heuristic, get_static_heuristic, RefinementContext, Solver, VrpConfigBuilder,
};
use vrp_pragmatic::format::problem::PragmaticProblem;
use vrp_pragmatic::format::solution::{write_pragmatic, PragmaticOutputType};

// ------------------------------------------------------------------------------------------------ quota
/// turns true at its k-th poll (1-based; k = 0: true from the very first poll) and stays true; `force`: the watchdog of the
/// scripted heuristic ends a run that does not end by itself
struct CountingQuota {
    polls: AtomicUsize,
    fire_at: Option<usize>,
    force: AtomicBool,
    sites: Mutex<Vec<&'static str>>,
}

fn poll_site() -> &'static str {
    let bt = std::backtrace::Backtrace::force_capture().to_string();
    for line in bt.lines() {
        if line.contains("exchange_swap_star") {
            return "swap_star";
        }
        if line.contains("InsertionHeuristic") && line.contains("process") {
            return "insertion";
        }
        if line.contains("decompose_search") {
            return "decompose";
        }
        if line.contains("strategies::iterative") {
            return "iterative";
        }
    }
    "other"
}

impl Quota for CountingQuota {
    fn is_reached(&self) -> bool {
        let site = poll_site();
        self.sites.lock().unwrap().push(site);
        let n = self.polls.fetch_add(1, Ordering::SeqCst) + 1;
        if self.force.load(Ordering::SeqCst) {
            return true;
        }
        match self.fire_at {
            Some(k) => n >= k,
            None => false,
        }
    }
}

// ------------------------------------------------------------------------------------------------ scripts and the event log
#[derive(Clone)]
struct Script {
    items: Vec<i64>,
    default: i64,
}

impl Script {
    fn read(v: &Value, default: i64) -> Self {
        Self {
            items: v["script"].as_array().map(|a| a.iter().map(|x| x.as_i64().unwrap_or(default)).collect()).unwrap_or_default(),
            default: v["default"].as_i64().unwrap_or(default),
        }
    }
    fn at(&self, g: usize) -> i64 {
        self.items.get(g).copied().unwrap_or(self.default)
    }
}

#[derive(Default)]
struct Log {
    search_calls: usize,
    diversify_calls: usize,
    pending_diverse: usize,
    gens: Vec<Value>,
    term: Vec<Value>,
    adds: Vec<usize>,
    pop_on_generation: Vec<usize>,
    selects: Vec<usize>,
    creates: Vec<usize>,
    n_ops: usize,
    fits: Vec<f64>,
    events: String,
    watchdog: bool,
}

type SharedLog = Arc<Mutex<Log>>;

// ------------------------------------------------------------------------------------------------ scripted hyper-heuristic
struct ScriptedHeuristic<C, O, S>
where
    C: HeuristicContext<Objective = O, Solution = S>,
    O: HeuristicObjective<Solution = S>,
    S: HeuristicSolution,
{
    inner: Option<Box<dyn HyperHeuristic<Context = C, Objective = O, Solution = S>>>,
    script: Script,
    diverse: Script,
    log: SharedLog,
    quota: Arc<CountingQuota>,
    max_calls: usize,
    iter_sleep_ms: u64,
}

impl<C, O, S> Display for ScriptedHeuristic<C, O, S>
where
    C: HeuristicContext<Objective = O, Solution = S>,
    O: HeuristicObjective<Solution = S>,
    S: HeuristicSolution,
{
    fn fmt(&self, f: &mut Formatter<'_>) -> std::fmt::Result {
        write!(f, "scripted heuristic")
    }
}

impl<C, O, S> HyperHeuristic for ScriptedHeuristic<C, O, S>
where
    C: HeuristicContext<Objective = O, Solution = S>,
    O: HeuristicObjective<Solution = S>,
    S: HeuristicSolution,
{
    type Context = C;
    type Objective = O;
    type Solution = S;

    fn search(&mut self, heuristic_ctx: &Self::Context, solution: &Self::Solution) -> Vec<Self::Solution> {
        self.search_many(heuristic_ctx, vec![solution])
    }

    fn search_many(&mut self, heuristic_ctx: &Self::Context, solutions: Vec<&Self::Solution>) -> Vec<Self::Solution> {
        let g = {
            let mut log = self.log.lock().unwrap();
            let g = log.search_calls;
            log.search_calls += 1;
            log.events.push('s');
            if log.search_calls > self.max_calls {
                log.watchdog = true;
                self.quota.force.store(true, Ordering::SeqCst);
            }
            g
        };
        if self.iter_sleep_ms > 0 {
            std::thread::sleep(std::time::Duration::from_millis(self.iter_sleep_ms));
        }
        let m = self.script.at(g);
        let parents = solutions.len();
        let stat = heuristic_ctx.statistics().generation;
        let inner_result: Vec<S> = if m < 0 {
            vec![]
        } else {
            match self.inner.as_mut() {
                Some(inner) => inner.search_many(heuristic_ctx, solutions),
                None => solutions.iter().map(|s| s.deep_copy()).collect(),
            }
        };
        let inner_len = inner_result.len();
        let out: Vec<S> = match m {
            m if m <= 0 => vec![],
            1 => inner_result,
            m => inner_result.iter().flat_map(|s| (0..m).map(|_| s.deep_copy()).collect::<Vec<_>>()).collect(),
        };
        let mut log = self.log.lock().unwrap();
        let diverse = std::mem::take(&mut log.pending_diverse);
        log.gens.push(json!({"stat": stat, "parents": parents, "inner": inner_len, "returned": out.len(), "diverse": diverse}));
        out
    }

    fn diversify(&self, heuristic_ctx: &Self::Context, solution: &Self::Solution) -> Vec<Self::Solution> {
        self.diversify_many(heuristic_ctx, vec![solution])
    }

    fn diversify_many(&self, heuristic_ctx: &Self::Context, solutions: Vec<&Self::Solution>) -> Vec<Self::Solution> {
        // Iterative::run calls diversify_many BEFORE search_many of the same iteration: its generation index is the number of
        // search_many calls made so far
        let g = {
            let mut log = self.log.lock().unwrap();
            log.diversify_calls += 1;
            log.events.push('d');
            log.search_calls
        };
        let d = self.diverse.at(g);
        let out: Vec<S> = if d < 0 {
            match self.inner.as_ref() {
                Some(inner) => inner.diversify_many(heuristic_ctx, solutions),
                None => vec![],
            }
        } else {
            match solutions.first() {
                Some(first) => (0..d).map(|_| first.deep_copy()).collect(),
                None => vec![],
            }
        };
        self.log.lock().unwrap().pending_diverse = out.len();
        out
    }
}

// ------------------------------------------------------------------------------------------------ scripted population
struct ScriptedPopulation<O, S>
where
    O: HeuristicObjective<Solution = S>,
    S: HeuristicSolution,
{
    inner: Box<dyn HeuristicPopulation<Objective = O, Individual = S> + Send + Sync>,
    script: Script,
    phase: Script,
    log: SharedLog,
}

fn first_fitness<S: HeuristicSolution>(s: &S) -> f64 {
    s.fitness().next().unwrap_or(f64::NAN)
}

impl<O, S> HeuristicPopulation for ScriptedPopulation<O, S>
where
    O: HeuristicObjective<Solution = S>,
    S: HeuristicSolution,
{
    type Objective = O;
    type Individual = S;

    fn add_all(&mut self, individuals: Vec<Self::Individual>) -> bool {
        {
            let mut log = self.log.lock().unwrap();
            log.adds.push(individuals.len());
            log.fits.extend(individuals.iter().map(first_fitness));
            log.events.push('A');
        }
        self.inner.add_all(individuals)
    }

    fn add(&mut self, individual: Self::Individual) -> bool {
        {
            let mut log = self.log.lock().unwrap();
            log.adds.push(1);
            log.fits.push(first_fitness(&individual));
            log.events.push('a');
        }
        self.inner.add(individual)
    }

    fn on_generation(&mut self, statistics: &HeuristicStatistics) {
        {
            let mut log = self.log.lock().unwrap();
            log.pop_on_generation.push(statistics.generation);
            log.events.push('g');
        }
        self.inner.on_generation(statistics)
    }

    fn cmp(&self, a: &Self::Individual, b: &Self::Individual) -> CmpOrdering {
        self.inner.cmp(a, b)
    }

    fn select(&self) -> Box<dyn Iterator<Item = &'_ Self::Individual> + '_> {
        // the index of the loop iteration = the number of select() calls made so far (Iterative::run calls it once per iteration)
        let g = self.log.lock().unwrap().selects.len();
        let c = self.script.at(g);
        let parents: Vec<&S> = match c {
            c if c < 0 => self.inner.select().collect(),
            0 => vec![],
            c => self.inner.select().take(c as usize).collect(),
        };
        {
            let mut log = self.log.lock().unwrap();
            log.selects.push(parents.len());
            log.events.push('p');
        }
        Box::new(parents.into_iter())
    }

    fn ranked(&self) -> Box<dyn Iterator<Item = &'_ Self::Individual> + '_> {
        self.inner.ranked()
    }

    fn all(&self) -> Box<dyn Iterator<Item = &'_ Self::Individual> + '_> {
        self.inner.all()
    }

    fn size(&self) -> usize {
        self.inner.size()
    }

    fn selection_phase(&self) -> SelectionPhase {
        // Iterative::run asks once per iteration, AFTER selected(): the iteration index = select() calls made so far - 1
        let g = self.log.lock().unwrap().selects.len().saturating_sub(1);
        match self.phase.at(g) {
            1 => SelectionPhase::Exploration,
            2 => SelectionPhase::Initial,
            _ => self.inner.selection_phase(),
        }
    }
}

// ------------------------------------------------------------------------------------------------ scripted initial operator
struct ScriptedInitial<C, O, S>
where
    C: HeuristicContext<Objective = O, Solution = S>,
    O: HeuristicObjective<Solution = S>,
    S: HeuristicSolution,
{
    inner: Box<dyn InitialOperator<Context = C, Objective = O, Solution = S> + Send + Sync>,
    idx: usize,
    log: SharedLog,
}

impl<C, O, S> InitialOperator for ScriptedInitial<C, O, S>
where
    C: HeuristicContext<Objective = O, Solution = S>,
    O: HeuristicObjective<Solution = S>,
    S: HeuristicSolution,
{
    type Context = C;
    type Objective = O;
    type Solution = S;

    fn create(&self, heuristic_ctx: &Self::Context) -> Self::Solution {
        {
            let mut log = self.log.lock().unwrap();
            log.creates.push(self.idx);
            log.events.push('c');
        }
        self.inner.create(heuristic_ctx)
    }
}

fn wrap_initial<C, O, S>(operators: InitialOperators<C, O, S>, st: &Setup) -> InitialOperators<C, O, S>
where
    C: HeuristicContext<Objective = O, Solution = S> + 'static,
    O: HeuristicObjective<Solution = S> + 'static,
    S: HeuristicSolution + 'static,
{
    let keep = st.init_ops.unwrap_or(usize::MAX);
    st.log.lock().unwrap().n_ops = operators.len().min(keep);
    operators
        .into_iter()
        .take(keep)
        .enumerate()
        .map(|(idx, (inner, _))| {
            let op: Box<dyn InitialOperator<Context = C, Objective = O, Solution = S> + Send + Sync> =
                Box::new(ScriptedInitial { inner, idx, log: st.log.clone() });
            (op, st.weights.get(idx).copied().unwrap_or(1))
        })
        .collect()
}

// ------------------------------------------------------------------------------------------------ scripted termination
struct ScriptedTermination<C, O>
where
    C: HeuristicContext<Objective = O>,
    O: HeuristicObjective,
{
    inner: Box<dyn Termination<Context = C, Objective = O>>,
    user_limit: Option<usize>,
    log: SharedLog,
    quota: Arc<CountingQuota>,
    max_evaluations: usize,
}

impl<C, O> Termination for ScriptedTermination<C, O>
where
    C: HeuristicContext<Objective = O>,
    O: HeuristicObjective,
{
    type Context = C;
    type Objective = O;

    fn is_termination(&self, heuristic_ctx: &mut Self::Context) -> bool {
        let stat = heuristic_ctx.statistics().generation;
        // the builder's criteria first, then the criterion that is reached only through the statistics
        let answer = self.inner.is_termination(heuristic_ctx) || self.user_limit.is_some_and(|l| stat >= l);
        let mut log = self.log.lock().unwrap();
        log.term.push(json!([stat, answer]));
        log.events.push(if answer { 'T' } else { 't' });
        if log.term.len() > self.max_evaluations {
            // watchdog: the loop keeps evaluating the termination without ever getting there (Iterative::run polls the quota next)
            log.watchdog = true;
            self.quota.force.store(true, Ordering::SeqCst);
        }
        answer
    }

    fn estimate(&self, heuristic_ctx: &Self::Context) -> Float {
        self.log.lock().unwrap().events.push('e');
        self.inner.estimate(heuristic_ctx)
    }
}

fn wrap_termination<C, O, S>(config: EvolutionConfig<C, O, S>, st: &Setup) -> EvolutionConfig<C, O, S>
where
    C: HeuristicContext<Objective = O, Solution = S> + 'static,
    O: HeuristicObjective<Solution = S> + 'static,
    S: HeuristicSolution + 'static,
{
    let EvolutionConfig { initial, processing, context, strategy, termination } = config;
    EvolutionConfig {
        initial,
        processing,
        context,
        strategy,
        termination: Box::new(ScriptedTermination {
            inner: termination,
            user_limit: st.user_limit,
            log: st.log.clone(),
            quota: st.quota.clone(),
            max_evaluations: st.max_calls + st.init_size + 8,
        }),
    }
}

// ------------------------------------------------------------------------------------------------ common
struct Setup {
    max_generations: Option<usize>,
    user_limit: Option<usize>,
    hyper: Script,
    hyper_inner: String,
    diverse: Script,
    pop_kind: String,
    selection_size: usize,
    select: Script,
    phase: Script,
    init_size: usize,
    init_ops: Option<usize>,
    weights: Vec<usize>,
    track: usize,
    max_time: Option<usize>,
    delay_ms: u64,
    iter_sleep_ms: u64,
    max_calls: usize,
    quota: Arc<CountingQuota>,
    environment: Arc<Environment>,
    log: SharedLog,
}

fn setup(cfg: &Value) -> Setup {
    let max_generations = cfg["max_generations"].as_u64().map(|g| g as usize);
    let user_limit = cfg["user_termination"].as_u64().map(|g| g as usize);
    let seed = cfg["seed"].as_u64().unwrap_or(0);
    let fire_at = cfg["quota_after_polls"].as_u64().map(|k| k as usize);
    let random = DefaultRandom::new_repeatable();
    for _ in 0..(seed % 1024) {
        random.uniform_int(0, 1000);
    }
    let quota = Arc::new(CountingQuota {
        polls: AtomicUsize::new(0),
        fire_at,
        force: AtomicBool::new(false),
        sites: Mutex::new(vec![]),
    });
    let quota_dyn: Arc<dyn Quota> = quota.clone();
    let environment =
        Arc::new(Environment::new(Arc::new(random), Some(quota_dyn), Parallelism::default(), Arc::new(|_: &str| {}), false));
    let limit = match (max_generations, user_limit) {
        (Some(a), Some(b)) => a.min(b),
        (Some(a), None) => a,
        (None, Some(b)) => b,
        (None, None) => 3000,
    };
    Setup {
        max_generations,
        user_limit,
        hyper: Script::read(&cfg["hyper"], 1),
        hyper_inner: cfg["hyper"]["inner"].as_str().unwrap_or("dynamic").to_string(),
        diverse: Script::read(&cfg["diverse"], -1),
        pop_kind: cfg["population"]["kind"].as_str().unwrap_or("greedy").to_string(),
        selection_size: cfg["population"]["selection_size"].as_u64().unwrap_or(1).max(1) as usize,
        select: Script::read(&cfg["population"], -1),
        phase: Script::read(&cfg["population"]["phase"], 0),
        init_size: cfg["init_size"].as_u64().unwrap_or(4) as usize,
        init_ops: cfg["init_ops"].as_u64().map(|x| x as usize),
        weights: cfg["weights"].as_array().map(|a| a.iter().map(|x| x.as_u64().unwrap_or(1) as usize).collect()).unwrap_or_default(),
        track: cfg["track_population"].as_u64().unwrap_or(1) as usize,
        max_time: cfg["max_time"].as_u64().map(|x| x as usize),
        delay_ms: cfg["delay_ms"].as_u64().unwrap_or(0),
        iter_sleep_ms: cfg["iter_sleep_ms"].as_u64().unwrap_or(0),
        max_calls: cfg["max_calls"].as_u64().map(|x| x as usize).unwrap_or(4 * (limit + 2) + 8),
        quota,
        environment,
        log: Arc::new(Mutex::new(Log::default())),
    }
}

fn report(st: &Setup, metrics: Option<&TelemetryMetrics>, mut res: Value) -> Value {
    let log = st.log.lock().unwrap();
    let obj = res.as_object_mut().unwrap();
    obj.insert("search_calls".into(), json!(log.search_calls));
    obj.insert("diversify_calls".into(), json!(log.diversify_calls));
    obj.insert("gens".into(), Value::Array(log.gens.clone()));
    obj.insert("term".into(), Value::Array(log.term.clone()));
    obj.insert("adds".into(), json!(log.adds));
    obj.insert("pop_on_generation".into(), json!(log.pop_on_generation));
    obj.insert("selects".into(), json!(log.selects));
    obj.insert("creates".into(), json!(log.creates));
    obj.insert("n_ops".into(), json!(log.n_ops));
    obj.insert("fits".into(), json!(log.fits.iter().map(|f| if f.is_finite() { json!(f) } else { Value::Null }).collect::<Vec<_>>()));
    obj.insert("events".into(), json!(log.events));
    obj.insert("watchdog".into(), json!(log.watchdog));
    obj.insert("generations".into(), json!(metrics.map(|t| t.generations)));
    obj.insert("evolution".into(), json!(metrics.map(|t| t.evolution.iter().map(|g| g.number).collect::<Vec<_>>())));
    obj.insert("polls".into(), json!(st.quota.polls.load(Ordering::SeqCst)));
    obj.insert("poll_sites".into(), json!(st.quota.sites.lock().unwrap().clone()));
    res
}

// ------------------------------------------------------------------------------------------------ vrp domain
fn run_vrp(case: &Value) -> Value {
    let problem_text = case["problem"].to_string();
    let matrices: Vec<String> =
        case["matrices"].as_array().map(|ms| ms.iter().map(|m| m.to_string()).collect()).unwrap_or_default();
    let st = setup(&case["config"]);
    let problem = match (problem_text, matrices).read_pragmatic() {
        Ok(p) => Arc::new(p),
        Err(errs) => return json!({"outcome": "error", "error": format!("read: {}", errs)}),
    };
    let env = st.environment.clone();
    let inner: Option<Box<dyn HyperHeuristic<Context = RefinementContext, Objective = GoalContext, Solution = InsertionContext>>> =
        match st.hyper_inner.as_str() {
            "static" => Some(Box::new(get_static_heuristic(problem.clone(), env.clone()))),
            "copy" => None,
            _ => Some(get_default_heuristic(problem.clone(), env.clone())),
        };
    let heuristic = ScriptedHeuristic {
        inner,
        script: st.hyper.clone(),
        diverse: st.diverse.clone(),
        log: st.log.clone(),
        quota: st.quota.clone(),
        max_calls: st.max_calls,
        iter_sleep_ms: st.iter_sleep_ms,
    };
    let inner_population: Box<dyn HeuristicPopulation<Objective = GoalContext, Individual = InsertionContext> + Send + Sync> =
        match st.pop_kind.as_str() {
            "elitism" => Box::new(Elitism::new(problem.goal.clone(), env.random.clone(), 4, st.selection_size)),
            _ => Box::new(Greedy::new(problem.goal.clone(), st.selection_size, None)),
        };
    let population =
        ScriptedPopulation { inner: inner_population, script: st.select.clone(), phase: st.phase.clone(), log: st.log.clone() };
    let telemetry = TelemetryMode::OnlyMetrics { track_population: st.track };
    let initial = wrap_initial(create_default_init_operators(problem.clone(), env.clone()), &st);
    let config = VrpConfigBuilder::new(problem.clone())
        .set_environment(env.clone())
        .set_telemetry_mode(telemetry.clone())
        .set_heuristic(Box::new(heuristic))
        .prebuild()
        .and_then(|b| {
            b.with_context(RefinementContext::new(problem.clone(), Box::new(population), telemetry, env.clone()))
                .with_initial(st.init_size, 0.05, initial)
                .with_max_generations(st.max_generations)
                .with_max_time(st.max_time)
                .build()
        });
    let config = match config {
        Ok(c) => wrap_termination(c, &st),
        Err(e) => return json!({"outcome": "error", "error": format!("config: {}", e)}),
    };
    if st.delay_ms > 0 {
        std::thread::sleep(std::time::Duration::from_millis(st.delay_ms));
    }
    let solution = match Solver::new(problem.clone(), config).solve() {
        Ok(s) => s,
        Err(e) => return report(&st, None, json!({"outcome": "error", "error": format!("solve: {}", e)})),
    };
    let mut buf = BufWriter::new(Vec::new());
    if let Err(e) = write_pragmatic(&problem, &solution, PragmaticOutputType::OnlyPragmatic, &mut buf) {
        return report(&st, solution.telemetry.as_ref(), json!({"outcome": "error", "error": format!("write: {}", e)}));
    }
    let bytes = buf.into_inner().unwrap_or_default();
    let mut doc: Value = match serde_json::from_slice(&bytes) {
        Ok(v) => v,
        Err(e) => return json!({"outcome": "error", "error": format!("written solution is not JSON: {}", e)}),
    };
    if let Some(obj) = doc.as_object_mut() {
        obj.remove("extras");
    }
    report(&st, solution.telemetry.as_ref(), json!({"outcome": "solution", "solution": doc}))
}

// ------------------------------------------------------------------------------------------------ scalar domain (rosomaxa::example)
/// moves every coordinate by an integer step drawn from the environment's random
struct StepOperator;

impl HeuristicSearchOperator for StepOperator {
    type Context = VectorContext;
    type Objective = VectorObjective;
    type Solution = VectorSolution;

    fn search(&self, context: &Self::Context, solution: &Self::Solution) -> Self::Solution {
        let random = context.environment().random.as_ref();
        let data: Vec<Float> = solution.data.iter().map(|&d| d + random.uniform_int(-2, 2) as Float).collect();
        VectorSolution::new_with_objective(data, context.objective())
    }
}

impl HeuristicDiversifyOperator for StepOperator {
    type Context = VectorContext;
    type Objective = VectorObjective;
    type Solution = VectorSolution;

    fn diversify(&self, context: &Self::Context, solution: &Self::Solution) -> Vec<Self::Solution> {
        vec![self.search(context, solution)]
    }
}

fn run_scalar(case: &Value) -> Value {
    let st = setup(&case["config"]);
    let env = st.environment.clone();
    let points: Vec<Vec<Float>> = case["scalar"]["init"]
        .as_array()
        .map(|a| a.iter().map(|p| p.as_array().map(|c| c.iter().map(|x| x.as_f64().unwrap_or(0.)).collect()).unwrap_or_default()).collect())
        .unwrap_or_default();
    let objective = Arc::new(VectorObjective::new(
        Arc::new(|data: &[Float]| data.iter().map(|x| x * x).sum::<Float>()),
        Arc::new(|data: &[Float]| data.to_vec()),
    ));
    let inner: Option<Box<dyn HyperHeuristic<Context = VectorContext, Objective = VectorObjective, Solution = VectorSolution>>> =
        match st.hyper_inner.as_str() {
            "copy" => None,
            "static" => Some(Box::new(StaticSelective::new(
                vec![(Arc::new(StepOperator), (Box::new(|_, _| true), Default::default()))],
                vec![Arc::new(StepOperator)],
            ))),
            _ => Some(Box::new(DynamicSelective::new(
                vec![(Arc::new(StepOperator), "step".to_string(), 1.)],
                vec![Arc::new(StepOperator)],
                env.as_ref(),
            ))),
        };
    let heuristic = ScriptedHeuristic {
        inner,
        script: st.hyper.clone(),
        diverse: st.diverse.clone(),
        log: st.log.clone(),
        quota: st.quota.clone(),
        max_calls: st.max_calls,
        iter_sleep_ms: st.iter_sleep_ms,
    };
    let inner_population: Box<dyn HeuristicPopulation<Objective = VectorObjective, Individual = VectorSolution> + Send + Sync> =
        match st.pop_kind.as_str() {
            "elitism" => Box::new(Elitism::new(objective.clone(), env.random.clone(), 4, st.selection_size)),
            _ => Box::new(Greedy::new(objective.clone(), st.selection_size, None)),
        };
    let population =
        ScriptedPopulation { inner: inner_population, script: st.select.clone(), phase: st.phase.clone(), log: st.log.clone() };
    let context = VectorContext::new(
        objective.clone(),
        Box::new(population),
        TelemetryMode::OnlyMetrics { track_population: st.track },
        env.clone(),
    );
    let individuals: Vec<VectorSolution> = case["scalar"]["individuals"]
        .as_array()
        .map(|a| {
            a.iter()
                .map(|p| {
                    let data: Vec<Float> = p.as_array().map(|c| c.iter().map(|x| x.as_f64().unwrap_or(0.)).collect()).unwrap_or_default();
                    VectorSolution::new_with_objective(data, objective.as_ref())
                })
                .collect()
        })
        .unwrap_or_default();
    let operators = points
        .into_iter()
        .map(|p| {
            let op: Box<
                dyn vrp_core::rosomaxa::evolution::InitialOperator<Context = VectorContext, Objective = VectorObjective, Solution = VectorSolution>
                    + Send
                    + Sync,
            > = Box::new(VectorInitialOperator::new(p));
            (op, 1usize)
        })
        .collect::<Vec<_>>();
    let operators = wrap_initial(operators, &st);
    let mut builder = EvolutionConfigBuilder::<VectorContext, VectorObjective, VectorSolution, i32>::default()
        .with_heuristic(Box::new(heuristic))
        .with_objective(objective)
        .with_context(context)
        .with_max_generations(st.max_generations)
        .with_max_time(st.max_time)
        .with_initial(st.init_size, 0.05, operators);
    if !individuals.is_empty() {
        builder = builder.with_init_solutions(individuals, None);
    }
    let config = builder.build();
    let config = match config {
        Ok(c) => wrap_termination(c, &st),
        Err(e) => return json!({"outcome": "error", "error": format!("config: {}", e)}),
    };
    if st.delay_ms > 0 {
        std::thread::sleep(std::time::Duration::from_millis(st.delay_ms));
    }
    let simulator = match EvolutionSimulator::new(config) {
        Ok(s) => s,
        Err(e) => return report(&st, None, json!({"outcome": "error", "error": format!("new: {}", e)})),
    };
    match simulator.run() {
        Ok((solutions, metrics)) => match solutions.first() {
            Some(best) => {
                let fitness = best.fitness().next().unwrap_or(Float::NAN);
                report(&st, metrics.as_ref(), json!({"outcome": "solution", "best": [best.data.clone(), fitness]}))
            }
            None => report(&st, metrics.as_ref(), json!({"outcome": "error", "error": "solve: cannot find any solution"})),
        },
        Err(e) => report(&st, None, json!({"outcome": "error", "error": format!("run: {}", e)})),
    }
}

// ------------------------------------------------------------------------------------------------ operator level: break-only tour
/// case {"domain":"breakop","problem1":P1,"problem2":P2,"matrices":[..],"job":"A"}: P1 (one vehicle) is solved by the real solver,
/// its document is read as the initial solution of P2 (the same plus a second vehicle) with read_init_solution; the job is taken
/// out of its tour (tour.remove, required.push: what a ruin does) and the real RecreateWithCheapest runs (prepare, insertion loop,
/// finalize_insertion_ctx).  res: {"before": routes, "removed": routes, "after": routes, "unassigned": [..]} with routes =
/// [[vehicle id, [job id per job activity]]]
fn run_breakop(case: &Value) -> Value {
    use vrp_core::models::problem::{Job, JobIdDimension, VehicleIdDimension};
    use vrp_core::solver::search::{Recreate, RecreateWithCheapest};
    use vrp_pragmatic::format::solution::read_init_solution;
    let matrices: Vec<String> =
        case["matrices"].as_array().map(|ms| ms.iter().map(|m| m.to_string()).collect()).unwrap_or_default();
    let random: Arc<dyn Random> = Arc::new(DefaultRandom::new_repeatable());
    let env = Arc::new(Environment::new(random.clone(), None, Parallelism::default(), Arc::new(|_: &str| {}), false));
    let p1 = match (case["problem1"].to_string(), matrices.clone()).read_pragmatic() {
        Ok(p) => Arc::new(p),
        Err(errs) => return json!({"outcome": "error", "error": format!("read: {}", errs)}),
    };
    let p2 = match (case["problem2"].to_string(), matrices).read_pragmatic() {
        Ok(p) => Arc::new(p),
        Err(errs) => return json!({"outcome": "error", "error": format!("read: {}", errs)}),
    };
    let config = VrpConfigBuilder::new(p1.clone())
        .set_environment(env.clone())
        .set_telemetry_mode(TelemetryMode::None)
        .prebuild()
        .and_then(|b| b.with_max_generations(Some(1)).build());
    let config = match config {
        Ok(c) => c,
        Err(e) => return json!({"outcome": "error", "error": format!("config: {}", e)}),
    };
    let first = match Solver::new(p1.clone(), config).solve() {
        Ok(s) => s,
        Err(e) => return json!({"outcome": "error", "error": format!("solve: {}", e)}),
    };
    let mut buf = BufWriter::new(Vec::new());
    if let Err(e) = write_pragmatic(&p1, &first, PragmaticOutputType::OnlyPragmatic, &mut buf) {
        return json!({"outcome": "error", "error": format!("write: {}", e)});
    }
    let bytes = buf.into_inner().unwrap_or_default();
    let init = match read_init_solution(std::io::BufReader::new(bytes.as_slice()), p2.clone(), random.clone()) {
        Ok(s) => s,
        Err(e) => return json!({"outcome": "error", "error": format!("init: {}", e)}),
    };
    let mut ctx = InsertionContext::new_from_solution(p2.clone(), (init, None), env.clone());
    let jid = |job: &Job| job.dimens().get_job_id().cloned().unwrap_or_default();
    let dump = |ctx: &InsertionContext| -> Value {
        Value::Array(
            ctx.solution
                .routes
                .iter()
                .map(|rc| {
                    let vid = rc.route().actor.vehicle.dimens.get_vehicle_id().cloned().unwrap_or_default();
                    let jobs: Vec<String> =
                        rc.route().tour.all_activities().filter_map(|a| a.retrieve_job()).map(|j| jid(&j)).collect();
                    json!([vid, jobs])
                })
                .collect(),
        )
    };
    let before = dump(&ctx);
    let name = case["job"].as_str().unwrap_or("A");
    let job = match p2.jobs.all().iter().find(|j| jid(j) == name) {
        Some(j) => j.clone(),
        None => return json!({"outcome": "error", "error": "config: no such job"}),
    };
    ctx.solution.routes.iter_mut().for_each(|rc| {
        if rc.route().tour.contains(&job) {
            rc.route_mut().tour.remove(&job);
        }
    });
    ctx.solution.required.push(job);
    let removed = dump(&ctx);
    let population: Box<dyn HeuristicPopulation<Objective = GoalContext, Individual = InsertionContext> + Send + Sync> =
        Box::new(Greedy::new(p2.goal.clone(), 1, None));
    let rctx = RefinementContext::new(p2.clone(), population, TelemetryMode::None, env.clone());
    let ctx = RecreateWithCheapest::new(random.clone()).run(&rctx, ctx);
    let unassigned: Vec<String> = ctx.solution.unassigned.keys().map(|j| jid(j)).collect();
    json!({"outcome": "ok", "before": before, "removed": removed, "after": dump(&ctx), "unassigned": unassigned})
}

fn run_case(case: &Value) -> Value {
    // a fresh single-threaded pool: fresh thread-local repeatable RNGs, as the shared `solve` op does
    let pool = rayon::ThreadPoolBuilder::new().num_threads(1).build().expect("rayon pool");
    pool.install(|| match case["domain"].as_str() {
        Some("scalar") => run_scalar(case),
        Some("breakop") => run_breakop(case),
        _ => run_vrp(case),
    })
}

fn main() {
    vh::main_loop(run_case);
}
