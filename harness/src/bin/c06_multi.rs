//! C06, sub-stream `c06_multi`: the real eval_job_insertion_in_route on Multi jobs (2-3 sub-jobs, alternative places / windows,
//! the default order or an explicit list of allowed permutations) for InsertionPosition Any / Concrete / Last, and the tour obtained
//! by REALLY carrying the returned placement out on a deep copy of the route (insert_at(index + 1) per returned activity, then
//! accept_route_state).
use serde_json::{json, Value};
use std::sync::Arc;
use vh::core::*;
use vh::util::*;
use vrp_core::construction::heuristics::*;
use vrp_core::models::problem::*;
use vrp_core::prelude::MultiBuilder;

fn multi_of(v: &Value) -> Job {
    let mut b = MultiBuilder::default().id(&format!("m{}", i64_of(&v["id"])));
    for s in v["multi"].as_array().unwrap().iter().map(single_of) {
        b = b.add_job(s);
    }
    if !v["perms"].is_null() {
        let perms: Vec<Vec<usize>> =
            v["perms"].as_array().unwrap().iter().map(|p| p.as_array().unwrap().iter().map(usize_of).collect()).collect();
        b = b.permutation(FixedJobPermutation::new(perms));
    }
    b.build_as_job().unwrap()
}

fn run_case(case: &Value) -> Value {
    let tour_desc = case["tour"].as_array().unwrap();
    let tour_singles: Vec<Arc<Single>> = tour_desc.iter().map(|a| Arc::new(single_of_act(a))).collect();
    let cand: Job = multi_of(&case["job"]);
    let mut jobs: Vec<Job> = tour_singles.iter().map(|s| Job::Single(s.clone())).collect();
    jobs.push(cand.clone());
    let world = build_world(case, vec![vehicle_of(&case["veh"], "v0")], jobs, case["goal"].as_str().unwrap_or("cost"));
    let mut ctx = new_ctx(&world);
    let acts: Vec<(Value, Arc<Single>)> = tour_desc.iter().cloned().zip(tour_singles.iter().cloned()).collect();
    let ridx = add_route(&mut ctx, 0, &acts);
    let route_ctx = &ctx.solution.routes[ridx];
    let before = dump_schedule(route_ctx);

    let position = match &case["pos"] {
        Value::String(s) if s == "any" => InsertionPosition::Any,
        Value::String(s) if s == "last" => InsertionPosition::Last,
        v => InsertionPosition::Concrete(usize_of(&v[1])),
    };
    let selector = BestResultSelector::default();
    let eval_ctx = EvaluationContext {
        goal: &world.problem.goal,
        job: &cand,
        leg_selection: &LegSelection::Exhaustive,
        result_selector: &selector,
    };
    let result = eval_job_insertion_in_route(&ctx, &eval_ctx, route_ctx, position, InsertionResult::make_failure());
    let res = match result {
        InsertionResult::Success(s) => {
            let acts: Vec<Value> = s
                .activities
                .iter()
                .map(|(a, idx)| {
                    json!({"index": idx, "job": a.job.as_ref().and_then(|s| s.dimens.get_job_id().cloned()), "place": a.place.idx,
                           "loc": a.place.location, "svc": t_out(a.place.duration), "tws": t_out(a.place.time.start),
                           "twe": t_out(a.place.time.end)})
                })
                .collect();
            // carry the placement out on a copy of the route
            let mut copy = route_ctx.deep_copy();
            for (a, idx) in s.activities.iter() {
                copy.route_mut().tour.insert_at(a.deep_copy(), idx + 1);
            }
            world.problem.goal.accept_route_state(&mut copy);
            let after_acts: Vec<Value> = copy
                .route()
                .tour
                .all_activities()
                .map(|a| {
                    json!({"job": a.job.as_ref().and_then(|s| s.dimens.get_job_id().cloned()), "place": a.place.idx,
                           "loc": a.place.location, "svc": t_out(a.place.duration), "tws": t_out(a.place.time.start),
                           "twe": t_out(a.place.time.end)})
                })
                .collect();
            json!({"ok": true, "cost": s.cost.iter().map(t_out).collect::<Vec<_>>(), "acts": acts,
                   "after": dump_schedule(&copy), "after_acts": after_acts})
        }
        InsertionResult::Failure(f) => json!({"ok": false, "code": f.constraint.0, "stopped": f.stopped}),
    };
    json!({"before": before, "eval": res})
}

fn main() {
    vh::main_loop(run_case);
}
