//! `vh` library: case loop shared by the per-property binaries (src/bin/cXX.rs).
//! usage of each binary: <bin> <cases.jsonl> <out.jsonl>
//! Every case is one JSON object with an "id"; every result line is {"id":..,"res":..} or
//! {"id":..,"panic":"<message>"} (the call into /repo code runs under catch_unwind).
pub mod util;
pub mod core;

use serde_json::{json, Value};
use std::io::{BufRead, BufReader, BufWriter, Write};
use std::panic::{catch_unwind, AssertUnwindSafe};

pub fn main_loop(runner: fn(&Value) -> Value) {
    let args: Vec<String> = std::env::args().collect();
    if args.len() != 3 {
        eprintln!("usage: {} <cases.jsonl> <out.jsonl>", args[0]);
        std::process::exit(2);
    }
    std::panic::set_hook(Box::new(|_| {}));
    let input = BufReader::new(std::fs::File::open(&args[1]).expect("cases file"));
    let mut out = BufWriter::new(std::fs::File::create(&args[2]).expect("out file"));
    for line in input.lines() {
        let line = line.expect("line");
        if line.trim().is_empty() {
            continue;
        }
        let case: Value = serde_json::from_str(&line).expect("case json");
        let id = case.get("id").cloned().unwrap_or(Value::Null);
        let res = catch_unwind(AssertUnwindSafe(|| runner(&case)));
        let line = match res {
            Ok(v) => json!({"id": id, "res": v}),
            Err(e) => {
                let msg = if let Some(s) = e.downcast_ref::<&str>() {
                    s.to_string()
                } else if let Some(s) = e.downcast_ref::<String>() {
                    s.clone()
                } else {
                    "panic".to_string()
                };
                json!({"id": id, "panic": msg})
            }
        };
        writeln!(out, "{}", line).unwrap();
        out.flush().unwrap();
    }
}
