use serde_json::Value;
pub mod c09;

pub type Runner = fn(&Value) -> Value;

pub fn lookup(name: &str) -> Option<Runner> {
    match name {
        "c09" => Some(c09::run_case),
        _ => None,
    }
}
