#!/usr/bin/env python3
"""Regenerates MANIFEST.json from the plugins' metadata (MANIFEST_* constants) and tools/not_applicable.json."""
import json, os, sys, glob, importlib
ROOT = os.path.dirname(os.path.dirname(os.path.abspath(__file__)))
sys.path.insert(0, os.path.join(ROOT, 'tools'))
props = []
_claimed = set(json.load(open(os.path.join(ROOT, 'tools', 'claimed.json'))))
for p in sorted(glob.glob(os.path.join(ROOT, 'tools', 'props', 'c[0-9]*.py'))):
    if os.path.basename(p)[:-3].upper() in _claimed:
        props.append(importlib.import_module('props.' + os.path.basename(p)[:-3]))
claimed_file = os.path.join(ROOT, 'tools', 'claimed.json')
claimed_ids = set(json.load(open(claimed_file)))
props = [p for p in props if p.ID in claimed_ids and hasattr(p, 'MANIFEST_TEXT')]
ids = [p.ID for p in props]
hooks_file = os.path.join(ROOT, 'tools', 'hooks.json')
hooks = json.load(open(hooks_file)) if os.path.exists(hooks_file) else {'source_commits': []}
m = {
    'version': 1,
    'setup_cmd': './check --setup',
    'hooks': {
        'guard': 'reinterpretcat_vrp_verif',
        'enable': 'RUSTFLAGS="--cfg reinterpretcat_vrp_verif" (set by tools/verif.py whenever it builds /verif/harness, whose path dependencies are the /repo crates)',
        'baseline_off_cmd': 'cd /repo && cargo test --workspace --no-fail-fast --offline',
        'source_commits': hooks.get('source_commits', []),
        'add_only': True,
    },
    'engines': [
        {'name': 'coq', 'path': 'coq/', 'serves_properties': ids,
         'kind_free_text': 'Coq 8.16.1 development: executable Gallina models (theories/Model, no proofs), lemmas (theories/Proofs), property theorems (theories/Properties: exact/Check/Print Assumptions only)'},
        {'name': 'harness', 'path': 'harness/', 'serves_properties': ids,
         'kind_free_text': 'Rust crate `vh` with path dependencies on the /repo crates, rebuilt on every check with --cfg reinterpretcat_vrp_verif; runs the real code under catch_unwind on the cases the model is evaluated on'},
        {'name': 'driver', 'path': 'tools/verif.py', 'serves_properties': ids,
         'kind_free_text': 'builds, regenerates translated model parts, checks proof obligations + Print Assumptions + source audit, generates cases (splitmix64 from VERIF_SEED), evaluates the model inside Coq (vm_compute), diffs, searches for failing inputs, writes evidence'},
    ],
    'checks': [],
    'notes': 'Technique family: machine-checked proof in Coq with a model/implementation correspondence check on every run. See DESIGN.md.',
    'not_applicable': json.load(open(os.path.join(ROOT, 'tools', 'not_applicable.json'))) if os.path.exists(os.path.join(ROOT, 'tools', 'not_applicable.json')) else [],
}
for p in props:
    m['checks'].append({
        'property_id': p.ID,
        'quick_cmd': './check %s quick' % p.ID,
        'thorough_cmd': './check %s thorough' % p.ID,
        'evidence_file': 'evidence/%s.json' % p.ID,
        'replay_cmd_template': './check %s --replay {path}' % p.ID,
        'engine': 'coq+harness',
        'level_claimed': {'category': 'proof', 'text': p.MANIFEST_TEXT, 'design_ref': 'DESIGN.md section 8, %s' % p.ID},
        'level_note': p.MANIFEST_NOTE,
        'technique': p.MANIFEST_TECHNIQUE,
    })
claimed = set(ids)
m['not_applicable'] = [x for x in m['not_applicable'] if x['property_id'] not in claimed]
json.dump(m, open(os.path.join(ROOT, 'MANIFEST.json'), 'w'), indent=1)
print('claimed:', ids, 'not_applicable:', [x['property_id'] for x in m['not_applicable']])
