#!/bin/bash
# Re-run our check on a recorded seeded change (step 4 of seed_confirm.sh only) and record the result.
#   tools/seed_recheck.sh <ID> <n> "<label>"        env VERIF_ROOT=<copy of /verif> to use a committed snapshot of the machinery
# The previous our_check entry is moved to meta.our_check_history, so the file shows which version of the check missed/caught it.
ID=$1; N=$2; LABEL=${3:-}; S=/verif/seeded/$ID-$N
cd /verif || exit 2
rm -rf "$S/check"
MUTANT_KEEP=$S/check tools/mutant.sh "$S/patch.diff" "$ID" quick > "$S/check.log" 2>&1; R3=$?
REV=$(git -C "${VERIF_ROOT:-/verif}" rev-parse --short HEAD)
python3 - "$ID" "$N" "$R3" "$LABEL" "$REV" <<'E'
import json, sys
ID, N, R3, LABEL, REV = sys.argv[1:6]
p = '/verif/seeded/%s-%s/meta.json' % (ID, N)
m = json.load(open(p))
old = m.get('our_check')
if old: m.setdefault('our_check_history', []).append(old)
m['our_check'] = {'command': 'tools/mutant.sh seeded/%s-%s/patch.diff %s quick' % (ID, N, ID), 'exit': int(R3), 'caught': int(R3) == 1,
                  'machinery': LABEL, 'verif_rev': REV}
json.dump(m, open(p, 'w'), indent=1)
print('%s-%s: check_exit=%s (%s @%s)' % (ID, N, R3, LABEL, REV))
E
