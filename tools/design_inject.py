#!/usr/bin/env python3
"""Replaces the table between <!-- TABLE-BEGIN --> and <!-- TABLE-END --> in DESIGN.md by the output of tools/design_table.py."""
import os, re, subprocess, sys
ROOT = os.path.dirname(os.path.dirname(os.path.abspath(__file__)))
table = subprocess.run([sys.executable, os.path.join(ROOT, 'tools', 'design_table.py')], capture_output=True, text=True, check=True).stdout
p = os.path.join(ROOT, 'DESIGN.md')
s = open(p).read()
s2 = re.sub(r'<!-- TABLE-BEGIN -->.*?<!-- TABLE-END -->', lambda m: '<!-- TABLE-BEGIN -->\n' + table + '<!-- TABLE-END -->', s, flags=re.S)
fl = subprocess.run([sys.executable, os.path.join(ROOT, 'tools', 'design_findings.py')], capture_output=True, text=True, check=True).stdout
s2 = re.sub(r'<!-- FINDINGS-BEGIN -->.*?<!-- FINDINGS-END -->', lambda m: '<!-- FINDINGS-BEGIN -->\n' + fl + '<!-- FINDINGS-END -->', s2, flags=re.S)
open(p, 'w').write(s2)
print('table injected, %d lines' % table.count('\n'))
