#!/bin/bash
# Independent re-check of every compiled property file (and everything it depends on) with coqchk; prints the axioms it relies on.
# Not part of the quick checks (takes minutes); run after `./check --setup`.   tools/coqchk_all.sh [C01 C02 ...]
cd "$(dirname "$0")/../coq" || exit 2
IDS=${@:-$(python3 -c "import json; print(' '.join(json.load(open('../tools/claimed.json'))))")}
MODS=""
for p in $IDS; do [ -f theories/Properties/$p.vo ] && MODS="$MODS VRP.Properties.$p"; done
timeout 3000 coqchk -o -silent -Q theories VRP $MODS 2>&1 | tail -40
