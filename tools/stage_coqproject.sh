#!/bin/bash
# stage coq/_CoqProject restricted to files that are tracked (in the index) — lines of other agents' uncommitted files stay out
cd /verif
python3 - <<'P'
import subprocess
tracked = set(subprocess.run(['git','ls-files','coq'],capture_output=True,text=True).stdout.split())
out=[]
for l in open('coq/_CoqProject'):
    s=l.strip()
    if s.startswith('theories/') and ('coq/'+s) not in tracked and not s.startswith('theories/Generated/'):
        continue
    out.append(l)
open('/tmp/cp.idx','w').write(''.join(out))
P
h=$(git hash-object -w /tmp/cp.idx); git update-index --cacheinfo 100644,$h,coq/_CoqProject
git diff --cached --stat -- coq/_CoqProject | tail -1
