#!/usr/bin/env python3
"""Prints the list of repaired defects and open findings for DESIGN.md §14.4 from known_findings.json and /repo's git log."""
import json, os, subprocess
ROOT = os.path.dirname(os.path.dirname(os.path.abspath(__file__)))
known = json.load(open(os.path.join(ROOT, 'known_findings.json')))['entries']
log = subprocess.run(['git', '-C', '/repo', 'log', '--format=%h %s'], capture_output=True, text=True).stdout.splitlines()
subj = {l.split(' ', 1)[0]: l.split(' ', 1)[1] for l in log if ' ' in l}
def first_sentence(t, n=260):
    t = ' '.join(t.split())
    if t.startswith('[') and ']' in t:
        t = t[t.index(']') + 1:].strip()
    return t[:n] + ('…' if len(t) > n else '')
fixed = [e for e in known if e.get('kind') == 'fixed']
open_ = [e for e in known if e.get('kind') == 'finding']
print('**Repaired in /repo by minimal unguarded `fix:` commits** (%d entries `kind:"fixed"`, %d commits; the repository\'s own suite, unedited, is green after each: '
      '1212 passed / 9 skipped; each has a regression mutant under selftest/mutants and, where applicable, a corpus case that runs first on every check):\n'
      % (len(fixed), len({e.get('commit') for e in fixed})))
bycommit = {}
for e in fixed:
    for c in __import__('re').findall(r'\b[0-9a-f]{7}\b', str(e.get('commit', '?'))) or ['?']:
        bycommit.setdefault(c, []).append(e['id'])
for c, ids in sorted(bycommit.items(), key=lambda kv: [i for i, l in enumerate(log) if l.startswith(kv[0])] or [999], reverse=True):
    print('* `%s` %s — %s' % (c, subj.get(c, '(see git log)'), ', '.join(ids)))
print('\n**Open findings** (%d entries `kind:"finding"`: behaviour of the pinned tree that contradicts a clause and whose repair is a design decision, changes solver '
      'behaviour, would fail an existing test, or is not small; each is matched by its structural class only, has a replay case and, where the Coq model covers it, a `_refuted` witness theorem):\n' % len(open_))
for e in sorted(open_, key=lambda e: (e['property'], e['id'])):
    cls = e.get('class') or (e.get('classes') or ['?'])[0]
    print('* %s `%s`%s — %s' % (e['id'], cls, ' (+%d more classes)' % (len(e['classes']) - 1) if len(e.get('classes', [])) > 1 else '', first_sentence(e.get('what', ''))))
