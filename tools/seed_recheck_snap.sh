#!/bin/bash
# Re-run our check on recorded seeded changes using the machinery of a COMMITTED revision of /verif (a scratch git worktree of /verif),
# for use while files of the live tree are being edited.
#   tools/seed_recheck_snap.sh <rev> "<label>" <ID>-<n> [<ID>-<n> ...]
REV=$1; LABEL=$2; shift 2
SNAP=/tmp/verif-snap-$$
cd /verif || exit 2
git worktree add --detach "$SNAP" "$REV" >/dev/null 2>&1 || exit 2
# generated Coq files are not under version control (the translators rewrite them in --setup): regenerate in the snapshot
( cd "$SNAP" && python3 - <<'E'
import sys, os, json, importlib
sys.path.insert(0, 'tools')
import verif
for pid in json.load(open('tools/claimed.json')):
    m = importlib.import_module('props.' + pid.lower())
    if hasattr(m, 'regenerate'):
        m.regenerate(verif.REPO, os.path.join(verif.COQ, 'theories', 'Generated'))
E
) >/dev/null 2>&1
for s in "$@"; do
  VERIF_ROOT="$SNAP" tools/seed_recheck.sh "${s%-*}" "${s#*-}" "$LABEL"
done
git worktree remove --force "$SNAP"; git worktree prune
