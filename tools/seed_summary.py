#!/usr/bin/env python3
"""Writes seeded/SUMMARY.md from seeded/*/meta.json (independently seeded changes and whether our checks caught them)."""
import json, glob, os
ROOT = os.path.dirname(os.path.dirname(os.path.abspath(__file__)))
kept, dropped = [], []


def verdict(o):
    return 'caught' if o.get('caught') else 'MISSED'


for p in sorted(glob.glob(os.path.join(ROOT, 'seeded', '*', 'meta.json'))):
    m = json.load(open(p))
    d = os.path.basename(os.path.dirname(p))
    c = m.get('confirmed', {})
    o = m.get('our_check', {})
    hist = m.get('our_check_history', [])
    first = hist[0] if hist else o
    ok = (c.get('demo_without_patch_exit') == 0 and c.get('demo_with_patch_exit') not in (0, None)
          and c.get('existing_suite_with_patch') == 'pass')
    later = ''
    if hist:
        later = '%s (%s)' % (verdict(o), o.get('machinery', ''))
    note = m.get('strengthened', '')
    row = (d, m.get('property'), ', '.join(m.get('files_changed', [])), (m.get('needs_to_manifest') or '')[:200].replace('\n', ' ').replace('|', '/'),
           verdict(first), later, note)
    (kept if ok else dropped).append((row, c, o))
with open(os.path.join(ROOT, 'seeded', 'SUMMARY.md'), 'w') as fh:
    fh.write('# Independently seeded changes\n\nProduced by sub-agents that were given only the property text and a scratch worktree; confirmed by '
             'tools/seed_confirm.sh (demo passes on the unchanged code, fails with the patch; the existing test suite passes with the patch — a '
             'load-sensitive test that fails once is re-run alone five times); then run against our check in isolation (tools/mutant.sh).\n'
             'Column "first run" is the verdict of the check as it was when the change arrived; "after strengthening" is the verdict of a later '
             'version of the machinery (tools/seed_recheck.sh; the meta.json keeps every run with the /verif revision used).\n\n')
    fh.write('| id | property | files changed | needs to manifest | first run | after strengthening | note |\n|---|---|---|---|---|---|---|\n')
    for r, _, _ in kept:
        fh.write('| %s | %s | %s | %s | %s | %s | %s |\n' % r)
    n_first = sum(1 for r, _, _ in kept if r[4] == 'caught')
    n_now = sum(1 for _, _, o in kept if o.get('caught'))
    fh.write('\n%d kept changes; %d caught at the first run, %d caught by the present machinery.\n' % (len(kept), n_first, n_now))
    if dropped:
        fh.write('\n## Not kept (confirmation failed)\n\n')
        for r, c, _ in dropped:
            fh.write('* %s (%s): %s — our check: %s\n' % (r[0], r[1], json.dumps(c), r[4]))
print('%d kept, %d caught at first run, %d caught now, %d not kept' % (
    len(kept), sum(1 for r, _, _ in kept if r[4] == 'caught'), sum(1 for _, _, o in kept if o.get('caught')), len(dropped)))
