#!/usr/bin/env python3
"""Writes seeded/SUMMARY.md from seeded/*/meta.json (independently seeded changes and whether our checks caught them)."""
import json, glob, os
ROOT = os.path.dirname(os.path.dirname(os.path.abspath(__file__)))
rows = []
for p in sorted(glob.glob(os.path.join(ROOT, 'seeded', '*', 'meta.json'))):
    m = json.load(open(p))
    d = os.path.basename(os.path.dirname(p))
    c = m.get('confirmed', {})
    o = m.get('our_check', {})
    ok = (c.get('demo_without_patch_exit') == 0 and c.get('demo_with_patch_exit') not in (0, None)
          and c.get('existing_suite_with_patch') == 'pass')
    rows.append((d, m.get('property'), ', '.join(m.get('files_changed', [])), (m.get('needs_to_manifest') or '')[:160].replace('\n', ' '),
                 'yes' if ok else 'NO (%s)' % c, 'caught' if o.get('caught') else 'MISSED'))
with open(os.path.join(ROOT, 'seeded', 'SUMMARY.md'), 'w') as fh:
    fh.write('# Independently seeded changes\n\nProduced by sub-agents that were given only the property text and a scratch worktree; confirmed by '
             'tools/seed_confirm.sh (demo passes on the unchanged code, fails with the patch; the existing test suite passes with the patch); '
             'then run against our check in isolation (tools/mutant.sh).\n\n')
    fh.write('| id | property | files changed | needs to manifest | confirmed | our check |\n|---|---|---|---|---|---|\n')
    for r in rows:
        fh.write('| %s | %s | %s | %s | %s | %s |\n' % r)
    fh.write('\n%d changes, %d caught.\n' % (len(rows), sum(1 for r in rows if r[5] == 'caught')))
print('%d seeded changes, %d caught' % (len(rows), sum(1 for r in rows if r[5] == 'caught')))
