#!/usr/bin/env python3
"""Writes seeded/SUMMARY.md from seeded/*/meta.json (independently seeded changes and whether our checks caught them)."""
import json, glob, os
ROOT = os.path.dirname(os.path.dirname(os.path.abspath(__file__)))
kept, dropped = [], []
for p in sorted(glob.glob(os.path.join(ROOT, 'seeded', '*', 'meta.json'))):
    m = json.load(open(p))
    d = os.path.basename(os.path.dirname(p))
    c = m.get('confirmed', {})
    o = m.get('our_check', {})
    ok = (c.get('demo_without_patch_exit') == 0 and c.get('demo_with_patch_exit') not in (0, None)
          and c.get('existing_suite_with_patch') == 'pass')
    row = (d, m.get('property'), ', '.join(m.get('files_changed', [])), (m.get('needs_to_manifest') or '')[:200].replace('\n', ' ').replace('|', '/'),
           'caught' if o.get('caught') else 'MISSED', m.get('strengthened', ''))
    (kept if ok else dropped).append((row, c))
with open(os.path.join(ROOT, 'seeded', 'SUMMARY.md'), 'w') as fh:
    fh.write('# Independently seeded changes\n\nProduced by sub-agents that were given only the property text and a scratch worktree; confirmed by '
             'tools/seed_confirm.sh (demo passes on the unchanged code, fails with the patch; the existing test suite passes with the patch — a '
             'load-sensitive test that fails once is re-run alone five times); then run against our check in isolation (tools/mutant.sh).\n\n')
    fh.write('| id | property | files changed | needs to manifest | our check | note |\n|---|---|---|---|---|---|\n')
    for r, _ in kept:
        fh.write('| %s | %s | %s | %s | %s | %s |\n' % r)
    fh.write('\n%d kept changes, %d caught by the check as it was when the change arrived (a MISSED entry with a note was caught after the '
             'check was strengthened; see the note).\n' % (len(kept), sum(1 for r, _ in kept if r[4] == 'caught')))
    if dropped:
        fh.write('\n## Not kept (confirmation failed)\n\n')
        for r, c in dropped:
            fh.write('* %s (%s): %s — our check: %s\n' % (r[0], r[1], json.dumps(c), r[4]))
print('%d kept, %d caught, %d not kept' % (len(kept), sum(1 for r, _ in kept if r[4] == 'caught'), len(dropped)))
