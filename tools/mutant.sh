#!/bin/sh
# Sensitivity run: apply a patch to a scratch worktree of /repo, run one check against it in full isolation
# (own harness copy, own cargo target, own coq copy, own evidence/replay dirs), then remove everything.
#   tools/mutant.sh <patch.diff> Cxx [quick|thorough]
# Exit status = status of the check (1 = VIOLATION reported, i.e. the mutant is caught).
# VERIF_ROOT (default /verif): which copy of the machinery to use (e.g. a git worktree of /verif at a commit, while
# files of the live tree are being edited).
set -u
V=${VERIF_ROOT:-/verif}
PATCH=$(readlink -f "$1"); PID=$2; TIER=${3:-quick}
S=/tmp/vm-$$-$PID
cleanup() { git -C /repo worktree remove --force "$S/repo" >/dev/null 2>&1; rm -rf "$S"; git -C /repo worktree prune; }
trap cleanup EXIT INT TERM
mkdir -p "$S" || exit 2
git -C /repo worktree add --detach "$S/repo" HEAD >/dev/null 2>&1 || exit 2
( cd "$S/repo" && git apply "$PATCH" ) || { echo "patch does not apply"; exit 2; }
cp -r "$V/harness" "$S/harness"; rm -rf "$S/harness/target"
sed -i "s#/repo/#$S/repo/#g" "$S/harness/Cargo.toml"
cp /repo/Cargo.lock "$S/harness/Cargo.lock"; cp /repo/Cargo.lock "$S/repo/Cargo.lock" 2>/dev/null
cp -a "$V/coq" "$S/coq"
[ -f "$S/coq/Makefile" ] || ( cd "$S/coq" && coq_makefile -f _CoqProject -o Makefile >/dev/null 2>&1 )
mkdir -p "$S/build" "$S/evidence" "$S/replay"
# reuse the warmed dependency build where possible: copy is too big, so build cold (about 1 min)
VERIF_REPO="$S/repo" VERIF_HARNESS="$S/harness" VERIF_BUILD="$S/build" VERIF_COQ="$S/coq" \
VERIF_EVIDENCE="$S/evidence" VERIF_REPLAY="$S/replay" python3 "$V/tools/verif.py" "$PID" "$TIER"
RC=$?
if [ -n "${MUTANT_KEEP:-}" ]; then mkdir -p "$MUTANT_KEEP"; cp -r "$S/replay" "$S/evidence" "$MUTANT_KEEP"/ 2>/dev/null; fi
exit $RC
