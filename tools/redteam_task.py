#!/usr/bin/env python3
"""Prepare the task of an independent red-team sub-agent for one property.
   tools/redteam_task.py <ID> <n> [<n2> ...]
Creates a scratch worktree /tmp/rt-<ID> of /repo (HEAD), an output directory /tmp/rt-<ID>-out and writes
/tmp/rt-<ID>-out/TASK.md: the property text, the rules, and one line per change that exists already for this
property (so that the new ones differ).  The task text contains nothing about how /verif detects anything."""
import json, os, subprocess, sys, glob

ID = sys.argv[1]; NS = sys.argv[2:]
V = os.path.dirname(os.path.dirname(os.path.abspath(__file__)))
prop = [json.loads(l) for l in open(os.path.join(V, 'properties.jsonl')) if json.loads(l)['id'] == ID][0]
wt = '/tmp/rt-%s' % ID; out = '/tmp/rt-%s-out' % ID
os.makedirs(out, exist_ok=True)
if not os.path.isdir(wt):
    subprocess.run(['git', '-C', '/repo', 'worktree', 'add', '--detach', wt, 'HEAD'], check=True, capture_output=True)
known = []
for d in sorted(glob.glob(os.path.join(V, 'seeded', ID + '-*'))):
    try:
        m = json.load(open(os.path.join(d, 'meta.json')))
    except Exception:
        continue
    known.append('* %s — files %s — %s' % (os.path.basename(d), ', '.join(m.get('files_changed', [])) or '?',
                                            (m.get('what_breaks') or m.get('needs_to_manifest') or '')[:400].replace('\n', ' ')))
anch = prop.get('anchors') or {}
T = []
T.append('# Task: produce %d subtle change(s) to the Rust project in %s that break ONE stated property\n' % (len(NS), wt))
T.append('You are testing how good a verification effort is. You get only the text of one semantic property of the project '
         '`reinterpretcat/vrp` (a vehicle routing solver in Rust) and your own scratch git worktree of it at `%s`. ' % wt +
         'Work ONLY inside `%s` (code) and `%s` (your output). NEVER read, list or modify anything under `/verif`, never modify `/repo` ' % (wt, out) +
         '(your worktree is a separate checkout; `git -C /repo` commands are forbidden). There is no network: always pass `--offline` to cargo.\n')
T.append('## The property (%s — %s)\n\n%s\n' % (ID, prop.get('title'), prop.get('statement')))
if anch.get('files'):
    T.append('Code the property is anchored in (start reading here; the change may be anywhere in the workspace): ' + ', '.join(anch['files'][:40]) + '\n')
for k in ('observe_at', 'notes', 'scope'):
    if prop.get(k):
        T.append('%s: %s\n' % (k, json.dumps(prop[k]) if not isinstance(prop[k], str) else prop[k]))
T.append('## What to produce\n')
T.append('For each n in {%s}: a change to the NON-TEST source of the project (a realistic bug a maintainer could introduce: a wrong ' % ', '.join(NS) +
         'comparison, a dropped update, an off-by-one, a mis-ordered step, two sites that each look fine alone, ...) such that\n'
         '1. the workspace still compiles (`cargo build --workspace --offline`) and the ENTIRE existing test suite still passes with the change: '
         '`cargo test --workspace --no-fail-fast --offline` (takes several minutes; run it at the end with the final patch; every `test result:` line must be ok, 0 failed);\n'
         '2. the property is really broken by it — demonstrated by a small demo (a new integration test file, e.g. `vrp-core/tests/<name>.rs`, or an example program) '
         'that PASSES on the unchanged code and FAILS with the change, and that checks the property itself (not an implementation detail);\n'
         '3. it needs something SPECIFIC to manifest: a particular interleaving or termination moment, a multi-step sequence of operations, an unusual but legal input, '
         'a rarely used configuration, or two cooperating code sites — NOT something any ordinary run would expose at once;\n'
         '4. it is different in mechanism and location from the changes that exist already (listed below), and the %d changes differ from each other (different files / clauses of the property).\n' % len(NS))
T.append('Do not edit existing tests, do not touch `Cargo.toml`/features/cfg flags, do not add dependencies. Keep each patch small (a few lines to ~30 lines).\n')
T.append('## Output (exactly these files)\n')
for n in NS:
    T.append('* `%s/patch%s.diff` — `git diff` of the source change ONLY (demo file not included), applies with `git apply` on a clean checkout of your worktree\'s HEAD;\n'
             '* `%s/demo%s/<file>` — the demo file(s);\n' % (out, n, out, n))
T.append('* `%s/meta.json` — JSON object with one key per patch (%s), each an object with: `files_changed` (list), `what_breaks` (which clause, how), '
         '`needs_to_manifest` (the specific condition), `demo_file` (file name under demoN/), `demo_dest` (path relative to the worktree root where the demo file must be copied, e.g. `vrp-core/tests/x.rs`), '
         '`demo_command` (the exact cargo command, run from the worktree root, that passes without and fails with the patch), `commands_run`, `test_suite_result_with_patch`.\n'
         % (out, ', '.join('"patch%s"' % n for n in NS)))
T.append('Before finishing: `git checkout -- . && git clean -fd` in the worktree is NOT needed (leave the build output in place; it will be reused to confirm your result), '
         'but make sure the patches and demos in the output directory are final and that you really ran the full suite with each patch applied alone. '
         'Your final message: for each patch two lines (what it is, what it needs to manifest) and the suite result.\n')
T.append('## Changes that exist already for this property (make yours different)\n')
T.append('\n'.join(known) if known else '(none)')
T.append('\n')
open(os.path.join(out, 'TASK.md'), 'w').write('\n'.join(T))
print(os.path.join(out, 'TASK.md'))
