#!/usr/bin/env python3
"""Prints the per-property "as built" table of DESIGN.md §14.6 from the files the checks write (evidence/*.json), known_findings.json,
seeded/*/meta.json and the plugins' metadata, so that the table can be regenerated instead of being maintained by hand."""
import json, glob, os, sys, importlib
ROOT = os.path.dirname(os.path.dirname(os.path.abspath(__file__)))
sys.path.insert(0, os.path.join(ROOT, 'tools'))
known = json.load(open(os.path.join(ROOT, 'known_findings.json')))['entries']
seeded = {}
for p in sorted(glob.glob(os.path.join(ROOT, 'seeded', '*', 'meta.json'))):
    m = json.load(open(p))
    c = m.get('confirmed', {})
    if not (c.get('demo_without_patch_exit') == 0 and c.get('demo_with_patch_exit') not in (0, None) and c.get('existing_suite_with_patch') == 'pass'):
        continue
    hist = m.get('our_check_history', [])
    first = (hist[0] if hist else m.get('our_check', {})).get('caught')
    now = m.get('our_check', {}).get('caught')
    seeded.setdefault(m.get('property'), []).append((os.path.basename(os.path.dirname(p)), first, now))
print('| id | theorems (all `Qed`, closed) | model evaluated against the code on (quick run) | open findings | repaired in /repo | seeded changes: caught now / kept (missed at first run) | hand mutants |')
print('|---|---|---|---|---|---|---|')
for k in range(1, 21):
    pid = 'C%02d' % k
    try:
        ev = json.load(open(os.path.join(ROOT, 'evidence', pid + '.json')))
    except Exception:
        ev = {'coverage': {}}
    cov = ev['coverage']
    fo = [e['id'] for e in known if e.get('property') == pid and e.get('kind') == 'finding']
    fx = ['%s@%s' % (e['id'], e.get('commit', '?')) for e in known if e.get('property') == pid and e.get('kind') == 'fixed']
    sd = seeded.get(pid, [])
    missed_first = [s for s, f, n in sd if not f]
    still = [s for s, f, n in sd if not n]
    sd_txt = '%d / %d' % (sum(1 for _, _, n in sd if n), len(sd))
    if missed_first:
        sd_txt += ' (first run missed: %s%s)' % (', '.join(missed_first), ('; still missed: ' + ', '.join(still)) if still else '')
    hm = len(glob.glob(os.path.join(ROOT, 'selftest', 'mutants', pid + '-*.diff')))
    print('| %s | %s | %s cases, %s non-trivial, %s model traces, %s disagreements | %s | %s | %s | %d |' % (
        pid, cov.get('obligations', '?'), cov.get('evaluations', '?'), cov.get('distinct_nontrivial', '?'),
        cov.get('traces_validated_against_impl', '?'), cov.get('disagreements', '?'),
        ', '.join(fo) or '—', ', '.join(fx) or '—', sd_txt, hm))
