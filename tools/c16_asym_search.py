"""Search for coordinate pairs whose APPROXIMATED distance differs between the two directions (finding C16-F6).
usage: python3 tools/c16_asym_search.py [seed] [instances]   (needs build/cargo/debug/c16_doc; scratch files in build/scratch/c16_asym)
For far-apart points one step of the longitude moves the haversine distance by less than its last bit, so a bisection on the
longitude bits of B towards a rounding boundary of round(d(A,B)) visits values of d that are adjacent binary64 numbers; the
product sin^2 * cos(lat1) * cos(lat2) is evaluated left to right, so d(A,B) and d(B,A) can differ in the last bit and straddle
the boundary.  Prints the witnesses (bit patterns of lat/lng of A and B, [d(A,B), d(B,A), t(A,B), t(B,A)])."""
import json, struct, subprocess, os, sys, random
wd='/verif/build/scratch/c16_asym'; os.makedirs(wd, exist_ok=True)
def bits(x): return struct.unpack('<Q', struct.pack('<d', x))[0]
def of_bits(b): return struct.unpack('<d', struct.pack('<Q', b))[0]
def call(pairs):
    cf=os.path.join(wd,'c.jsonl'); of=os.path.join(wd,'o.jsonl')
    with open(cf,'w') as fh:
        fh.write(json.dumps({'id':1,'op':'hav','pairs':[[str(x) for x in p] for p in pairs]})+'\n')
    subprocess.run(['/verif/build/cargo/debug/c16_doc',cf,of],check=True,stderr=subprocess.DEVNULL)
    return json.loads(open(of).read())['res']['ans']
random.seed(int(sys.argv[1]) if len(sys.argv)>1 else 1)
N=int(sys.argv[2]) if len(sys.argv)>2 else 1500
inst=[]
for _ in range(N):
    la=52+random.random(); ln=13+random.random()
    lb=la+random.uniform(-20,20)
    lo=ln+random.uniform(20,40); hi=lo+0.0001
    inst.append([bits(la),bits(ln),bits(lb),bits(lo),bits(hi)])
r_lo=call([[i[0],i[1],i[2],i[3]] for i in inst]); r_hi=call([[i[0],i[1],i[2],i[4]] for i in inst])
act=[k for k in range(N) if r_lo[k][0]!=r_hi[k][0]]
klo={k:r_lo[k][0] for k in act}
hits=[]
def check(k, r, lngbits):
    if r[0]!=r[1] or r[2]!=r[3]:
        hits.append((inst[k][0],inst[k][1],inst[k][2],lngbits,r))
for k in act:
    check(k,r_lo[k],inst[k][3]); check(k,r_hi[k],inst[k][4])
it=0
while act:
    it+=1
    mids={k:(inst[k][3]+inst[k][4])//2 for k in act}
    res=call([[inst[k][0],inst[k][1],inst[k][2],mids[k]] for k in act])
    nxt=[]
    for k,r in zip(act,res):
        check(k,r,mids[k])
        if r[0]==klo[k]: inst[k][3]=mids[k]
        else: inst[k][4]=mids[k]
        if inst[k][4]-inst[k][3]>1: nxt.append(k)
    act=nxt
print('iterations',it,'hits',len(hits))
for h in hits[:10]:
    print(h, [of_bits(x) for x in h[:4]])
json.dump(hits,open(os.path.join(wd,'hits.json'),'w'))
