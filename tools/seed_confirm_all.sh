#!/bin/bash
# Confirm every patch a red-team agent left in /tmp/rt-<ID>-out (meta.json: patchN -> demo_file, demo_dest, demo_command),
# one after the other (they share the worktree /tmp/rt-<ID>), then remove the worktree and its build output.
#   tools/seed_confirm_all.sh <ID> [keep]
ID=$1; KEEP=${2:-}
OUT=/tmp/rt-$ID-out
python3 - "$ID" <<'P' > /tmp/rt-$ID-out/confirm.list
import json, sys
ID = sys.argv[1]
m = json.load(open('/tmp/rt-%s-out/meta.json' % ID))
for k in sorted(m):
    if not k.startswith('patch'):
        continue
    n = k[5:]
    v = m[k]
    print('\t'.join([n, v['demo_file'], v['demo_dest'], v['demo_command']]))
P
while IFS=$'\t' read -r N DEMO DEST CMD; do
  /verif/tools/seed_confirm.sh "$ID" "$N" "$OUT/demo$N/$DEMO" "$DEST" "$CMD"
done < /tmp/rt-$ID-out/confirm.list
if [ -z "$KEEP" ]; then git -C /repo worktree remove --force /tmp/rt-$ID; git -C /repo worktree prune; fi
