#!/usr/bin/env python3
"""C10 translator: extracts the validation rule tables from the Rust sources and from the documentation page and writes
coq/theories/Generated/RuleTable.v (regenerated on every check; `rule_table_complete` & co. in Proofs/ValidationP.v are
re-proved against it, so adding / removing / reordering a rule or a documented code breaks a proof obligation).

Extracted:
  gen_group_order      call order of the validate_* groups in validation/mod.rs :: ValidationContext::validate
  gen_<group>_calls    codes of the check_eNNNN_* functions in the order validate_<group> calls them (combine_error_results array)
  gen_<group>_defined  codes of all check_eNNNN_* functions defined in the file (source order)
  gen_emitted          (function code, code string literal passed to FormatError::new inside that function) pairs
  gen_doc_validation   E1xxx codes that have a heading in docs/src/concepts/pragmatic/errors/index.md (page order)
  gen_doc_generic      E0xxx codes with a heading on that page
  gen_rule_hash        (code, fingerprint) of every check_eNNNN_* function: sha256 (first 48 bits) of its signature + body with comments
                       removed, white space collapsed and every string literal other than an "Ennnn" code blanked (message texts are
                       not part of the fingerprint)
  gen_helper_hash      (name, fingerprint) of every other function defined in validation/*.rs (validate_*, common.rs helpers,
                       ValidationContext::new / validate / tasks / jobs / vehicles, is_reserved_job_id), in file / source order
  gen_rule_uses        (code, sorted list of the helper predicates the rule function mentions): names of functions defined in
                       validation/*.rs plus the vocabulary EXTERNAL_HELPERS (parse_time, parse_time_safe, MultiDimLoad, FormatError, ..)
The fingerprints and helper lists are compared with the PINNED tables coq/theories/Model/RulePins.v (the version of the Rust rules
the hand-written model Model/Validation.v + Model/ValidationX.v was written against) by the theorem C10_rule_fingerprints: a rule
that is added, removed, renumbered, or whose code (or the code of a helper it uses) changes breaks a proof obligation.  After a
deliberate change of /repo (a `fix:` commit in validation/*.rs) the model is updated by hand and the pins are refreshed with
`tools/rules2coq.py --pin` (writes Model/RulePins.v from the current source).

Still trusted: the regex / brace-matching extraction below (one `fn` = from `fn name` to the matching `}`; macros and nested closures
stay inside their function), the normalisation (comments, white space, message texts), code outside validation/*.rs (the reader
behind validation is tied by the correspondence streams only), and that the hand-written model says what the pinned text says
(that is what the correspondence check is for).
usage: rules2coq.py [repo] [outdir] | rules2coq.py --pin [repo]"""
import hashlib, os, re, sys

GROUPS = ['jobs', 'vehicles', 'objectives', 'routing', 'relations']
HELPER_FILES = ['mod', 'common'] + GROUPS
EXTERNAL_HELPERS = ['parse_time', 'parse_time_safe', 'MultiDimLoad', 'FormatError', 'combine_error_results', 'HashSet', 'HashMap',
                    'collect_group_by_key', 'discriminant', 'Location', 'Clustering', 'VehicleBreak', 'VehicleOptionalBreakTime',
                    'VehicleRequiredBreakTime', 'all_tasks_iter', 'max_matrix_index', 'has_coordinates', 'has_indices', 'unique']


def _strip_comments(src):
    src = re.sub(r'//[^\n]*', '', src)
    return re.sub(r'/\*.*?\*/', '', src, flags=re.S)


def _fn_bodies(src):
    """yield (name, body) for every top-level `fn name(..) .. { body }` (brace matching)"""
    for m in re.finditer(r'\bfn\s+([A-Za-z0-9_]+)\s*(?:<[^>{]*>)?\s*\(', src):
        i = src.find('{', m.end())
        # skip to the body's opening brace: the first '{' after the closing paren of the signature at depth 0
        depth, j = 1, m.end()
        while depth and j < len(src):
            depth += {'(': 1, ')': -1}.get(src[j], 0)
            j += 1
        i = src.find('{', j)
        if i < 0:
            continue
        depth, k = 1, i + 1
        while depth and k < len(src):
            depth += {'{': 1, '}': -1}.get(src[k], 0)
            k += 1
        yield m.group(1), src[i:k]


def _fn_texts(src):
    """yield (name, text) for every `fn name(..) .. { body }`: text = signature + body"""
    for m in re.finditer(r'\bfn\s+([A-Za-z0-9_]+)\s*(?:<[^>{]*>)?\s*\(', src):
        depth, j = 1, m.end()
        while depth and j < len(src):
            depth += {'(': 1, ')': -1}.get(src[j], 0)
            j += 1
        i = src.find('{', j)
        semi = src.find(';', j)
        if i < 0 or (0 <= semi < i):
            continue
        depth, k = 1, i + 1
        while depth and k < len(src):
            depth += {'{': 1, '}': -1}.get(src[k], 0)
            k += 1
        yield m.group(1), src[m.start():k]


def _normalise(text):
    text = re.sub(r'"((?:[^"\\]|\\.)*)"', lambda m: m.group(0) if re.fullmatch(r'E\d{4}', m.group(1)) else '""', text)
    return re.sub(r'\s+', ' ', text).strip()


def fingerprint(text):
    return int(hashlib.sha256(_normalise(text).encode()).hexdigest()[:12], 16)


def extract_fingerprints(repo):
    vdir = os.path.join(repo, 'vrp-pragmatic', 'src', 'validation')
    fns = []                       # (file, name, text) in file / source order
    for f in HELPER_FILES:
        src = _strip_comments(open(os.path.join(vdir, f + '.rs')).read())
        src = re.sub(r'#\[cfg\(test\)\][^;{]*;', '', src)
        for name, text in _fn_texts(src):
            fns.append((f, name, text))
    defined = [name for _, name, _ in fns]
    vocab = set(defined) | set(EXTERNAL_HELPERS)
    rule_hash, helper_hash, rule_uses = [], [], []
    for f, name, text in fns:
        m = re.match(r'check_e(\d{4})', name)
        if m:
            code = int(m.group(1))
            rule_hash.append((code, fingerprint(text)))
            body = text[text.find('{'):]
            used = sorted(set(w for w in re.findall(r'[A-Za-z_][A-Za-z0-9_]*', _normalise(body)) if w in vocab and w != name))
            rule_uses.append((code, used))
        else:
            helper_hash.append(('%s::%s' % (f, name), fingerprint(text)))
    return {'rule_hash': rule_hash, 'helper_hash': helper_hash, 'rule_uses': rule_uses}


def extract(repo):
    vdir = os.path.join(repo, 'vrp-pragmatic', 'src', 'validation')
    info = {'groups': {}, 'emitted': []}
    mod = _strip_comments(open(os.path.join(vdir, 'mod.rs')).read())
    body = dict(_fn_bodies(mod)).get('validate', '')
    info['group_order'] = re.findall(r'validate_([a-z]+)\s*\(', body)
    for g in GROUPS:
        src = _strip_comments(open(os.path.join(vdir, g + '.rs')).read())
        fns = list(_fn_bodies(src))
        defined = []
        for name, b in fns:
            m = re.match(r'check_e(\d{4})', name)
            if m:
                defined.append(int(m.group(1)))
                for lit in re.findall(r'"E(\d{4})"', b):
                    info['emitted'].append((int(m.group(1)), int(lit)))
        vb = dict(fns).get('validate_' + g, '')
        am = re.search(r'combine_error_results\s*\(\s*&\s*\[(.*?)\]\s*\)', vb, flags=re.S)
        calls = [int(x) for x in re.findall(r'check_e(\d{4})[A-Za-z0-9_]*\s*\(', am.group(1))] if am else []
        info['groups'][g] = {'calls': calls, 'defined': defined}
    doc = open(os.path.join(repo, 'docs', 'src', 'concepts', 'pragmatic', 'errors', 'index.md')).read()
    heads = [int(x) for x in re.findall(r'^#{2,6}\s+E(\d{4})\s*$', doc, flags=re.M)]
    info['doc_validation'] = [c for c in heads if 1000 <= c < 2000]
    info['doc_generic'] = [c for c in heads if c < 1000]
    info.update(extract_fingerprints(repo))
    return info


def zl(xs):
    return '[' + '; '.join(str(x) for x in xs) + ']'


def render(info):
    out = ['(* GENERATED by tools/rules2coq.py from vrp-pragmatic/src/validation/*.rs and docs/.../errors/index.md — do not edit. *)',
           'From VRP Require Import Base.Tac.', 'From Coq Require Import String.', '']
    out.append('Definition gen_group_order : list string := [%s]%%string.' % '; '.join('"%s"' % g for g in info['group_order']))
    for g in GROUPS:
        out.append('Definition gen_%s_calls : list Z := %s.' % (g, zl(info['groups'][g]['calls'])))
        out.append('Definition gen_%s_defined : list Z := %s.' % (g, zl(info['groups'][g]['defined'])))
    out.append('Definition gen_emitted : list (Z * Z) := [%s].' % '; '.join('(%d, %d)' % p for p in info['emitted']))
    out.append('Definition gen_doc_validation : list Z := %s.' % zl(info['doc_validation']))
    out.append('Definition gen_doc_generic : list Z := %s.' % zl(info['doc_generic']))
    out += render_fingerprints(info, 'gen')
    out.append('')
    return '\n'.join(out)


def sl(xs):
    return '[' + '; '.join('"%s"' % x for x in xs) + ']%string'


def render_fingerprints(info, prefix):
    return ['Definition %s_rule_hash : list (Z * Z) := [%s].' % (prefix, '; '.join('(%d, %d)' % p for p in info['rule_hash'])),
            'Definition %s_helper_hash : list (string * Z) := [%s].' % (prefix, '; '.join('("%s"%%string, %d)' % p for p in info['helper_hash'])),
            'Definition %s_rule_uses : list (Z * list string) := [%s].' % (prefix, '; '.join('(%d, %s)' % (c, sl(u)) for c, u in info['rule_uses']))]


def pin(repo, path):
    """write the pinned tables (Model/RulePins.v) from the current source: a deliberate act after the model was brought in line with /repo"""
    info = extract_fingerprints(repo)
    commit = os.popen('git -C %s rev-parse --short HEAD 2>/dev/null' % repo).read().strip()
    out = ['(* C10 — PINNED fingerprints of vrp-pragmatic/src/validation/*.rs: the version of the Rust rule functions and of their helpers',
           '   that Model/Validation.v and Model/ValidationX.v were written against (written by `tools/rules2coq.py --pin`, /repo at %s).' % commit,
           '   Compared with the regenerated Generated/RuleTable.v by the theorem C10_rule_fingerprints.  No proofs in this file. *)',
           'From VRP Require Import Base.Tac.', 'From Coq Require Import String.', '']
    out += render_fingerprints(info, 'pinned')
    out.append('')
    with open(path, 'w') as fh:
        fh.write('\n'.join(out))
    return path


def generate(repo, outdir):
    info = extract(repo)
    os.makedirs(outdir, exist_ok=True)
    path = os.path.join(outdir, 'RuleTable.v')
    txt = render(info)
    if not os.path.exists(path) or open(path).read() != txt:
        with open(path, 'w') as fh:
            fh.write(txt)
    return {'file': 'coq/theories/Generated/RuleTable.v', 'implemented': {g: info['groups'][g]['calls'] for g in GROUPS},
            'group_order': info['group_order'], 'documented': info['doc_validation']}


if __name__ == '__main__':
    if len(sys.argv) > 1 and sys.argv[1] == '--pin':
        repo = sys.argv[2] if len(sys.argv) > 2 else '/repo'
        print(pin(repo, os.path.join(os.path.dirname(os.path.dirname(os.path.abspath(__file__))), 'coq', 'theories', 'Model', 'RulePins.v')))
        sys.exit(0)
    repo = sys.argv[1] if len(sys.argv) > 1 else '/repo'
    outdir = sys.argv[2] if len(sys.argv) > 2 else os.path.join(os.path.dirname(os.path.dirname(os.path.abspath(__file__))), 'coq', 'theories', 'Generated')
    print(generate(repo, outdir))
