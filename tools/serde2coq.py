#!/usr/bin/env python3
"""serde2coq — translate the serde-derive items of the pragmatic format model into Coq codecs (property C11).

Reads   <repo>/vrp-pragmatic/src/format/problem/model.rs, .../solution/model.rs   (the documents)
        <repo>/vrp-pragmatic/src/format/mod.rs, .../solution/geo_serializer.rs    (types they refer to)
Writes  <outdir>/ProblemCodec.v, <outdir>/SolutionCodec.v:
        Coq types, `enc_T : T -> json`, `dec_T : json -> option T` built from Model/SerdeSem.v combinators
        (serde semantics), and for every type a round-trip lemma proved by the generic tactic of
        Proofs/SerdeP.v:   rt_T : forall x, dec_T (enc_T x) = Some x
        or, for types that contain an ambiguous untagged enum (two `Vec` newtype variants, `[]` decodes as the
        first):            rtn_T : dec_T (enc_T x) = Some (norm_T x),  encn_T : enc_T (norm_T x) = enc_T x.
Everything the translator does not understand (attribute, type shape, enum representation) raises — it never
guesses.  usage: serde2coq.py <repo> <outdir>"""
import os, re, sys, hashlib

SRC = [
    ('problem', 'vrp-pragmatic/src/format/problem/model.rs'),
    ('solution', 'vrp-pragmatic/src/format/solution/model.rs'),
    ('support', 'vrp-pragmatic/src/format/mod.rs'),
    ('support', 'vrp-pragmatic/src/format/solution/geo_serializer.rs'),
]
ROOTS_PROBLEM = ['Problem', 'Matrix']
ROOTS_SOLUTION = ['Solution']
ALLOWED_OUTER_ATTRS = {'derive', 'serde', 'cfg', 'path', 'doc', 'allow', 'inline', 'macro_use'}
PRIMS = {'String': 'string', 'Float': 'f64', 'f64': 'f64', 'i64': 'i64', 'i32': 'i32', 'usize': 'usize', 'bool': 'bool'}


class TranslateError(Exception):
    pass


def fail(msg):
    raise TranslateError('serde2coq: ' + msg)


# ------------------------------------------------------------------ tokenizer
TOK = re.compile(r'''
    (?P<ws>\s+)
  | (?P<lc>//[^\n]*)
  | (?P<bc>/\*.*?\*/)
  | (?P<str>"(?:[^"\\]|\\.)*")
  | (?P<chr>'(?:[^'\\]|\\.)')
  | (?P<life>'[A-Za-z_][A-Za-z0-9_]*)
  | (?P<id>r\#[A-Za-z_][A-Za-z0-9_]*|[A-Za-z_][A-Za-z0-9_]*)
  | (?P<num>[0-9][0-9A-Za-z_.]*)
  | (?P<p>::|->|=>|==|!=|<=|>=|&&|\|\||\.\.=|\.\.|[{}()\[\]<>,;:=\#!&*+\-/|.?@$%^~])
''', re.X | re.S)


def tokenize(text, fname):
    out = []
    pos = 0
    while pos < len(text):
        m = TOK.match(text, pos)
        if not m:
            fail('%s: cannot tokenize at offset %d: %r' % (fname, pos, text[pos:pos + 30]))
        pos = m.end()
        k = m.lastgroup
        if k in ('ws', 'lc', 'bc'):
            continue
        v = m.group(k)
        if k == 'str':
            v = bytes(v[1:-1], 'utf-8').decode('unicode_escape')
        out.append((k, v))
    return out


# ------------------------------------------------------------------ parser (items with attributes)
class P:
    def __init__(self, toks, fname):
        self.t = toks
        self.i = 0
        self.f = fname

    def peek(self, o=0):
        return self.t[self.i + o] if self.i + o < len(self.t) else ('eof', None)

    def eat(self, kind=None, val=None):
        k, v = self.peek()
        if (kind and k != kind) or (val is not None and v != val):
            fail('%s: expected %s %s, got %s %r (token %d)' % (self.f, kind, val, k, v, self.i))
        self.i += 1
        return v

    def at(self, kind, val=None):
        k, v = self.peek()
        return k == kind and (val is None or v == val)

    def skip_balanced(self):
        """skip one token tree"""
        k, v = self.peek()
        pairs = {'{': '}', '(': ')', '[': ']'}
        if k == 'p' and v in pairs:
            close = pairs[v]
            self.i += 1
            while not self.at('p', close):
                if self.at('eof'):
                    fail('%s: unbalanced' % self.f)
                self.skip_balanced()
            self.i += 1
        else:
            self.i += 1

    def attr(self):
        """#[name ...] -> (name, tokens-inside)"""
        self.eat('p', '#')
        if self.at('p', '!'):
            self.i += 1
        self.eat('p', '[')
        start = self.i
        depth = 1
        while depth:
            k, v = self.peek()
            if k == 'eof':
                fail('%s: unterminated attribute' % self.f)
            if k == 'p' and v == '[':
                depth += 1
            if k == 'p' and v == ']':
                depth -= 1
            self.i += 1
        inner = self.t[start:self.i - 1]
        if not inner or inner[0][0] != 'id':
            fail('%s: odd attribute' % self.f)
        return inner[0][1], inner[1:]

    def attrs(self):
        out = []
        while self.at('p', '#'):
            out.append(self.attr())
        return out

    def type_expr(self):
        if self.at('p', '('):
            self.i += 1
            items = []
            while not self.at('p', ')'):
                items.append(self.type_expr())
                if self.at('p', ','):
                    self.i += 1
            self.i += 1
            if len(items) != 2:
                fail('%s: only pairs are supported as tuple types' % self.f)
            return ('tuple', items)
        name = self.eat('id')
        while self.at('p', '::'):
            self.i += 1
            name = self.eat('id')     # keep the last path segment
        args = []
        if self.at('p', '<'):
            self.i += 1
            while not self.at('p', '>'):
                args.append(self.type_expr())
                if self.at('p', ','):
                    self.i += 1
            self.i += 1
        return ('app', name, args)

    def fields(self):
        """{ attrs pub name : type , ... }"""
        self.eat('p', '{')
        out = []
        while not self.at('p', '}'):
            at = self.attrs()
            if self.at('id', 'pub'):
                self.i += 1
                if self.at('p', '('):
                    self.skip_balanced()
            name = self.eat('id')
            self.eat('p', ':')
            ty = self.type_expr()
            out.append({'name': name, 'ty': ty, 'attrs': at})
            if self.at('p', ','):
                self.i += 1
        self.i += 1
        return out

    def items(self):
        out = []
        while not self.at('eof'):
            at = self.attrs()
            if self.at('id', 'pub'):
                self.i += 1
                if self.at('p', '('):
                    self.skip_balanced()
            k, v = self.peek()
            if k == 'id' and v == 'struct':
                self.i += 1
                name = self.eat('id')
                if self.at('p', '<'):
                    fail('%s: generic struct %s not supported' % (self.f, name))
                if self.at('p', '{'):
                    out.append({'kind': 'struct', 'name': name, 'attrs': at, 'fields': self.fields(), 'file': self.f})
                else:
                    # tuple / unit struct: remember the name only (fails if it is ever needed)
                    while not self.at('p', ';'):
                        self.skip_balanced()
                    self.i += 1
                    out.append({'kind': 'unsupported', 'name': name, 'attrs': at, 'file': self.f, 'why': 'tuple/unit struct'})
            elif k == 'id' and v == 'enum':
                self.i += 1
                name = self.eat('id')
                if self.at('p', '<'):
                    fail('%s: generic enum %s not supported' % (self.f, name))
                self.eat('p', '{')
                variants = []
                while not self.at('p', '}'):
                    vat = self.attrs()
                    vname = self.eat('id')
                    if self.at('p', '{'):
                        variants.append({'name': vname, 'attrs': vat, 'shape': 'struct', 'fields': self.fields()})
                    elif self.at('p', '('):
                        self.i += 1
                        tys = []
                        while not self.at('p', ')'):
                            tys.append(self.type_expr())
                            if self.at('p', ','):
                                self.i += 1
                        self.i += 1
                        if len(tys) != 1:
                            fail('%s: tuple variant %s::%s with %d fields not supported' % (self.f, name, vname, len(tys)))
                        variants.append({'name': vname, 'attrs': vat, 'shape': 'newtype', 'ty': tys[0]})
                    else:
                        variants.append({'name': vname, 'attrs': vat, 'shape': 'unit'})
                    if self.at('p', '='):
                        fail('%s: explicit discriminant in %s' % (self.f, name))
                    if self.at('p', ','):
                        self.i += 1
                self.i += 1
                out.append({'kind': 'enum', 'name': name, 'attrs': at, 'variants': variants, 'file': self.f})
            elif k == 'id' and v == 'type':
                self.i += 1
                name = self.eat('id')
                self.eat('p', '=')
                save = self.i
                try:
                    ty = self.type_expr()
                    self.eat('p', ';')
                    out.append({'kind': 'alias', 'name': name, 'ty': ty, 'attrs': at, 'file': self.f})
                except TranslateError:
                    # an alias of a shape the codec model has no use for: fatal only if a document type needs it
                    self.i = save
                    while not self.at('p', ';'):
                        self.skip_balanced()
                    self.i += 1
                    out.append({'kind': 'unsupported', 'name': name, 'attrs': at, 'file': self.f, 'why': 'type alias of unsupported shape'})
            else:
                # any other item (use, fn, impl, mod, const, macro call ...): skip to the end of the item
                while True:
                    k, v = self.peek()
                    if k == 'eof':
                        break
                    if k == 'p' and v == ';':
                        self.i += 1
                        break
                    if k == 'p' and v == '{':
                        self.skip_balanced()
                        break
                    self.skip_balanced()
        return out


# ------------------------------------------------------------------ serde attributes
def parse_meta(toks, where):
    """tokens inside serde( ... ) -> list of (key, value) ; value: None | str | dict(serialize=, deserialize=)"""
    if not toks or toks[0] != ('p', '(') or toks[-1] != ('p', ')'):
        fail('%s: malformed serde attribute' % where)
    toks = toks[1:-1]
    out = []
    i = 0
    while i < len(toks):
        if toks[i][0] != 'id':
            fail('%s: malformed serde attribute near %r' % (where, toks[i]))
        key = toks[i][1]
        i += 1
        val = None
        if i < len(toks) and toks[i] == ('p', '='):
            if toks[i + 1][0] != 'str':
                fail('%s: serde %s expects a string' % (where, key))
            val = toks[i + 1][1]
            i += 2
        elif i < len(toks) and toks[i] == ('p', '('):
            j = i + 1
            d = {}
            while toks[j] != ('p', ')'):
                if toks[j][0] != 'id' or toks[j + 1] != ('p', '=') or toks[j + 2][0] != 'str':
                    fail('%s: malformed serde %s(...)' % (where, key))
                d[toks[j][1]] = toks[j + 2][1]
                j += 3
                if toks[j] == ('p', ','):
                    j += 1
            val = d
            i = j + 1
        out.append((key, val))
        if i < len(toks):
            if toks[i] != ('p', ','):
                fail('%s: malformed serde attribute list' % where)
            i += 1
    return out


def serde_attrs(attrs, where, allowed):
    """collect serde(...) metas of an item/field/variant; unknown keys are fatal"""
    res = {'alias': []}
    derives = set()
    for name, toks in attrs:
        if name not in ALLOWED_OUTER_ATTRS:
            fail('%s: unknown attribute #[%s]' % (where, name))
        if name == 'derive':
            derives |= {v for k, v in toks if k == 'id'}
        if name != 'serde':
            continue
        for key, val in parse_meta(toks, where):
            if key not in allowed:
                fail('%s: unsupported serde attribute `%s`' % (where, key))
            if key == 'alias':
                res['alias'].append(val)
            elif key == 'rename':
                if isinstance(val, dict):
                    if set(val) - {'serialize', 'deserialize'}:
                        fail('%s: malformed rename(...)' % where)
                    res['rename_ser'] = val.get('serialize')
                    res['rename_de'] = val.get('deserialize')
                else:
                    res['rename_ser'] = res['rename_de'] = val
            elif key == 'rename_all':
                if isinstance(val, dict):
                    fail('%s: rename_all(serialize/deserialize) not supported' % where)
                res['rename_all'] = val
            elif key == 'skip_serializing_if':
                if val != 'Option::is_none':
                    fail('%s: skip_serializing_if = "%s" not supported' % (where, val))
                res['skip_none'] = True
            elif key == 'default':
                res['default'] = val if val is not None else True
            elif key == 'tag':
                res['tag'] = val
            elif key == 'untagged':
                res['untagged'] = True
            elif key == 'flatten':
                fail('%s: #[serde(flatten)] is not supported by the codec model' % where)
            else:
                fail('%s: unsupported serde attribute `%s`' % (where, key))
    res['derives'] = derives
    return res


CONTAINER_KEYS = {'rename_all', 'tag', 'untagged'}
FIELD_KEYS = {'rename', 'alias', 'skip_serializing_if', 'default', 'flatten'}
VARIANT_KEYS = {'rename', 'alias', 'rename_all'}


def words_of_field(name):
    return [w for w in name.split('_') if w != ''] if '_' in name.strip('_') or True else [name]


def rename_field(name, rule):
    """serde_derive::internals::case::RenameRule::apply_to_field"""
    if rule is None:
        return name
    if rule == 'lowercase' or rule == 'snake_case':
        return name
    if rule == 'UPPERCASE' or rule == 'SCREAMING_SNAKE_CASE':
        return name.upper()
    if rule in ('PascalCase', 'camelCase'):
        pascal = ''
        cap = True
        for ch in name:
            if ch == '_':
                cap = True
            elif cap:
                pascal += ch.upper()
                cap = False
            else:
                pascal += ch
        return pascal if rule == 'PascalCase' else pascal[:1].lower() + pascal[1:]
    if rule == 'kebab-case':
        return name.replace('_', '-')
    if rule == 'SCREAMING-KEBAB-CASE':
        return name.upper().replace('_', '-')
    fail('unknown rename_all rule %r' % rule)


def rename_variant(name, rule):
    """serde_derive::internals::case::RenameRule::apply_to_variant"""
    if rule is None or rule == 'PascalCase':
        return name
    if rule == 'lowercase':
        return name.lower()
    if rule == 'UPPERCASE':
        return name.upper()
    if rule == 'camelCase':
        return name[:1].lower() + name[1:]
    snake = ''
    for i, ch in enumerate(name):
        if i > 0 and ch.isupper():
            snake += '_'
        snake += ch.lower()
    if rule == 'snake_case':
        return snake
    if rule == 'SCREAMING_SNAKE_CASE':
        return snake.upper()
    if rule == 'kebab-case':
        return snake.replace('_', '-')
    if rule == 'SCREAMING-KEBAB-CASE':
        return snake.upper().replace('_', '-')
    fail('unknown rename_all rule %r' % rule)


# ------------------------------------------------------------------ intermediate representation
def load(repo):
    items = {}
    digests = {}
    for group, rel in SRC:
        path = os.path.join(repo, rel)
        text = open(path).read()
        digests[rel] = hashlib.sha256(text.encode()).hexdigest()[:16]
        for it in P(tokenize(text, rel), rel).items():
            if it['kind'] in ('struct', 'enum', 'alias', 'unsupported'):
                if it['name'] in items:
                    fail('type name %s defined twice (%s, %s)' % (it['name'], items[it['name']]['file'], rel))
                it['group'] = group
                items[it['name']] = it
    return items, digests


def norm_ty(ty, items):
    """type expression -> ('prim', p) | ('list', t) | ('opt', t) | ('pair', a, b) | ('smap',) | ('named', T)"""
    if ty[0] == 'tuple':
        return ('pair', norm_ty(ty[1][0], items), norm_ty(ty[1][1], items))
    _, name, args = ty
    if name in PRIMS and not args:
        return ('prim', PRIMS[name])
    if name == 'Vec' and len(args) == 1:
        return ('list', norm_ty(args[0], items))
    if name == 'Option' and len(args) == 1:
        return ('opt', norm_ty(args[0], items))
    if name == 'BTreeMap' and len(args) == 2 and all(a == ('app', 'String', []) for a in args):
        return ('smap',)
    if not args and name in items:
        it = items[name]
        if it['kind'] == 'alias':
            return norm_ty(it['ty'], items)
        return ('named', name)
    fail('unsupported type expression %r' % (ty,))


def named_in(t):
    if t[0] == 'named':
        return [t[1]]
    if t[0] in ('list', 'opt'):
        return named_in(t[1])
    if t[0] == 'pair':
        return named_in(t[1]) + named_in(t[2])
    return []


def build_field(f, container_rule, where, items):
    a = serde_attrs(f['attrs'], where, FIELD_KEYS)
    raw = f['name'][2:] if f['name'].startswith('r#') else f['name']
    ser = a.get('rename_ser') or rename_field(raw, container_rule)
    de = a.get('rename_de') or rename_field(raw, container_rule)
    ty = norm_ty(f['ty'], items)
    fld = {'rust': raw, 'ser': ser, 'de': [de] + a['alias'], 'ty': ty, 'skip_none': bool(a.get('skip_none')),
           'default': a.get('default')}
    if fld['skip_none'] and ty[0] != 'opt':
        fail('%s: skip_serializing_if Option::is_none on a non-Option field' % where)
    if fld['default'] is not None:
        if ty == ('prim', 'usize') and fld['default'] in (True, 'usize::default'):
            fld['default_term'] = 'usize_zero'
        elif ty == ('prim', 'i64') and fld['default'] in (True, 'i64::default'):
            fld['default_term'] = 'i64_zero'
        elif ty == ('prim', 'i32') and fld['default'] in (True, 'i32::default'):
            fld['default_term'] = 'i32_zero'
        else:
            fail('%s: unsupported default %r for type %r' % (where, fld['default'], ty))
    return fld


def build(items, roots):
    """IR of the types reachable from roots, in dependency order"""
    out = {}
    order = []
    visiting = []

    def visit(name):
        if name in out:
            return
        if name in visiting:
            return  # recursion, handled by the emitter
        it = items.get(name)
        if it is None:
            fail('type %s not found' % name)
        if it['kind'] == 'unsupported':
            fail('%s: %s is not supported' % (name, it['why']))
        visiting.append(name)
        where = '%s::%s' % (it['file'], name)
        ca = serde_attrs(it['attrs'], where, CONTAINER_KEYS)
        if not {'Serialize', 'Deserialize'} <= ca['derives']:
            fail('%s must derive both Serialize and Deserialize' % where)
        ir = {'name': name, 'file': it['file'], 'group': it['group']}
        if it['kind'] == 'struct':
            if ca.get('untagged'):
                fail('%s: untagged on a struct' % where)
            ir['kind'] = 'struct'
            ir['tag'] = (ca['tag'], name) if ca.get('tag') else None
            ir['fields'] = [build_field(f, ca.get('rename_all'), where + '.' + f['name'], items) for f in it['fields']]
            if ir['tag'] and any(ir['tag'][0] in f['de'] or ir['tag'][0] == f['ser'] for f in ir['fields']):
                fail('%s: field named like the tag' % where)
            deps = [n for f in ir['fields'] for n in named_in(f['ty'])]
        else:
            shapes = {v['shape'] for v in it['variants']}
            if ca.get('untagged'):
                rep = 'untagged'
                if 'unit' in shapes:
                    fail('%s: unit variant in an untagged enum is not supported' % where)
            elif ca.get('tag'):
                rep = 'internal'
                if 'newtype' in shapes:
                    fail('%s: newtype variant in an internally tagged enum is not supported' % where)
            else:
                rep = 'external'
                if shapes != {'unit'}:
                    fail('%s: externally tagged enum with data-carrying variants is not supported' % where)
            ir['kind'] = 'enum'
            ir['rep'] = rep
            ir['tag'] = ca.get('tag')
            ir['variants'] = []
            deps = []
            for v in it['variants']:
                vw = where + '::' + v['name']
                va = serde_attrs(v['attrs'], vw, VARIANT_KEYS)
                ser = va.get('rename_ser') or rename_variant(v['name'], ca.get('rename_all'))
                de = va.get('rename_de') or rename_variant(v['name'], ca.get('rename_all'))
                vi = {'rust': v['name'], 'ser': ser, 'de': [de] + va['alias'], 'shape': v['shape']}
                if v['shape'] == 'struct':
                    vi['fields'] = [build_field(f, va.get('rename_all'), vw + '.' + f['name'], items) for f in v['fields']]
                    if rep == 'internal' and any(ca['tag'] in f['de'] or ca['tag'] == f['ser'] for f in vi['fields']):
                        fail('%s: field named like the tag' % vw)
                    deps += [n for f in vi['fields'] for n in named_in(f['ty'])]
                elif v['shape'] == 'newtype':
                    vi['ty'] = norm_ty(v['ty'], items)
                    deps += named_in(vi['ty'])
                ir['variants'].append(vi)
        ir['deps'] = sorted(set(deps))
        ir['recursive'] = name in ir['deps']
        for d in ir['deps']:
            if d != name:
                if d in visiting:
                    fail('%s: mutual recursion through %s is not supported' % (where, d))
                visit(d)
        visiting.pop()
        out[name] = ir
        order.append(name)

    for r in roots:
        visit(r)
    return out, order


# ------------------------------------------------------------------ Coq emission
def cq(s):
    if any(ord(c) < 32 or ord(c) > 126 for c in s):
        fail('non-printable name %r' % s)
    return '"' + s.replace('"', '""') + '"'


def names_list(ns):
    return '[' + '; '.join(cq(n) for n in ns) + ']'


def coq_ty(t):
    k = t[0]
    if k == 'prim':
        return {'string': 'string', 'f64': 'fl', 'i64': 'i64', 'i32': 'i32', 'usize': 'usize', 'bool': 'bool'}[t[1]]
    if k == 'list':
        return '(list %s)' % coq_ty(t[1])
    if k == 'opt':
        return '(option %s)' % coq_ty(t[1])
    if k == 'pair':
        return '(%s * %s)%%type' % (coq_ty(t[1]), coq_ty(t[2]))
    if k == 'smap':
        return '(list (string * string))'
    return t[1]


def enc_of(t):
    k = t[0]
    if k == 'prim':
        return 'enc_' + t[1]
    if k == 'list':
        return '(enc_list %s)' % enc_of(t[1])
    if k == 'opt':
        return '(enc_opt %s)' % enc_of(t[1])
    if k == 'pair':
        return '(enc_pair %s %s)' % (enc_of(t[1]), enc_of(t[2]))
    if k == 'smap':
        return 'enc_smap'
    return 'enc_' + t[1]


_IRS = {}


def is_internal(name):
    ir = _IRS.get(name)
    return bool(ir) and ir['kind'] == 'enum' and ir['rep'] == 'internal'


def dec_of(t, rec=None, buf=False):
    """rec = (TypeName, term) : decoder term to use for the recursive reference;
    buf : the value is read from buffered content (inside an internally tagged / untagged enum): internally tagged enums
    then also accept their tag as a variant index"""
    k = t[0]
    if k == 'prim':
        return 'dec_' + t[1]
    if k == 'list':
        return '(dec_list %s)' % dec_of(t[1], rec, buf)
    if k == 'opt':
        return '(dec_opt %s)' % dec_of(t[1], rec, buf)
    if k == 'pair':
        return '(dec_pair %s %s)' % (dec_of(t[1], rec, buf), dec_of(t[2], rec, buf))
    if k == 'smap':
        return 'dec_smap'
    if rec and t[1] == rec[0]:
        return rec[1]
    if is_internal(t[1]):
        return '(dec_%s_ctx %s)' % (t[1], 'true' if buf else 'false')
    return 'dec_' + t[1]


def check_contexts(irs, roots):
    """serde reads the fields of internally tagged / untagged enums from buffered content, where an internally tagged enum
    accepts an integer tag.  The flag is passed by the enum that directly (through Vec / Option) contains the tagged enum;
    a struct or untagged enum in between would have to forward it — not supported, so refuse."""
    memo = {}

    def has_internal(name, seen=()):
        if name in memo:
            return memo[name]
        if name in seen:
            return False
        ir = irs[name]
        r = (ir['kind'] == 'enum' and ir['rep'] == 'internal') or any(has_internal(d, seen + (name,)) for d in ir['deps'])
        memo[name] = r
        return r

    done = set()

    def visit(name, buf):
        if (name, buf) in done:
            return
        done.add((name, buf))
        ir = irs[name]
        if ir['kind'] == 'struct' or ir['rep'] == 'untagged':
            if buf and has_internal(name):
                fail('%s is read from buffered content and contains an internally tagged enum: forwarding the content flag '
                     'through structs / untagged enums is not supported' % name)
        inner = buf if ir['kind'] == 'struct' else (True if ir['rep'] in ('internal', 'untagged') else buf)
        for d in ir['deps']:
            visit(d, inner)

    for r in roots:
        visit(r, False)


class Emitter:
    def __init__(self, irs):
        global _IRS
        _IRS = irs
        self.irs = irs
        self.weak = {}      # type name -> True for types whose round trip holds up to norm_T
        self.lines = []
        self.info = []

    def w(self, s=''):
        self.lines.append(s)

    # ---- taint
    def tainted_ty(self, t):
        if t[0] == 'named':
            return t[1] in self.weak
        if t[0] in ('list', 'opt'):
            return self.tainted_ty(t[1])
        if t[0] == 'pair':
            if self.tainted_ty(t[1]) or self.tainted_ty(t[2]):
                fail('ambiguous enum inside a tuple is not supported')
        return False

    def norm_of(self, t):
        if not self.tainted_ty(t):
            return None
        if t[0] == 'named':
            return 'norm_' + t[1]
        if t[0] == 'list':
            return '(map %s)' % self.norm_of(t[1])
        if t[0] == 'opt':
            return '(option_map %s)' % self.norm_of(t[1])

    def encn_named(self, fields):
        ns = sorted({f['ty'][1] for f in fields if f['ty'][0] == 'named' and self.tainted_ty(f['ty'])})
        return ''.join('rewrite ?encn_%s; ' % n for n in ns)

    # ---- pieces shared by structs and struct variants
    def enc_fields(self, fields, getter, tag=None):
        parts = []
        if tag:
            parts.append('FReq %s (JStr %s)' % (cq(tag[0]), cq(tag[1])))
        for k, f in enumerate(fields):
            v = getter(k, f)
            if f['skip_none']:
                parts.append('FOpt %s (option_map %s %s)' % (cq(f['ser']), enc_of(f['ty'][1]), v))
            else:
                parts.append('FReq %s (%s %s)' % (cq(f['ser']), enc_of(f['ty']), v))
        return 'JObj (kv_of [' + '; '.join(parts) + '])'

    def dec_fields_obj(self, fields, ctor, rec=None, buf=False):
        s = ''
        for k, f in enumerate(fields):
            look = 'get %s kv' % names_list(f['de'])
            if f.get('default_term'):
                rd = 'dflt %s %s (%s)' % (f['default_term'], dec_of(f['ty'], rec, buf), look)
            elif f['ty'][0] == 'opt':
                rd = 'opt %s (%s)' % (dec_of(f['ty'][1], rec, buf), look)
            else:
                rd = 'req %s (%s)' % (dec_of(f['ty'], rec, buf), look)
            s += 'bind (%s) (fun a%d => ' % (rd, k)
        s += 'Some (%s%s)' % (ctor, ''.join(' a%d' % k for k in range(len(fields))))
        s += ')' * len(fields)
        return s

    def dec_fields_seq(self, fields, ctor, rec=None):
        s = ''
        for k, f in enumerate(fields):
            if f.get('default_term'):
                rd = 'pdflt %s %s l %d%%nat' % (f['default_term'], dec_of(f['ty'], rec), k)
            else:
                rd = 'preq %s l %d%%nat' % (dec_of(f['ty'], rec), k)
            s += 'bind (%s) (fun a%d => ' % (rd, k)
        s += 'Some (%s%s)' % (ctor, ''.join(' a%d' % k for k in range(len(fields))))
        s += ')' * len(fields)
        return 'plen %d%%nat l (%s)' % (len(fields), s)

    def check_field_names(self, fields, where):
        seen = set()
        sers = set()
        for f in fields:
            for n in f['de']:
                if n in seen:
                    fail('%s: two fields deserialise from the name %r' % (where, n))
                seen.add(n)
            if f['ser'] in sers:
                fail('%s: two fields serialise to the name %r' % (where, f['ser']))
            sers.add(f['ser'])

    # ---- struct
    def emit_struct(self, ir):
        n = ir['name']
        fs = ir['fields']
        self.check_field_names(fs, n)
        projs = ['%s_%s' % (n, f['rust']) for f in fs]
        self.w('Record %s := mk_%s { %s }.' % (n, n, '; '.join('%s : %s' % (p, coq_ty(f['ty'])) for p, f in zip(projs, fs))))
        self.w('Definition enc_%s (x : %s) : json :=\n  %s.' % (n, n, self.enc_fields(fs, lambda k, f: '(%s x)' % projs[k], ir['tag'])))
        self.w('Definition dec_%s (j : json) : option %s :=\n  match j with\n  | JObj kv => %s\n  | JArr l => %s\n  | _ => None\n  end.'
               % (n, n, self.dec_fields_obj(fs, 'mk_' + n), self.dec_fields_seq(fs, 'mk_' + n)))
        taint = any(self.tainted_ty(f['ty']) for f in fs)
        cbnp = ' '.join(projs)
        if taint:
            self.weak[n] = True
            args = ' '.join((('(%s (%s x))' % (self.norm_of(f['ty']), p)) if self.tainted_ty(f['ty']) else '(%s x)' % p) for p, f in zip(projs, fs))
            self.w('Definition norm_%s (x : %s) : %s := mk_%s %s.' % (n, n, n, n, args))
            self.w('Lemma rtn_%s : forall x, dec_%s (enc_%s x) = Some (norm_%s x).' % (n, n, n, n))
            self.w('Proof. intros x; destruct x; unfold dec_%s, enc_%s, norm_%s; cbn [%s]; rt_go. Qed.' % (n, n, n, cbnp))
            self.w('#[export] Instance RTN_%s : RTN enc_%s dec_%s norm_%s := rtn_%s.' % (n, n, n, n, n))
            self.w('Lemma encn_%s : forall x, enc_%s (norm_%s x) = enc_%s x.' % (n, n, n, n))
            self.w('Proof. intros x; destruct x; unfold enc_%s, norm_%s; cbn [%s]; %sencn_go. Qed.' % (n, n, cbnp, self.encn_named(fs)))
            self.w('#[export] Instance ENCN_%s : ENCN enc_%s norm_%s := encn_%s.' % (n, n, n, n))
        else:
            self.w('Lemma rt_%s : forall x, dec_%s (enc_%s x) = Some x.' % (n, n, n))
            self.w('Proof. intros x; destruct x; unfold dec_%s, enc_%s; cbn [%s]; rt_go. Qed.' % (n, n, cbnp))
            self.w('#[export] Instance RT_%s : RT enc_%s dec_%s := rt_%s.' % (n, n, n, n))
        self.w('#[export] Instance NN_%s : NN enc_%s. Proof. intros x; reflexivity. Qed.' % (n, n))
        self.info.append({'type': n, 'kind': 'struct', 'fields': len(fs), 'theorem': 'rtn+encn' if taint else 'rt'})

    # ---- enum
    def ctor(self, ir, v):
        return '%s_%s' % (ir['name'], v['rust'])

    def emit_enum(self, ir):
        n = ir['name']
        rep = ir['rep']
        vs = ir['variants']
        rec = ir['recursive']
        if rec and rep != 'internal':
            fail('%s: recursion is only supported for internally tagged enums' % n)
        # names must be unambiguous
        seen = set()
        for v in vs:
            if rep != 'untagged':
                for nm in v['de']:
                    if nm in seen:
                        fail('%s: variant name %r used twice' % (n, nm))
                    seen.add(nm)
            if v['shape'] == 'struct':
                self.check_field_names(v['fields'], '%s::%s' % (n, v['rust']))
        # type
        self.w('Inductive %s :=' % n)
        for v in vs:
            if v['shape'] == 'unit':
                self.w('| %s' % self.ctor(ir, v))
            elif v['shape'] == 'newtype':
                self.w('| %s (a0 : %s)' % (self.ctor(ir, v), coq_ty(v['ty'])))
            else:
                self.w('| %s %s' % (self.ctor(ir, v), ' '.join('(%s : %s)' % (f['rust'] if f['rust'] != 'type' else 'type_', coq_ty(f['ty'])) for f in v['fields'])))
        self.w('.')
        # encoder
        self.w('%s enc_%s (x : %s) : json :=\n  match x with' % ('Fixpoint' if rec else 'Definition', n, n))
        for v in vs:
            c = self.ctor(ir, v)
            if v['shape'] == 'unit':
                if rep == 'external':
                    self.w('  | %s => JStr %s' % (c, cq(v['ser'])))
                else:
                    self.w('  | %s => JObj (kv_of [FReq %s (JStr %s)])' % (c, cq(ir['tag']), cq(v['ser'])))
            elif v['shape'] == 'newtype':
                self.w('  | %s a0 => %s a0' % (c, enc_of(v['ty'])))
            else:
                args = ' '.join('a%d' % k for k in range(len(v['fields'])))
                tag = (ir['tag'], v['ser']) if rep == 'internal' else None
                self.w('  | %s %s => %s' % (c, args, self.enc_fields(v['fields'], lambda k, f: 'a%d' % k, tag)))
        self.w('  end.')
        # decoder
        if rep == 'external':
            nss = '[' + '; '.join(names_list(v['de']) for v in vs) + ']'
            body = 'match vindex s %s with\n' % nss
            for k, v in enumerate(vs):
                body += '    | Some %d%%nat => Some %s\n' % (k, self.ctor(ir, v))
            body += '    | _ => None\n    end'
            self.w('Definition dec_%s (j : json) : option %s :=\n  bind (unit_variant_name j) (fun s => %s).' % (n, n, body))
        elif rep == 'internal':
            recd = (n, '(dec_%s_f true n\')' % n) if rec else None
            nss = '[' + '; '.join(names_list(v['de']) for v in vs) + ']'
            body = 'match vindex s %s with\n' % nss
            for k, v in enumerate(vs):
                if v['shape'] == 'unit':
                    d = 'Some %s' % self.ctor(ir, v)
                else:
                    d = self.dec_fields_obj(v['fields'], self.ctor(ir, v), recd, buf=True)
                body += '    | Some %d%%nat => %s\n' % (k, d)
            body += '    | _ => None\n    end'
            core = 'bind (tag_of b %s %s j) (fun \'(s, kv) =>\n    %s)' % (cq(ir['tag']), nss, body)
            self.w('(* b: read from buffered content (nested in another tagged / untagged enum) — the tag may then be a variant index *)')
            if rec:
                self.w('Fixpoint dec_%s_f (b : bool) (n : nat) (j : json) {struct n} : option %s :=\n  match n with O => None | S n\' =>\n  %s\n  end.' % (n, n, core))
                self.w('Definition dec_%s_ctx (b : bool) (j : json) : option %s := dec_%s_f b (S (jdepth j)) j.' % (n, n, n))
            else:
                self.w('Definition dec_%s_ctx (b : bool) (j : json) : option %s :=\n  %s.' % (n, n, core))
        else:
            for k, v in enumerate(vs):
                c = self.ctor(ir, v)
                if v['shape'] == 'newtype':
                    self.w('Definition dec_%s_v%d (j : json) : option %s := option_map %s (%s j).' % (n, k, n, c, dec_of(v['ty'], None, True)))
                else:
                    # serde_derive de/struct_.rs: `StructForm::Untagged(_) => None` — no visit_seq for untagged struct variants
                    self.w('Definition dec_%s_v%d (j : json) : option %s :=\n  match j with\n  | JObj kv => %s\n  | _ => None\n  end.'
                           % (n, k, n, self.dec_fields_obj(v['fields'], c, None, True)))
            body = 'None'
            for k in reversed(range(len(vs))):
                body = 'orelse (dec_%s_v%d j) (%s)' % (n, k, body)
            self.w('Definition dec_%s (j : json) : option %s := %s.' % (n, n, body))
        # proofs
        weak_root = (rep == 'untagged' and all(v['shape'] == 'newtype' and v['ty'][0] == 'list' for v in vs) and len(vs) >= 2)

        taint_fields = any(self.tainted_ty(f['ty']) for v in vs if v['shape'] == 'struct' for f in v['fields']) or \
            any(self.tainted_ty(v['ty']) for v in vs if v['shape'] == 'newtype')
        unf = 'unfold dec_%s%s%s' % (n, '_ctx' if rep == 'internal' else '', ''.join(', dec_%s_v%d' % (n, k) for k in range(len(vs))) if rep == 'untagged' else '')
        destr = 'destruct x'
        if rep == 'untagged' and any(v['shape'] == 'newtype' for v in vs) and not weak_root:
            if not all(v['shape'] == 'newtype' and v['ty'][0] == 'named' and self.irs[v['ty'][1]]['kind'] == 'struct' for v in vs):
                fail('%s: untagged enum mixing newtype variants with other shapes is not supported' % n)
            if any(self.tainted_ty(v['ty']) for v in vs):
                fail('%s: untagged newtype payload containing an ambiguous enum is not supported' % n)
            destr = 'destruct x as [%s]; destruct a0' % '|'.join('a0' for _ in vs)
            unf += ', ' + ', '.join('enc_%s, dec_%s' % (v['ty'][1], v['ty'][1]) for v in vs)
            unf += '; cbn [%s]' % ' '.join('%s_%s' % (v['ty'][1], f['rust']) for v in vs for f in self.irs[v['ty'][1]]['fields'])
        if rep == 'internal':
            unf += ', tag_of'
        if rep == 'external':
            unf += ', unit_variant_name'
        if weak_root:
            if len(vs) != 2:
                fail('%s: ambiguous untagged enum with more than two Vec variants is not supported' % n)
            self.weak[n] = True
            c0, c1 = self.ctor(ir, vs[0]), self.ctor(ir, vs[1])
            self.w('(* `[]` is read back as the first variant whichever variant wrote it *)')
            self.w('Definition norm_%s (x : %s) : %s := match x with %s [] => %s [] | _ => x end.' % (n, n, n, c1, c0))
            self.w('Lemma rtn_%s : forall x, dec_%s (enc_%s x) = Some (norm_%s x).' % (n, n, n, n))
            self.w('Proof.\n  intros [l|l]; %s; cbn [enc_%s norm_%s].\n  - rewrite dec_list_rt by (typeclasses eauto). reflexivity.\n'
                   '  - destruct l as [|b l]; [reflexivity|]. rewrite dec_list_dj by (typeclasses eauto). cbn [option_map orelse].\n'
                   '    rewrite dec_list_rt by (typeclasses eauto). reflexivity.\nQed.' % (unf, n, n))
            self.w('#[export] Instance RTN_%s : RTN enc_%s dec_%s norm_%s := rtn_%s.' % (n, n, n, n, n))
            self.w('Lemma encn_%s : forall x, enc_%s (norm_%s x) = enc_%s x.' % (n, n, n, n))
            self.w('Proof. intros [l|[|b l]]; reflexivity. Qed.')
            self.w('#[export] Instance ENCN_%s : ENCN enc_%s norm_%s := encn_%s.' % (n, n, n, n))
            self.w('Lemma norm_%s_fix : forall x, norm_%s x = x <-> x <> %s [].' % (n, n, c1))
            self.w('Proof. intros [l|[|b l]]; cbn; split; congruence. Qed.')
            thm = 'rtn+encn (ambiguous root)'
        elif taint_fields:
            if rep == 'internal':
                fail('%s: internally tagged enum containing an ambiguous enum is not supported' % n)
            if rec:
                fail('%s: recursive type containing an ambiguous enum is not supported' % n)
            self.weak[n] = True
            self.w('Definition norm_%s (x : %s) : %s :=\n  match x with' % (n, n, n))
            for v in vs:
                c = self.ctor(ir, v)
                if v['shape'] == 'unit':
                    self.w('  | %s => %s' % (c, c))
                elif v['shape'] == 'newtype':
                    self.w('  | %s a0 => %s %s' % (c, c, ('(%s a0)' % self.norm_of(v['ty'])) if self.tainted_ty(v['ty']) else 'a0'))
                else:
                    args = ' '.join('a%d' % k for k in range(len(v['fields'])))
                    nargs = ' '.join((('(%s a%d)' % (self.norm_of(f['ty']), k)) if self.tainted_ty(f['ty']) else 'a%d' % k) for k, f in enumerate(v['fields']))
                    self.w('  | %s %s => %s %s' % (c, args, c, nargs))
            self.w('  end.')
            self.w('Lemma rtn_%s : forall x, dec_%s (enc_%s x) = Some (norm_%s x).' % (n, n, n, n))
            self.w('Proof. intros x; %s; cbn [enc_%s norm_%s]; %s; rt_go. Qed.' % (destr, n, n, unf))
            self.w('#[export] Instance RTN_%s : RTN enc_%s dec_%s norm_%s := rtn_%s.' % (n, n, n, n, n))
            self.w('Lemma encn_%s : forall x, enc_%s (norm_%s x) = enc_%s x.' % (n, n, n, n))
            allf = [f for v in vs if v['shape'] == 'struct' for f in v['fields']]
            self.w('Proof. intros x; destruct x; cbn [enc_%s norm_%s]; %sencn_go. Qed.' % (n, n, self.encn_named(allf)))
            self.w('#[export] Instance ENCN_%s : ENCN enc_%s norm_%s := encn_%s.' % (n, n, n, n))
            thm = 'rtn+encn'
        elif rec:
            self.w('Lemma rt_%s_f : forall n b x, (jdepth (enc_%s x) < n)%%nat -> dec_%s_f b n (enc_%s x) = Some x.' % (n, n, n, n))
            self.w('Proof.\n  induction n as [|n IH]; intros b x H; [lia|].\n'
                   '  destruct x; cbn [dec_%s_f]; unfold tag_of; cbn [enc_%s]; cbn [enc_%s] in H; rt_go;\n'
                   '  cbn [req]; (rewrite (rt_list_bounded _ _ _ n (IH true)); [rt_go|]);\n'
                   '  cbn [jdepth kv_of fold_right snd] in H; lia.\nQed.' % (n, n, n))
            self.w('Lemma rt_%s : forall b x, dec_%s_ctx b (enc_%s x) = Some x.' % (n, n, n))
            self.w('Proof. intros b x. apply rt_%s_f. lia. Qed.' % n)
            self.w('#[export] Instance RT_%s b : RT enc_%s (dec_%s_ctx b) := rt_%s b.' % (n, n, n, n))
            thm = 'rt (fuel = depth)'
        else:
            if rep == 'internal':
                self.w('Lemma rt_%s : forall b x, dec_%s_ctx b (enc_%s x) = Some x.' % (n, n, n))
                self.w('Proof. intros b x; %s; cbn [enc_%s]; %s; rt_go. Qed.' % (destr, n, unf))
                self.w('#[export] Instance RT_%s b : RT enc_%s (dec_%s_ctx b) := rt_%s b.' % (n, n, n, n))
            else:
                self.w('Lemma rt_%s : forall x, dec_%s (enc_%s x) = Some x.' % (n, n, n))
                self.w('Proof. intros x; %s; cbn [enc_%s]; %s; rt_go. Qed.' % (destr, n, unf))
                self.w('#[export] Instance RT_%s : RT enc_%s dec_%s := rt_%s.' % (n, n, n, n))
            thm = 'rt'
        self.w('#[export] Instance NN_%s : NN enc_%s. Proof. intros x; destruct x; cbn [enc_%s]; first [reflexivity | apply nn]. Qed.' % (n, n, n))
        self.info.append({'type': n, 'kind': 'enum:' + rep, 'variants': len(vs), 'theorem': thm})

    def emit(self, ir):
        self.w('(* %s  (%s) *)' % (ir['name'], ir['file']))
        if ir['kind'] == 'struct':
            self.emit_struct(ir)
        else:
            self.emit_enum(ir)
        self.w()


def inner_structs(irs, names):
    """structs that occur as newtype payloads of untagged enums: their codecs must be unfolded to discriminate variants"""
    out = []
    for n in names:
        ir = irs[n]
        if ir['kind'] == 'enum' and ir['rep'] == 'untagged':
            for v in ir['variants']:
                if v['shape'] == 'newtype' and v['ty'][0] == 'named':
                    out.append(v['ty'][1])
    return sorted(set(out))


HEADER = '''(* GENERATED by tools/serde2coq.py from %s — do not edit.
   source digests: %s *)
From VRP Require Import Base.Tac Base.Json Model.SerdeSem Proofs.SerdeP%s.
Open Scope string_scope.
'''


def translate(repo, outdir):
    items, digests = load(repo)
    irs_p, order_p = build(items, ROOTS_PROBLEM)
    irs_s, order_s = build(items, ROOTS_SOLUTION)
    order_s = [n for n in order_s if n not in irs_p]
    irs = dict(irs_s)
    irs.update(irs_p)
    check_contexts(irs, ROOTS_PROBLEM + ROOTS_SOLUTION)
    em = Emitter(irs)
    dg = ', '.join('%s=%s' % (k, v) for k, v in sorted(digests.items()))
    files = {}

    def one(fname, names, extra_import, runs):
        em.lines = []
        em.w(HEADER % (', '.join(sorted({irs[n]['file'] for n in names})), dg, extra_import))
        for n in names:
            em.emit(irs[n])
        for r, root in runs:
            em.w('Definition %s (j : json) : option json := option_map enc_%s (dec_%s j).' % (r, root, root))
        files[fname] = '\n'.join(em.lines) + '\n'

    one('ProblemCodec.v', order_p, '', [('run_problem', 'Problem'), ('run_matrix', 'Matrix')])
    one('SolutionCodec.v', order_s, ' Generated.ProblemCodec', [('run_solution', 'Solution')])
    os.makedirs(outdir, exist_ok=True)
    changed = []
    for fname, text in files.items():
        path = os.path.join(outdir, fname)
        old = open(path).read() if os.path.exists(path) else None
        if old != text:
            with open(path, 'w') as fh:
                fh.write(text)
            changed.append(fname)
    return {'translator': 'tools/serde2coq.py', 'sources': digests, 'types': em.info, 'rewritten': changed,
            'weak_types': sorted(em.weak), 'files': sorted(files)}


if __name__ == '__main__':
    try:
        info = translate(sys.argv[1] if len(sys.argv) > 1 else '/repo', sys.argv[2] if len(sys.argv) > 2 else
                         os.path.join(os.path.dirname(os.path.dirname(os.path.abspath(__file__))), 'coq', 'theories', 'Generated'))
    except TranslateError as e:
        print(e, file=sys.stderr)
        sys.exit(1)
    for t in info['types']:
        print(t)
    print('weak:', info['weak_types'], 'rewritten:', info['rewritten'])
