"""C04 sub-stream `c04_ops`: DIRECT correspondence between the real operators and the operator PROGRAMS of
coq/theories/Model/Operators.v.  The real operator is driven by the scripted Random of harness `ops` with the call log
switched on (case flag `trace`); the model program gets
  * the limits the real JobRemovalTracker drew (read from the log: the two consecutive uniform_int calls over the removal ranges),
  * for AdjustedStringRemoval the number of strings, for ExchangeSequence the route / size / window draws,
  * the selections the real run made, read from the dumps (jobs in the order they were pushed to `required`, grouped by
    tour; where an extracted / exchanged job ended),
and its after-state must EQUAL the dumped after-state (tours with recomputed schedules, pending lists as sets, registry).
Only successful removals are visible in the dumps: the check is "the removals the real run performed are admissible for the
model tracker under the drawn limits and the locks, in this order, and give the same solution"."""
import math
from coqterm import z, zlist, lst, nat
from props import opslib as O
from props import c04 as C
from props.corelib import tz

HARNESS = 'ops'
COQ_IMPORTS = 'From VRP Require Import Base.Tac Model.Core Spec.Feasible Model.Eval Spec.Inv Model.Context Model.Operators.'
MODEL_TARGETS = ['theories/Model/Operators.vo']
MODEL_NEEDS_IMPL = True
SHARD = 6
SIZES = {'quick': 60, 'thorough': 800, 'search': 200}
RULE = ('cases: problems of the C04 generator (incl. fleet cases) + a history of 8-16 steps: every Ruin through CompositeRuin, '
        'ExchangeSequence, ExchangeInterRoute (best / random), ExchangeIntraRouteRandom, ExchangeSwapStar (runs with at most one '
        'applied exchange), RescheduleDeparture, interleaved with recreates, all with the '
        'Random call log on. Every such step whose parent is consistent is re-run by the operator program of Model/Operators.v on '
        'the draws / selections of the real run; the two after-states must be equal. non-trivial = a checked step that changed the '
        'solution.')
TRUSTED = ['the Random call log of harness/src/bin/ops.rs (ScriptedRandom::record) and its decoding in tools/props/c04_ops.py '
           '(position of the tracker draws, of the string count, of the sequence draws)',
           'the selections of a real run are read from its dumps (order of `required`, where a moved job ended): attempts that '
           'failed inside the real operator are not visible']

CHECKED_LOCALS = ('sequence', 'inter_best', 'inter_random', 'intra_random', 'swap_star', 'reschedule')


# ---------------------------------------------------------------- generation
def gen_history(rng, tier, fleet):
    hist = []
    n = rng.range(8, 16) if tier == 'quick' else rng.range(12, 24)
    while len(hist) < n:
        r = rng.below(100)
        op = O.gen_op(rng, False)
        if r < 45:
            op['op'] = 'ruin:' + rng.choice(O.RUINS)
            hist.append(op)
            if rng.chance(3, 4):
                rc = O.gen_op(rng, False)
                rc['op'] = 'recreate:' + rng.choice(O.RECREATES)
                hist.append(rc)
        elif r < 70:
            op['op'] = 'local:sequence'
            hist.append(op)
        elif r < 82:
            op['op'] = 'local:' + rng.choice(['inter_best', 'inter_random'])
            hist.append(op)
        elif r < 88:
            op['op'] = 'local:intra_random'
            hist.append(op)
        elif r < 94:
            op['op'] = 'local:' + rng.choice(['swap_star', 'reschedule'])
            hist.append(op)
        else:
            op['op'] = 'recreate:' + rng.choice(O.RECREATES)
            hist.append(op)
    for o in hist:
        o.pop('quota', None)
    return hist


def generate(rng, tier, n):
    cases = []
    for _ in range(n):
        c = O.gen_case(rng, tier)
        c['history'] = gen_history(rng, tier, False)
        c['trace'] = True
        c['observe'] = False
        cases.append(c)
    return cases


# ---------------------------------------------------------------- decoding a real step into an oracle of the model
def unlocked_jobs(d, r):
    return [j for j in O.route_jobs(r) if j not in d['locked']]


def route_index(d):
    return {j: k for k, r in enumerate(d['routes']) for j in O.route_jobs(r)}


def tracker_draws(op, name, log):
    a0, a1 = op['acts']
    r0, r1 = op['routes']
    if name == 'croute':
        r0, r1 = max(r0, 2), max(r1, 3)
    for i in range(len(log) - 1):
        x, y = log[i], log[i + 1]
        if x[0] == 'ui' and y[0] == 'ui' and (x[1], x[2]) == (a0, a1) and (y[1], y[2]) == (r0, r1):
            return i, x[3], y[3]
    return None


def groups_by_route(gone, ridx):
    out = []
    for j in gone:
        k = ridx.get(j)
        if out and out[-1][0] == k:
            out[-1][1].append(j)
        else:
            out.append((k, [j]))
    return out


def g_opt_pair(idx, j):
    return '(Some (%s, %s))' % (nat(idx), z(j))


def ruin_call(op, name, before, after, log):
    """Gallina `ruin_call` reproducing the removals of the real run, or None when the step cannot be decoded"""
    gone = after['req'][len(before['req']):] if after['req'][:len(before['req'])] == before['req'] else \
        [j for j in after['req'] if j not in before['req']]
    t = tracker_draws(op, name, log)
    if t is None:
        # CompositeRuin / the ruin returned before a tracker was made (no tours)
        return 'RNeighbour 0 0 []'
    at, acts, routes = t
    ridx = route_index(before)
    if any(j not in ridx for j in gone):
        return None
    if name == 'rjob':
        return 'RRandomJob %s %s %s %s' % (nat(op['acts'][1]), z(acts), z(routes), lst([g_opt_pair(ridx[j], j) for j in gone]))
    if name == 'neigh':
        return 'RNeighbour %s %s %s' % (z(acts), z(routes), zlist(gone))
    if name == 'cluster':
        return 'RCluster %s %s %s' % (z(acts), z(routes), lst([zlist(gone)]))
    if name == 'wjob':
        pr = ['(Some (%s, %s))' % (z(gone[0]), zlist(gone[1:]))] if gone else []
        return 'RWorstJobs %s %s %s' % (z(acts), z(routes), lst(pr))
    if name == 'asr':
        ks = None
        for e in log[at + 2:]:
            if e[0] == 'ur' and float(e[1]) == 1.0:
                ks = int(math.floor(float(e[3])))
                break
        if ks is None:
            return None
        items = ['(%s, %s)' % (z(g[0]), zlist(g)) for _, g in groups_by_route(gone, ridx)]
        return 'RAsr %s %s %s %s' % (z(acts), z(routes), nat(ks), lst(items))
    # the three route ruins
    alive = list(range(len(before['routes'])))
    targets = []
    for k, g in groups_by_route(gone, ridx):
        r = before['routes'][k]
        whole = set(g) == set(O.route_jobs(r)) and not any(j in before['locked'] for j in O.route_jobs(r))
        who = nat(alive.index(k)) if name == 'rroute' else z(r['v'])
        if whole:
            targets.append('(%s, true, [])' % who)
            alive.remove(k)
        else:
            targets.append('(%s, false, %s)' % (who, zlist(g)))
    if name == 'rroute':
        return 'RRandomRoute %s %s %s %s' % (nat(op['routes'][1]), z(acts), z(routes), lst(targets))
    return 'RRoutesByActor %s %s %s' % (z(acts), z(routes), lst(targets))


def steps_into(after_route, jobs):
    """for every job of `jobs` (in this order) that the after-tour serves: the insertion steps relative to what is in place"""
    A = after_route['acts']
    cur = [k for k, a in enumerate(A) if a['job'] < 0 or a['job'] not in jobs]
    out = {}
    for j in jobs:
        st = []
        for k, a in enumerate(A):
            if a['job'] == j:
                idx = sum(1 for p in cur if p < k) - 1
                st.append(C.g_step(idx, a))
                cur.append(k)
        if st:
            out[j] = lst(st)
    return out


def results_for(after, actor, jobs):
    ar = {r['v']: r for r in after['routes']}
    st = steps_into(ar[actor], jobs) if actor in ar else {}
    return lst(['(%s, %s)' % (z(j), '(Some %s)' % st[j] if j in st else 'None') for j in jobs])


def sequence_call(op, before, after, note, log):
    ris = [k for k, r in enumerate(before['routes']) if len(unlocked_jobs(before, r)) >= 2]
    uis = [e for e in log if e[0] == 'ui']
    if note == 'none' or not ris:
        return None if ris else 'OExchangeSequence (mkSeq 0 0 0 0 0 0 [] [])'
    if len(uis) < 4:
        return None
    i1, size1, start1, i2 = uis[0][3], uis[1][3], uis[2][3], uis[3][3]
    if (uis[0][1], uis[0][2]) != (0, len(ris) - 1) or i1 >= len(ris) or i2 >= len(ris):
        return None
    first, second = ris[i1], ris[i2]

    def window(r, size, start):
        jobs = unlocked_jobs(before, r)
        size = min(size, len(jobs))
        start = min(start, len(jobs) - size)
        return jobs[start:start + size]
    jobs1 = window(before['routes'][first], size1, start1)
    a1, a2 = before['routes'][first]['v'], before['routes'][second]['v']
    if first == second:
        return 'OExchangeSequence (mkSeq %s %s %s %s 0 0 %s [])' % (nat(i1), nat(size1), nat(start1), nat(i2),
                                                                  results_for(after, a1, jobs1))
    if len(uis) < 6:
        return None
    size2, start2 = uis[4][3], uis[5][3]
    jobs2 = window(before['routes'][second], size2, start2)
    return 'OExchangeSequence (mkSeq %s %s %s %s %s %s %s %s)' % (
        nat(i1), nat(size1), nat(start1), nat(i2), nat(size2), nat(start2),
        results_for(after, a1, jobs2), results_for(after, a2, jobs1))


def inter_call(before, after, note):
    if note == 'none':
        return 'OExchangeInterRoute (mkInter 0 0 None)'
    rb, ra = {}, {}
    for k, r in enumerate(before['routes']):
        for j in O.route_jobs(r):
            rb[j] = (k, r['v'])
    for r in after['routes']:
        for j in O.route_jobs(r):
            ra[j] = r['v']
    moved = [j for j in rb if j in ra and ra[j] != rb[j][1]]
    if len(moved) != 2:
        return None
    a, b = moved
    if ra[a] != rb[b][1] or ra[b] != rb[a][1]:
        return None
    ar = {r['v']: r for r in after['routes']}
    sb = steps_into(ar[rb[a][1]], [b]).get(b)      # b into a's old tour
    sa = steps_into(ar[rb[b][1]], [a]).get(a)      # a into b's old tour
    if sa is None or sb is None:
        return None
    return 'OExchangeInterRoute (mkInter %s %s (Some (%s, %s, %s, %s)))' % (nat(rb[a][0]), z(a), nat(rb[b][0]), z(b), sb, sa)


def intra_call(before, after, note):
    if note == 'none':
        return 'OExchangeIntraRoute 0 0 None'
    ar = {r['v']: r for r in after['routes']}
    changed = []
    for k, r in enumerate(before['routes']):
        x = ar.get(r['v'])
        if x is None or [C.act_key(a) for a in x['acts']] != [C.act_key(a) for a in r['acts']]:
            changed.append(k)
    if len(changed) > 1:
        return None
    cands = changed or [k for k, r in enumerate(before['routes']) if len(O.route_jobs(r)) >= 2 and unlocked_jobs(before, r)]
    if not cands:
        return None
    k = cands[0]
    r = before['routes'][k]
    x = ar.get(r['v'])
    if x is None:
        return None
    for j in unlocked_jobs(before, r):
        if [C.act_key(a) for a in r['acts'] if a['job'] != j] == [C.act_key(a) for a in x['acts'] if a['job'] != j]:
            st = steps_into(x, [j]).get(j)
            if st is not None:
                return 'OExchangeIntraRoute %s %s (Some %s)' % (nat(k), z(j), st)
    return None


def moved_jobs(before, after):
    rb, ra = {}, {}
    for k, r in enumerate(before['routes']):
        for j in O.route_jobs(r):
            rb[j] = (k, r['v'])
    for r in after['routes']:
        for j in O.route_jobs(r):
            ra[j] = r['v']
    return rb, ra, [j for j in rb if ra.get(j) != rb[j][1]]


def swap_star_call(before, after):
    """only the runs that applied at most one exchange are decoded (a chain of exchanges over several tour pairs shows
    its net effect only)"""
    rb, ra, moved = moved_jobs(before, after)
    if not moved:
        # (two exchanges that cancel each other would still have run finalize_insertion_ctx: only comparable when nothing is pending)
        return 'OExchangeSwapStar []' if not before['req'] else None
    if len(moved) != 2 or any(j not in ra for j in moved):
        return None
    a, b = moved
    if ra[a] != rb[b][1] or ra[b] != rb[a][1]:
        return None
    ar = {r['v']: r for r in after['routes']}
    sa = steps_into(ar[rb[b][1]], [a]).get(a)      # a into b's old tour
    sb = steps_into(ar[rb[a][1]], [b]).get(b)      # b into a's old tour
    if sa is None or sb is None:
        return None
    return 'OExchangeSwapStar [(%s, %s, %s, %s, %s, %s)]' % (z(rb[a][1]), z(a), z(rb[b][1]), sa, z(b), sb)


def reschedule_call(before, after):
    ar = {r['v']: r for r in after['routes']}
    deps = []
    for r in before['routes']:
        x = ar.get(r['v'])
        if x is None:
            return None
        if x['acts'][0]['dep'] != r['acts'][0]['dep']:
            deps.append('(%s, %s)' % (z(r['v']), z(tz(x['acts'][0]['dep']))))
    return 'ORescheduleDeparture %s' % lst(deps)


def checked_steps(c, impl):
    """[(k, Gallina opcall)] for the steps this stream re-runs in the model"""
    if 'panic' in impl:
        return []
    sts = O.states(impl)
    metric = O.is_metric(c)
    out = []
    for k, o in enumerate(c['history']):
        kind, _, name = o['op'].partition(':')
        before, after = sts[k], sts[k + 1]
        step = impl['steps'][k]
        log = step.get('rand')
        if log is None or O.py_violations(c, before):
            continue
        call = None
        if kind == 'ruin':
            rc = ruin_call(o, name, before, after, log)
            call = None if rc is None else 'OCompositeRuin [%s]' % rc
        elif kind == 'local' and name in CHECKED_LOCALS and metric and not O.py_violations(c, after):
            if name == 'sequence':
                call = sequence_call(o, before, after, step.get('note'), log)
            elif name in ('inter_best', 'inter_random'):
                call = inter_call(before, after, step.get('note'))
            elif name == 'intra_random':
                call = intra_call(before, after, step.get('note'))
            elif name == 'swap_star':
                call = swap_star_call(before, after)
            else:
                call = reschedule_call(before, after)
        if call is not None:
            out.append((k, call))
    return out


def model_term(c, impl):
    if 'panic' in impl:
        return None
    sts = O.states(impl)
    items = ['run_op_case P %s (%s)' % (O.g_dump(sts[k]), call) for k, call in checked_steps(c, impl)]
    return 'let P := %s in %s' % (O.g_pworld(c), lst(items))


# ---------------------------------------------------------------- comparison / oracle
def compare(c, impl, model):
    if 'panic' in impl:
        return None
    sts = O.states(impl)
    steps = checked_steps(c, impl)
    if len(steps) != len(model):
        return 'model evaluated %d steps, %d were submitted' % (len(model), len(steps))
    for (k, call), m in zip(steps, model):
        want = C.canon_state(sts[k + 1])
        if m[0] != 1:
            return ('step %d (%s): the operator program of the model refuses the oracle read from the real run '
                    '(an insertion guard fails): %s' % (k, c['history'][k]['op'], call[:300]))
        got = C.canon_model_state(m[1][0])
        if got != want:
            return ('step %d (%s): the operator program run on the draws / selections of the real run gives another solution: '
                    'model %s impl %s call %s' % (k, c['history'][k]['op'], got, want, call[:300]))
    return None


def oracle(c, impl):
    if 'panic' in impl:
        return [{'class': 'panic', 'what': 'an operator panicked: ' + impl['panic'][:300]}]
    return []


def nontrivial_key(c, impl):
    if 'panic' in impl:
        return None
    sts = O.states(impl)
    ch = [k for k, _ in checked_steps(c, impl) if C.canon_state(sts[k + 1]) != C.canon_state(sts[k])]
    if not ch:
        return None
    return (c['seed'], tuple(o['op'] for o in c['history']))


def classify(c, impl):
    if 'panic' in impl:
        return ['panic']
    sts = O.states(impl)
    labs = []
    done = dict(checked_steps(c, impl))
    for k, o in enumerate(c['history']):
        kind, _, name = o['op'].partition(':')
        if kind == 'ruin' or (kind == 'local' and name in CHECKED_LOCALS):
            ch = C.canon_state(sts[k + 1]) != C.canon_state(sts[k])
            labs.append('%s:%s:%s' % (o['op'], 'checked' if k in done else 'skipped', 'changed' if ch else 'same'))
    return labs


def shrink_candidates(c):
    return C.shrink_candidates(c)
