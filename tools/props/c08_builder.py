"""C08 sub-stream `c08_builder` — the last clause of C08 ("a solve seeded with a feasible initial solution never returns a worse one")
from the configuration side: the real EvolutionConfigBuilder (rosomaxa/src/evolution/config.rs) is driven with the setter calls of the
case in the given order (every order of with_initial / with_init_solutions / with_context / with_max_generations / ..., repeated calls
included), the built configuration is run by the real EvolutionSimulator on the crate's scalar example domain (rosomaxa::example) over a
RECORDING wrapper of the real population, and every event (pre-processing hooks, add / add_all / select / on_generation calls reaching
the population, which initial operator created what, post-processing hooks, the logger lines of build(), the returned solutions) is
compared with Model/EvoConfig.v (builder state machine, build, EvolutionSimulator::new/run, get_default_population) composed with
Model/Population.v.  One case in fourteen is the VRP side: vrp-cli's create_builder_from_config (config-file path, evolution.initial
set) with an initial solution read through the pragmatic reader (oracle only).
Registered by `SUBSTREAMS = ['c08_builder']` in tools/props/c08.py; theorems are in Properties/C08.v (C08_builder_*, C08_config_*)."""
import json as _json
from coqterm import z, zlist, lst, opt
from props import c08 as P8

ID = 'C08'            # set by the driver to the parent's id
HARNESS = 'c08_builder'
COQ_IMPORTS = 'From VRP Require Import Base.Tac Model.Population Model.EvoConfig.'
MODEL_TARGETS = ['theories/Model/Population.vo', 'theories/Model/EvoConfig.vo']
MODEL_NEEDS_IMPL = True      # oracle arguments of the model: the offspring batches and the number of generations the run produced
SHARD = 60
SIZES = {'quick': 420, 'thorough': 6000, 'search': 3000}
RULE = ('cases: a multiset of EvolutionConfigBuilder setter calls — with_init_solutions (0-2 calls, 0-4 seeds, optional max_init_size), '
        'with_initial (0-2 calls, max_size 0-6, quota from {-0.001, 0, 0.05, 0.5, 1, 2}, 1-3 weighted operators), with_context (1-2 calls; '
        'Greedy / Elitism / Rosomaxa / get_default_population(selection size 1-4) behind a recording wrapper), with_heuristic | '
        'with_search_operators + with_diversify_operators | with_strategy, with_max_generations (last call Some(0-5); rarely all '
        'criteria unset = defaults), optionally with_max_time, with_min_cv (sample / period / unknown interval), with_target_proximity, '
        'with_processing (0-2 context hooks, 0-2 solution hooks), with_objective, with_termination — applied in a RANDOM ORDER (every '
        'third case is the same multiset as its predecessor in another order; one case in six has exactly the pair with_initial / '
        'with_init_solutions in the order of vrp-cli\'s config-file path); rarely a missing context / heuristic / operator set (build '
        'and simulator errors). Individuals as in the parent stream (id, key, tag, weight; a seed is the overall best half of the time). '
        'One case in fourteen: vrp-cli create_builder_from_config with evolution.initial and a seed solution (6-12 jobs). '
        'non-trivial = a run whose population received at least one seed, or a VRP case.')
TRUSTED = ['c08_builder: the recording population wrapper and the scripted heuristic / operators / hooks of harness/src/bin/c08_builder.rs; '
           'the logger lines of EvolutionConfigBuilder::build are used to read off the termination criteria of the built configuration',
           'c08_builder: the number of generations and the offspring batches of a run are taken from the run itself (oracle arguments of the '
           'model; the theorems hold for every such list); the statistics of the generations are not observed at all: the model runs with '
           'fixed ones, which is sound for the compared ranking by theorem C08_ranked_depends_on_offers_only']
ASSUMPTIONS = ['c08_builder: context pre-processing hooks hand on a context whose population is in a constructor state (the harness hooks are the '
               'identity), solution post-processing hooks do not make a solution worse; deep_copy preserves the individual',
               'c08_builder: individuals beyond initial.max_size are never offered (take(max_size)): the clause is about the first max_size seeds']


# ------------------------------------------------------------------ generation
def gen_pop(rng):
    k = rng.below(10)
    if k < 2:
        return {'kind': 'greedy', 'sel': rng.range(1, 3)}
    if k < 5:
        return {'kind': 'elitism', 'max': rng.choice([1, 2, 3, 4, 5]), 'sel': rng.range(1, 4)}
    if k < 8:
        return {'kind': 'rosomaxa', 'initial': rng.choice([4, 4, 5, 6]), 'sel': rng.choice([2, 3, 4, 7, 8]), 'elite': rng.choice([1, 2, 2, 3]),
                'er': rng.choice([0, 16, 32, 58, 64])}
    return {'kind': 'default', 'sel': rng.range(1, 4)}


def gen_calls(rng, u):
    """the multiset of setter calls of one case (unordered) + data"""
    calls = []
    fail = rng.below(40)      # 0: no context, 1: no heuristic at all, 2: only search operators, 3: unknown interval, 4: no operators
    # seeds
    nseed_calls = rng.choice([0, 1, 1, 1, 1, 2])
    seed_sets = []
    for _ in range(nseed_calls):
        sols = [u.ind() for _ in range(rng.choice([0, 1, 1, 2, 3, 4]))]
        seed_sets.append(sols)
        calls.append({'s': 'init_solutions', 'sols': sols, 'max': rng.choice([None, None, None, 1, 2, 3, 5])})
    # initial
    ninit = rng.choice([1, 1, 1, 2, 1, 1, 2, 1, 1, 1, 1, 0]) if fail != 4 else rng.choice([0, 1])
    tag = 10
    for _ in range(ninit):
        nops = rng.range(1, 3) if fail != 4 else 0
        ops = []
        for _ in range(nops):
            ops.append([tag, rng.range(1, 3)])
            tag += 1
        calls.append({'s': 'initial', 'max': rng.choice([0, 1, 2, 3, 4, 4, 5, 6]), 'quota': rng.choice([50, 50, 50, 0, 500, 1000, 2000, -1]),
                      'ops': ops})
    # context
    if fail != 0:
        for k in range(rng.choice([1, 1, 2])):
            calls.append({'s': 'context', 'tag': 70 + k, 'pop': gen_pop(rng)})
    # heuristic / operators / strategy
    mode = rng.below(10)
    if fail == 1:
        pass
    elif fail == 2:
        calls.append({'s': 'search', 'tag': 31})
    elif mode < 6:
        for k in range(rng.choice([1, 1, 2])):
            calls.append({'s': 'heuristic', 'tag': 20 + k})
        if rng.chance(1, 4):
            calls.append({'s': 'search', 'tag': 30})
    elif mode < 8:
        calls.append({'s': 'search', 'tag': 30})
        calls.append({'s': 'diversify', 'tag': 40})
    else:
        calls.append({'s': 'strategy', 'tag': 50})
        if rng.chance(1, 2):
            calls.append({'s': 'heuristic', 'tag': 20})
    # termination criteria
    defaults = rng.chance(1, 50)
    if not defaults:
        for _ in range(rng.choice([1, 1, 2])):
            calls.append({'s': 'max_gen', 'v': rng.choice([None, 0, 1, 2, 3, 5, 7])})
        if rng.chance(1, 5):
            calls.append({'s': 'max_time', 'v': rng.choice([None, 400, 900])})
        if rng.chance(1, 6) or fail == 3:
            calls.append({'s': 'min_cv', 'v': 2 if fail == 3 else rng.choice([None, 0, 1])})
        if rng.chance(1, 8):
            calls.append({'s': 'target', 'v': rng.choice([None, 1, 2])})
    if rng.chance(1, 3):
        calls.append({'s': 'processing', 'ch': [60 + k for k in range(rng.below(3))], 'sh': [65 + k for k in range(rng.below(3))]})
        if rng.chance(1, 4):
            calls.append({'s': 'processing', 'ch': [63], 'sh': []})
    if rng.chance(1, 6):
        calls.append({'s': 'objective'})
    if rng.chance(1, 8):
        calls.append({'s': 'termination'})
    return calls, seed_sets, defaults


def fix_order(rng, calls, defaults):
    """after ordering: the max_generations call that counts (the last one) gets a small Some(..) so the run is short"""
    calls = [dict(c) for c in calls]
    if not defaults:
        last = [k for k, c in enumerate(calls) if c['s'] == 'max_gen'][-1]
        if calls[last]['v'] is None or calls[last]['v'] > 5:
            calls[last]['v'] = rng.range(0, 4)
    return calls


def gen_case(rng, prev=None):
    u = P8.Universe(rng, 0)
    if prev is not None:
        # the same multiset of calls in another order
        calls = [dict(c) for c in prev['calls']]
        rng.shuffle(calls)
        defaults = prev['defaults']
        c = dict(prev)
        c['calls'] = fix_order(rng, calls, defaults)
        c['reordered'] = True
        return c
    calls, seed_sets, defaults = gen_calls(rng, u)
    created = [u.ind() for _ in range(8)]
    pool = [u.ind() for _ in range(rng.range(4, 14))]
    allseeds = [x for s in seed_sets for x in s]
    if allseeds and rng.chance(1, 2):
        # a seed is the strict overall best: losing it shows in the result
        best = min(x[1] for x in allseeds + created + pool)
        allseeds[rng.below(len(allseeds))][1] = best - rng.range(1, 3)
    rng.shuffle(calls)
    return {'kind': 'builder', 'calls': fix_order(rng, calls, defaults), 'created': created, 'pool': pool,
            'sizes': [rng.choice([0, 1, 1, 2, 3]) for _ in range(8)], 'defaults': defaults, 'ops': []}


def gen_pair_case(rng):
    """exactly the two setters under test, in the order of vrp-cli's config-file path (seeds first) or of the command line path"""
    u = P8.Universe(rng, 0)
    seeds = [u.ind() for _ in range(rng.range(1, 3))]
    created = [u.ind() for _ in range(8)]
    pool = [u.ind() for _ in range(6)]
    best = min(x[1] for x in seeds + created + pool)
    seeds[rng.below(len(seeds))][1] = best - rng.range(1, 3)
    pre = [{'s': 'heuristic', 'tag': 20}, {'s': 'context', 'tag': 70, 'pop': gen_pop(rng)},
           {'s': 'processing', 'ch': [60], 'sh': [65]}, {'s': 'initial', 'max': 4, 'quota': 50, 'ops': [[10, 1], [11, 1]]}]
    a = {'s': 'init_solutions', 'sols': seeds, 'max': rng.choice([None, None, 2])}
    b = {'s': 'initial', 'max': rng.choice([4, 4, 2, 3]), 'quota': 50, 'ops': [[12, rng.range(1, 2)]]}
    mid = [a, b] if rng.chance(2, 3) else [b, a]
    post = [{'s': 'max_time', 'v': None}, {'s': 'max_gen', 'v': rng.range(0, 3)}]
    return {'kind': 'builder', 'calls': pre + mid + post, 'created': created, 'pool': pool, 'sizes': [rng.choice([0, 1, 2]) for _ in range(8)],
            'defaults': False, 'ops': [], 'pair': True}


def gen_cli(rng):
    c = P8.gen_solve(rng)
    c['kind'] = 'cli'
    c['gens0'] = rng.range(60, 140)
    methods = [{'type': 'farthest', 'weight': 1}, {'type': 'nearest', 'weight': 1}, {'type': 'skip-random', 'weight': 1},
               {'type': 'regret', 'weight': 1, 'start': 2, 'end': 3}]
    rng.shuffle(methods)
    evo = {'initial': {'method': {'type': 'cheapest', 'weight': 1},
                       'alternatives': {'methods': methods[:rng.range(0, 2)], 'maxSize': rng.choice([1, 2, 4, 4]), 'quota': 0.05}}}
    if rng.chance(1, 3):
        evo['population'] = rng.choice([{'type': 'greedy', 'selectionSize': 1}, {'type': 'elitism', 'maxSize': 2, 'selectionSize': 2},
                                        {'type': 'rosomaxa', 'selectionSize': 2}])
    cfg = {'evolution': evo, 'termination': {'maxGenerations': rng.range(0, 2)},
           'environment': {'logging': {'enabled': False}, 'parallelism': {'numThreadPools': 1, 'threadsPerPool': 2}}}
    if rng.chance(1, 4):
        cfg['hyper'] = {'type': 'dynamic-selective'}
    c['config'] = _json.dumps(cfg)
    return c


def generate(rng, tier, n):
    cases = []
    prev = None
    for k in range(n):
        if k % 14 == 5:
            cases.append(gen_cli(rng.fork('cli%d' % k)))
            continue
        if k % 6 == 1:
            cases.append(gen_pair_case(rng))
            prev = None
            continue
        if prev is not None and k % 3 == 2:
            cases.append(gen_case(rng, prev))
            continue
        prev = gen_case(rng)
        cases.append(prev)
    return cases


def corpus():
    u = [[1, 3, 0, 10], [2, 9, 0, 30]]
    created = [[11, 20, 0, 50], [12, 22, 0, 70], [13, 24, 0, 90], [14, 26, 0, 110], [15, 28, 0, 130], [16, 30, 0, 150]]
    pool = [[21, 15, 0, 55], [22, 16, 0, 75], [23, 17, 0, 95]]
    out = []
    for pop in ({'kind': 'greedy', 'sel': 1}, {'kind': 'elitism', 'max': 4, 'sel': 2}, {'kind': 'default', 'sel': 2}):
        for seeds_first in (True, False):
            a = {'s': 'init_solutions', 'sols': u, 'max': None}
            b = {'s': 'initial', 'max': 4, 'quota': 50, 'ops': [[10, 1]]}
            out.append({'kind': 'builder', 'pair': True, 'defaults': False, 'ops': [],
                        'calls': [{'s': 'heuristic', 'tag': 20}, {'s': 'context', 'tag': 70, 'pop': pop}] + ([a, b] if seeds_first else [b, a]) +
                                 [{'s': 'max_gen', 'v': 2}],
                        'created': created, 'pool': pool, 'sizes': [1, 1, 1, 0]})
    return out


# ------------------------------------------------------------------ model term
def zi(x):
    return P8.zi(x)


def zpop(p):
    k = p['kind']
    if k == 'greedy':
        return '(ZPGreedy %s)' % z(p['sel'])
    if k == 'elitism':
        return '(ZPElitism %s %s)' % (z(p['max']), z(p['sel']))
    if k == 'rosomaxa':
        return '(ZPRosomaxa %s %s %s %s)' % (z(p['initial']), z(p['sel']), z(p['elite']), z(p['er']))
    return '(ZPDefault %s)' % z(p['sel'])


def zcall(c):
    s = c['s']
    if s == 'max_gen':
        return '(ZMaxGen %s)' % opt(c['v'], z)
    if s == 'max_time':
        return '(ZMaxTime %s)' % opt(c['v'], z)
    if s == 'min_cv':
        return '(ZMinCv %s)' % opt(c['v'], z)
    if s == 'target':
        return '(ZTarget %s)' % opt(c['v'], z)
    if s == 'initial':
        return '(ZInitial %s %s %s)' % (z(c['max']), z(c['quota']), lst(c['ops'], lambda tw: '(%s, %s)' % (z(tw[0]), z(tw[1]))))
    if s == 'processing':
        return '(ZProcessing %s %s)' % (zlist(c['ch']), zlist(c['sh']))
    if s == 'init_solutions':
        return '(ZInitSolutions %s %s)' % (lst(c['sols'], zi), opt(c['max'], z))
    if s == 'objective':
        return '(ZObjective 0)'
    if s == 'context':
        return '(ZContext %s %s)' % (z(c['tag']), zpop(c['pop']))
    if s == 'termination':
        return '(ZTermination 0)'
    if s == 'heuristic':
        return '(ZHeuristic %s)' % z(c['tag'])
    if s == 'strategy':
        return '(ZStrategy %s)' % z(c['tag'])
    if s == 'search':
        return '(ZSearch %s)' % z(c['tag'])
    return '(ZDiversify %s)' % z(c['tag'])


def individuals(c):
    m = {}
    for call in c['calls']:
        if call['s'] == 'init_solutions':
            for x in call['sols']:
                m[x[0]] = x
    for x in c['created'] + c['pool']:
        m[x[0]] = x
    return m


def pop_events(impl):
    return [e for e in impl.get('events', []) if e[0] in ('add', 'add_all', 'select', 'gen')]


def model_term(c, impl):
    if c['kind'] == 'cli':
        return None
    offs, clock = [], []
    if 'panic' not in impl and impl.get('status') == 'ok':
        m = individuals(c)
        for e in impl['events']:
            if e[0] == 'add_all':
                if any(i not in m for i in e[2]):
                    return None       # an individual of unknown origin reached the population: reported by the oracle
                offs.append([m[i] for i in e[2]])
        k = sum(1 for e in impl['events'] if e[0] == 'create')
        clock = [[0, 0]] * k + [[1, 0]]
    return 'run_builder %s %s %s %s' % (lst(c['calls'], zcall), lst(clock, lambda p: '(%s, %s)' % (z(p[0]), z(p[1]))),
                                        lst(c['created'], zi), lst(offs, lambda b: lst(b, zi)))


# ------------------------------------------------------------------ compare (model vs implementation)
STATUS = [('build: missing heuristic context', 1), ('build: unknown variation interval type', 2),
          ('build: missing search operators or heuristic', 3), ('build: missing diversify operators or heuristic', 4),
          ('sim: at least one initial method has to be specified', 5)]


def status_code(impl):
    s = impl.get('status', '')
    if s == 'ok':
        return 0
    for pre, code in STATUS:
        if s.startswith(pre):
            return code
    return -1


def terms_of_lines(lines):
    import re
    ts = []
    custom = False
    for l in lines:
        if l.startswith('configured to use default max-generations (3000) and max-time (300secs)'):
            ts += [(0, 3000), (1, 300)]
        m = re.match(r'configured to use max-generations: (\d+)$', l)
        if m:
            ts.append((0, int(m.group(1))))
        m = re.match(r'configured to use max-time: (\d+)s$', l)
        if m:
            ts.append((1, int(m.group(1))))
        m = re.match(r'configured to use variation coefficient (\w+) with', l)
        if m:
            ts.append((2, 0 if m.group(1) == 'sample' else 1 if m.group(1) == 'period' else 9))
        m = re.match(r'configured to use target fitness: \[(-?[0-9.e+]+)\]', l)
        if m:
            ts.append((3, int(round(-float(m.group(1)) - 1e9))))
        if l == 'configured to use a custom strategy':
            custom = True
    return ts, custom


def last_pop_kind(c):
    k = None
    for call in c['calls']:
        if call['s'] == 'context':
            k = call['pop']['kind']
    return k


def final_nops(c):
    n = 0
    for call in c['calls']:
        if call['s'] == 'initial':
            n = len(call['ops'])
    return n


def compare(c, impl, model):
    if c['kind'] == 'cli':
        return None
    if 'panic' in impl:
        return 'implementation panicked: %s' % impl['panic'][:300]
    (status, ctx, terms, strategy, maxsize, hooks, seeds, slots, ops, result, panicked, first) = model
    code = status_code(impl)
    if code != status:
        return 'status: implementation %r (code %d), model %d' % (impl.get('status'), code, status)
    if status != 0:
        return None
    if panicked == 'true':
        return 'the model panics, the implementation returned'
    ev = impl['events']
    tags = set(e[1] for e in pop_events(impl))
    if tags - {ctx}:
        return 'population of context %s received calls, the model says context %d is the configured one' % (sorted(tags), ctx)
    its, custom = terms_of_lines(impl['lines'])
    if its != [tuple(t) for t in terms]:
        return 'termination criteria: build() logged %s, model %s' % (its, terms)
    if custom != (strategy[0] == 0):
        return 'custom strategy: implementation %s, model strategy %s' % (custom, strategy)
    if strategy[0] == 0 and ['custom', strategy[1]] not in ev:
        return 'custom strategy %d did not run' % strategy[1]
    if strategy[0] == 1 and any(e[0] == 'search' and e[1] != strategy[1] for e in ev):
        return 'a heuristic other than %d searched' % strategy[1]
    if strategy[0] != 1 and any(e[0] == 'search' for e in ev):
        return 'a given heuristic searched although the model says strategy %s' % (strategy,)
    if strategy[0] == 2 and any(e[0] == 'op-search' and e[1] != strategy[1] for e in ev):
        return 'search operators other than set %d were used' % strategy[1]
    ch, sh = hooks
    pre = [e[1] for e in ev if e[0] == 'pre']
    if pre != ch:
        return 'context pre-processing hooks: implementation %s, model %s' % (pre, ch)
    firstpop = next((k for k, e in enumerate(ev) if e[0] in ('add', 'add_all', 'select', 'gen', 'create')), len(ev))
    if any(e[0] == 'pre' for e in ev[firstpop:]):
        return 'a context hook ran after the population was touched'
    adds = [e[2] for e in ev if e[0] == 'add']
    if adds[:len(seeds)] != seeds:
        return 'individuals offered first: implementation %s, model seeds %s' % (adds[:len(seeds) + 1], seeds)
    creates = [e for e in ev if e[0] == 'create']
    if len(creates) != len(slots):
        return 'initial operators created %d individuals, model %d (slots %s)' % (len(creates), len(slots), slots)
    nops = final_nops(c)
    for e, s in zip(creates, slots):
        if (s >= 0 and e[1] != s) or (s < 0 and not (0 <= e[1] < nops)):
            return 'initial operator of a slot: implementation index %d, model %s' % (e[1], s)
    iops = []
    for e in pop_events(impl):
        iops.append((0, [e[2]]) if e[0] == 'add' else (1, e[2]) if e[0] == 'add_all' else (2, []) if e[0] == 'gen' else (3, []))
    mops = [(o[0], o[1]) for o in ops if o[0] != 4]
    if iops != mops:
        k = next((i for i, (a, b) in enumerate(zip(iops, mops)) if a != b), min(len(iops), len(mops)))
        return 'population calls differ at position %d: implementation %s, model %s' % (k, iops[k:k + 3], mops[k:k + 3])
    # the population right after the initial stage (which population the context owns shows here: get_default_population gives a
    # Greedy for selection size 1 and a Rosomaxa in its Initial phase otherwise): phase, size and the parents of the first generation
    fsel = next((e for e in ev if e[0] in ('select', 'gen')), None)
    if fsel is not None and fsel[0] == 'select':
        if [fsel[2], fsel[3]] != [first[0], first[1]]:
            return 'after the initial stage: implementation phase %d size %d, model phase %d size %d' % (fsel[2], fsel[3], first[0], first[1])
        fs = next((e for e in ev if e[0] in ('search', 'gen')), None)
        if fs is not None and fs[0] == 'search':
            kind = last_pop_kind(c)
            if kind == 'elitism':
                if len(fs[2]) != len(first[2]) or fs[2][:1] != first[2][:1]:
                    return 'first parents: implementation %s, model %s (Elitism: size and head)' % (fs[2], first[2])
            elif fs[2] != first[2]:
                return 'first parents: implementation %s, model %s' % (fs[2], first[2])
    if strategy[0] != 0:
        rids = [p[0] for p in impl['result']]
        if rids != result:
            return 'result: implementation %s, model %s' % (rids, result)
        posts = [(e[1], e[2]) for e in ev if e[0] == 'post']
        want = [(h, r) for r in result for h in sh]
        if posts != want:
            return 'solution post-processing hooks: implementation %s, model %s' % (posts, want)
    return None


# ------------------------------------------------------------------ oracle (the property on the implementation's own output)
def expected_seeds(c):
    """what the caller seeded the solve with: the solutions of the LAST with_init_solutions, cut to the max_size in force at the end
    (last of with_initial(max_size, ..) / with_init_solutions(.., Some(max_size)); 4 by default); and the order class of the case"""
    seeds, mx = [], 4
    last_seed_call = -1
    initial_after = False
    nseed_calls = 0
    for k, call in enumerate(c['calls']):
        if call['s'] == 'init_solutions':
            seeds = call['sols']
            nseed_calls += 1
            last_seed_call = k
            initial_after = False
            if call['max'] is not None:
                mx = call['max']
        elif call['s'] == 'initial':
            mx = call['max']
            if last_seed_call >= 0:
                initial_after = True
    order = ('repeated-' if nseed_calls >= 2 else '') + ('with_initial-after-with_init_solutions' if initial_after else 'with_init_solutions-last')
    return seeds[:mx], order


def oracle(c, impl):
    if c['kind'] == 'cli':
        return oracle_cli(c, impl)
    if 'panic' in impl:
        return [{'class': 'builder-run-panic', 'what': 'builder / simulator run panicked: ' + impl['panic'][:300]}]
    if impl.get('status') != 'ok':
        return []
    v = []
    ev = impl['events']
    seeds, order = expected_seeds(c)
    m = individuals(c)
    custom = any(e[0] == 'custom' for e in ev)
    firstother = next((k for k, e in enumerate(ev) if e[0] in ('create', 'select', 'add_all', 'gen')), len(ev))
    early = [e[2] for e in ev[:firstother] if e[0] == 'add']
    if early[:len(seeds)] != [x[0] for x in seeds]:
        v.append({'class': 'builder-seed-not-offered-first-%s' % order,
                  'what': 'the solve was seeded with %s but the population was offered %s before anything else' % ([x[0] for x in seeds], early)})
    offered = {}
    for e in ev:
        ids = [e[2]] if e[0] == 'add' else e[2] if e[0] == 'add_all' else []
        for i in ids:
            if i not in m:
                v.append({'class': 'builder-unknown-individual-offered', 'what': 'individual %s of unknown origin reached the population' % i})
            else:
                offered[i] = m[i][1]
    if custom:
        return v[:3]
    res = impl['result']
    if seeds:
        if not res:
            v.append({'class': 'builder-no-result-from-seeded-run-%s' % order, 'what': 'seeded with %s, the run returned no solution' % seeds})
        elif res[0][1] > min(x[1] for x in seeds):
            v.append({'class': 'builder-result-worse-than-seed-%s' % order,
                      'what': 'seeded with keys %s, the run returned %s' % ([x[1] for x in seeds], res[0])})
    if res and offered and res[0][1] > min(offered.values()):
        v.append({'class': 'builder-best-lost', 'what': 'result %s is worse than the offered minimum %d' % (res[0], min(offered.values()))})
    if len(res) > 1:
        v.append({'class': 'builder-result-too-long', 'what': 'Iterative::new(heuristic, 1) returned %d solutions' % len(res)})
    for p in res:
        if offered.get(p[0]) != p[1]:
            v.append({'class': 'builder-result-not-offered', 'what': 'result %s was never offered to the population' % p})
    return v[:4]


def oracle_cli(c, impl):
    if 'panic' in impl:
        return [{'class': 'cli-config-solve-panic', 'what': 'config-file path solve panicked: ' + impl['panic'][:300]}]
    v = []
    ev = impl['events']
    cfg = _json.loads(c['config'])
    if cfg['evolution']['initial']['alternatives']['maxSize'] >= 1:
        first = next((e for e in ev if e[0] in ('add', 'add_all', 'select')), None)
        if first is None or first[0] != 'add' or first[1] != impl['seed_fit']:
            v.append({'class': 'cli-config-seed-not-offered-first',
                      'what': 'create_builder_from_config was given an initial solution of fitness %s, the population saw first: %s' % (
                          impl['seed_fit'], first)})
        if impl['result_vs_seed'] > 0:
            v.append({'class': 'cli-config-result-worse-than-seed',
                      'what': 'seeded with fitness %s, the solve returned %s' % (impl['seed_fit'], impl['fit_result'])})
    return v


# ------------------------------------------------------------------ statistics / shrinking
def nontrivial_key(c, impl):
    if 'panic' in impl:
        return None
    if c['kind'] == 'cli':
        return ('cli', c['problem'], c['config'])
    if impl.get('status') != 'ok':
        return None
    seeds, _ = expected_seeds(c)
    return ('builder', _json.dumps(c['calls'])) if seeds else None


def classify(c, impl):
    if c['kind'] == 'cli':
        return ['kind=cli-config']
    labs = ['kind=builder']
    if 'panic' in impl:
        return labs + ['panic']
    labs.append('status=%d' % status_code(impl))
    seeds, order = expected_seeds(c)
    labs.append('order=' + order)
    labs.append('seeds=%d' % len(seeds))
    if c.get('pair'):
        labs.append('pair')
    if c.get('reordered'):
        labs.append('reordered')
    if c.get('defaults'):
        labs.append('default-termination')
    if impl.get('status') == 'ok':
        labs.append('generations=%d' % min(8, sum(1 for e in impl['events'] if e[0] == 'gen')))
        if any(e[0] == 'custom' for e in impl['events']):
            labs.append('custom-strategy')
    return labs


def shrink_candidates(c):
    if c['kind'] == 'cli':
        return
    calls = c['calls']
    for i in range(len(calls)):
        if calls[i]['s'] == 'max_gen':
            continue
        d = dict(c)
        d['calls'] = calls[:i] + calls[i + 1:]
        yield d
