"""C01 — returned tours never violate a hard constraint (plugin for tools/verif.py; built on the shared end-to-end oracle e2e.py).

proof      : Properties/C01.v — every modelled construction / search step (accepted insertion, removal under the triangle
             inequality) keeps each tour `Feasible.feasible` (time windows incl. the shift end, capacity at every point).
oracle     : the SAME `Feasible.feasible` (plus skills allOf/oneOf/noneOf, tour limits, shift start, end location, compatibility,
             groups, reachability (errorCodes), capacity in every further dimension) evaluated inside Coq on the tours rebuilt
             from every solution document the REAL solver returns (Valid.feasible_viols ++ Valid.xfeasible_viols), for generated
             problems under a matrix of configurations: generations, thread-pool layouts (also the second clause of C15), quota
             firing points.  For problems with errorCodes the harness also returns PURE-CONSTRUCTION documents (insertion-only runs
             of the real heuristics): they are checked the same way and tell a leg accepted by an insertion from one left by a removal.
"""
import hashlib
import json
from props import e2e

ID = 'C01'
HARNESS = 'solve'
COQ_IMPORTS = 'From VRP Require Model.Routing. From VRP Require Import Base.Tac Model.Core Spec.Valid Spec.ValidTD Spec.ValidX Spec.ValidY Spec.Relations.'
MODEL_TARGETS = ['theories/Spec/Valid.vo', 'theories/Spec/ValidTD.vo', 'theories/Spec/ValidX.vo', 'theories/Spec/ValidY.vo', 'theories/Spec/Relations.vo']
MODEL_NEEDS_IMPL = True
SHARD = 24
SIZES = {'quick': 420, 'thorough': 4200, 'search': 1800}
_R4 = "; round-four features, each in about 1/3 of the problems and from its own forked random stream: 2-4 extra jobs with REPLACEMENT tasks (also mixed with pickups / services / shipments), REQUIRED breaks (exact time or offset interval, 1-2 per shift, on shifts without optional breaks and reloads; documents show them as break activities inside a stop or as stops without location), VICINITY CLUSTERING (plan.clustering with the vehicles' profile, visiting continue / return, serving original with parking 0-10, thresholds taken from the matrix, 3-5 extra single-task jobs at a pair of near locations; not together with breaks, reloads, errorCodes or general routing data)"
_R5 = '; round-five features, each from its own forked random stream: RECHARGE STATIONS in about 1/3 of the problems without required breaks / clustering (recharges.maxDistance = the length of a random 2-4 leg walk from the shift start, so that tours exactly at the limit occur; 1-3 stations per shift with location, duration 0-15, sometimes a time window / tag; combined with reloads, optional breaks, capacity dimensions, errorCodes, general routing data), SHARED RELOAD RESOURCES in about 2/3 of the problems with reloads (fleet.resources with 1-2 small capacity vectors, resourceId on about 3/4 of the reloads of all shifts), REQUIRED breaks on shifts that also have reloads in about half of the remaining problems with reloads (start.latest = start.earliest)'
RULE = ('cases: generated pragmatic problems (3-10 jobs: deliveries, pickups, services, shipments, multi jobs; 1-2 places / windows; '
        '1-3 vehicle types x 1-2 ids x 1-2 shifts, open and closed ends; capacity, skills, maxDistance / maxDuration / tourSize limits; '
        'additive features, each in about 1/3 of the problems and freely combined: job compatibility classes mixed with plain jobs, job '
        'groups, matrix errorCodes (asymmetric / symmetric / a location that cannot be left or entered), 2-3 capacity dimensions, skills '
        'oneOf / noneOf, vehicle reloads (small capacities + extra deliveries and shipments: several trips, shipments carried across a '
        'reload), task order (1-3 on about half of the tasks: a hard rule with the default objectives), job value (switches the '
        'maximize-value objective on), optional vehicle breaks (time window or offset interval, places with / without location, 1-2 per shift), '
        'general routing data for a quarter of the problems (1-2 profiles, integer scale, 2-3 timestamped matrices per profile); a fifth of '
        'the cases carry relations (any / sequence / strict, departure / arrival anchors, shiftIndex) derived from a solution of the same problem; '
        'metric and non-metric integer matrices incl. the "cheap chain, expensive shortcut" shape' + _R4 + _R5 + ') x 3 configurations each '
        '(max_generations 0-20, Parallelism none/(1,1)/(2,2), outer threads 1-2, quota firing after 0-89 polls or never). '
        'non-trivial = distinct (problem, document) whose document has a tour with >= 2 jobs or a binding constraint (an unassigned job).')
TRUSTED = ['rendering of the JSON documents into the reduced Coq types and the rebuilding of Core activities from a reported tour '
           '(tools/props/e2e.py, Spec/Valid.v tour_acts / match_act): an activity is attributed to the job task place by location, duration and window',
           'real thread interleavings are sampled (three layouts), not enumerated']
ASSUMPTIONS = ['problem fragment without objectives override and relations naming break / reload / recharge (optional breaks are in: window '
               'of the break via the rebuilt activity, placement FBreakPlace; relations are in for a sixth of the cases: derived from a '
               'solution of the same problem on metric matrices without tour limits, pinning rules of Spec/Relations.v): those '
               'constraints are not exercised by this check',
               'required breaks (Spec/ValidX.v): the break intervals a tour reports are taken as part of the reported visiting order (that '
               'they are the defined ones, that none is missing and that nothing else happens in them are rules of their own); every '
               'time rule is evaluated on the tour without its break activities with a clock that skips those intervals; not on shifts '
               'that also have optional breaks or reloads, not with general routing data',
               'vicinity clustering (Spec/ValidX.v): clustering.profile = the vehicles\' routing profile without scale, serving policy '
               'original; for a tour with a clustered stop the rules are evaluated on the activities attributed by kind and location '
               '(capacity, skills, order, limits on the stop-to-stop distance / duration, tour size with the clustered activities of a '
               'stop counted as one, every service start inside a time window of a place used, members within the threshold); the '
               'arrival-by-arrival time-window simulation is not run for such a tour',
               'recharge stations and shared reload resources (Spec/ValidY.v): a recharge stop is judged by the existing rules as the demand-free '
               'service activity of a pseudo job that offers the stations of the tour\'s shift (time windows, both legs, tour size ...), plus '
               'FRechargeDistance (the distance driven between departure / recharges / end, the leg into a station counted for the stretch it ends); '
               'which reload of a shift a reload stop is = the first one with its location and duration (the generator gives reloads of one shift '
               'with equal location and duration the same resource; checked: res_ambiguous); not together with required breaks or clustering',
               'general routing data (several profiles, integer scale, time-dependent matrices with integer slopes) are judged by '
               'Spec/ValidTD.v over the C16 provider model; the step theorems are about time-independent routing',
               'groups: checked rule = all ASSIGNED jobs of a group are in one tour (the documentation\'s "or left unassigned" is read per job)']


def generate(rng, tier, n):
    # a fifth of the cases carry `plan.relations` derived from a solution of the same problem (two-phase generation:
    # solve, derive relations from the returned tours, re-solve with them); their own forked stream: the other cases are the
    # ones the generator produced before relations existed
    nrel = n // 5
    cases = e2e.gen_cases(rng, n - nrel, per_problem=3, allow=e2e.ALLOW_E2E)
    # a quarter of the relation cases: ONE vehicle with two shifts that are both used, relations for both shifts (same vehicleId,
    # different shiftIndex: the pinning rule is about the vehicle AND the shift, Relations.is_rel_tour); own forked stream
    ntwo = max(6, nrel // 4)
    return cases + e2e.gen_relation_cases(rng.fork('relations'), nrel - ntwo) \
        + e2e.gen_two_shift_relation_cases(rng.fork('relations-two-shifts'), ntwo)


def _sol(impl):
    return impl.get('solution') if e2e.outcome(impl) == 'solution' else None


def constructed_docs(c, impl):
    """[(method, document)] of the pure-construction documents the harness produced (config.construct), renderable ones only"""
    out = []
    for x in (impl or {}).get('constructed') or []:
        if isinstance(x, dict) and isinstance(x.get('solution'), dict) and not e2e.unsupported(c, x['solution']):
            out.append((x.get('method'), x['solution']))
    return out


def reload_bridges(c, doc, k, i):
    """the leg arriving at flattened activity i of tour k of `doc` joins two activities between which a reload of the tour's
    vehicle shift would fit (both of ITS legs reachable): what RouteIntervals::remove_trivial_markers leaves behind when it
    removes a reload marker (tour.remove_activity_at, no constraint evaluated) - pure constructions do that too"""
    try:
        t = doc['tours'][k]
        m = c['matrices'][0]
        err, n = m.get('errorCodes') or [], e2e.matrix_size(m)
        locs = [(a.get('location') or st['location'])['index'] for st in t['stops'] for a in st['activities']]
        vt = e2e.vehicle_type_of(c, t)
        sh = vt['shifts'][t.get('shiftIndex', 0)]
        u, w = locs[i - 1], locs[i]
        return any(err[u * n + r['location']['index']] <= 0 and err[r['location']['index'] * n + w] <= 0
                   for r in sh.get('reloads') or [])
    except Exception:  # noqa
        return False


def recharge_bridges(c, doc, k, i):
    """the leg arriving at flattened activity i of tour k of `doc` joins two activities between which a RECHARGE STATION of the tour's
    vehicle shift would fit (both of its legs reachable): recharge markers are reload-style markers of the same RouteIntervals machinery,
    and remove_trivial_markers takes one out of the tour (tour.remove_activity_at, no constraint evaluated) when its interval became
    obsolete - also at the end of a pure construction (round five: stations are even inserted into EMPTY tours first, see C02-F5)"""
    try:
        t = doc['tours'][k]
        m = c['matrices'][0]
        err, n = m.get('errorCodes') or [], e2e.matrix_size(m)
        locs = [(a.get('location') or st['location'])['index'] for st in t['stops'] for a in st['activities']]
        vt = e2e.vehicle_type_of(c, t)
        sh = vt['shifts'][t.get('shiftIndex', 0)]
        u, w = locs[i - 1], locs[i]
        return any(err[u * n + r['location']['index']] <= 0 and err[r['location']['index'] * n + w] <= 0
                   for r in (e2e.shift_recharges(sh) or {}).get('stations') or [])
    except Exception:  # noqa
        return False


def break_bridges(c, doc, k, i):
    """the leg arriving at flattened activity i of tour k of `doc` joins two activities between which an OPTIONAL BREAK of the
    tour's vehicle shift can have been (both of ITS legs reachable): OptionalBreakState::remove_invalid_breaks (breaks.rs) takes an
    orphaned / mistimed break out of the tour (tour.remove, no constraint evaluated) at every accept_solution_state, also at the
    end of a pure construction.  A place without location sits wherever its previous activity was WHEN THE BREAK WAS INSERTED
    (a job may be inserted in front of it later: the orphan case), so any location L with both legs reachable qualifies
    (observed: P(L) -> pickup at 4 -> break(L) -> delivery at 3 became 4 -> 3 with errorCodes[4][3] > 0)"""
    try:
        t = doc['tours'][k]
        m = c['matrices'][0]
        err, n = m.get('errorCodes') or [], e2e.matrix_size(m)
        locs = [(a.get('location') or st['location'])['index'] for st in t['stops'] for a in st['activities']]
        vt = e2e.vehicle_type_of(c, t)
        sh = vt['shifts'][t.get('shiftIndex', 0)]
        u, w = locs[i - 1], locs[i]

        def fits(b):
            return err[u * n + b] <= 0 and err[b * n + w] <= 0
        for br in e2e.optional_breaks(sh):
            for pl in br['places']:
                if pl.get('location') is not None:
                    if fits(pl['location']['index']):
                        return True
                elif any(fits(b) for b in range(n)):
                    return True
        return False
    except Exception:  # noqa
        return False


def model_term(c, impl):
    """(violations of the returned document, [violations of every pure-construction document])"""
    s = _sol(impl)
    if s is None or e2e.unsupported(c, s):
        return '(@nil violation, @nil (list violation), (@nil (Z * Z), @nil (Z * Z)))'
    ids = e2e.Ids(c)
    cons = [e2e.term_F(c, d, ids, S=g) for d, g in [(d, e2e.g_solution(c, d, ids)) for _, d in constructed_docs(c, impl)]]
    # R = None: the classic fragment, feasible_viols_x None = Valid.feasible_viols; otherwise Spec/ValidTD.v (several profiles,
    # scale, time-dependent matrices: every leg evaluated at its departure time by the C16 provider model)
    return ('(let R := %s in let P := %s in let S := %s in '
            '(precond_viol P ++ %s ++ rel_viols %s S, [%s], %s))') % (
        e2e.g_routing(c, ids), e2e.g_problem(c, ids), e2e.g_solution(c, s, ids), e2e.term_F(c, s, ids), e2e.g_relations(c, ids),
        '; '.join(cons), e2e.term_resources(c, s, ids))


def compare(c, impl, model):
    # the correspondence of the evaluator model is C06's; here the Coq value is the verdict (oracle_model).  What IS compared:
    # the Python twins of the two round-five rules (guards the JSON -> Gallina rendering of recharges / resources)
    s = _sol(impl)
    if s is None or e2e.unsupported(c, s) or not (isinstance(model, tuple) and len(model) == 3):
        return None
    ids = e2e.Ids(c)
    if e2e.has_resources(c):
        coq = sorted(tuple(x) for x in (model[2][0] or []))
        twin = sorted((ids.resource(r), d) for r, d in e2e.py_resource_viols(c, s))
        if coq != twin:
            return 'reload-resource twin mismatch: python %s coq %s' % (twin, coq)
    if e2e.has_recharges(c) and not e2e.general_routing(c) and not e2e.needs_x(c):
        coq = sorted(t[1] for t in e2e.coq_viols(model[0], 'F') if t[0] == 'FRechargeDistance')
        twin = e2e.recharge_distance_exceeded(c, s)
        if coq != twin:
            return 'recharge-distance twin mismatch: python %s coq %s' % (twin, coq)
    return None


CLASS = {'FNoTour': 'tour-not-rebuildable', 'FInfeasible': 'tour-infeasible', 'FCapacity': 'capacity-exceeded',
         'FSkills': 'skills-violated',
         'FMaxDistance': 'max-distance-exceeded', 'FMaxDuration': 'max-duration-exceeded', 'FTourSize': 'tour-size-exceeded',
         'FShiftStart': 'departure-outside-shift-start', 'FEndLocation': 'wrong-end-location',
         'FCompatibility': 'compatibility-classes-mixed-in-tour', 'FGroup': 'group-split-over-tours',
         'FUnreachable': 'unreachable-leg', 'FCapacityDim': 'capacity-exceeded-in-extra-dimension',
         'FOrder': 'task-order-violated', 'FBreakPlace': 'break-not-at-a-place-of-a-break-of-the-shift',
         'FRequiredBreakMissing': 'required-break-missing', 'FReservedTime': 'reserved-time-of-required-break-used',
         'FRechargeDistance': 'recharge-distance-exceeded',
         'FClusterWindow': 'service-starts-outside-the-time-windows', 'FClusterThreshold': 'cluster-member-beyond-threshold',
         'FRelVehicle': 'relation-job-on-another-vehicle-shift-or-not-served', 'FRelOrder': 'relation-order-broken',
         'FRelContiguous': 'strict-relation-not-contiguous', 'FRelAnchor': 'strict-relation-not-anchored'}


# classes of the rules evaluated on a tour WITH a clustered stop (ValidX.feasible_viol_cl)
CLUSTER_CLASS = {'FCapacity': 'clustered-tour:capacity-exceeded', 'FCapacityDim': 'clustered-tour:capacity-exceeded-in-extra-dimension',
                 'FClusterWindow': 'clustered-tour:service-starts-outside-the-time-windows', 'FClusterThreshold': 'clustered-tour:member-beyond-threshold',
                 'FMaxDistance': 'clustered-tour:max-distance-exceeded', 'FTourSize': 'clustered-tour:tour-size-exceeded',
                 'FMaxDuration': 'clustered-tour:max-duration-exceeded', 'FNoTour': 'clustered-tour:tour-not-rebuildable',
                 'FInfeasible': 'clustered-tour:arrival-after-shift-end', 'FOrder': 'clustered-tour:task-order-violated',
                 'FSkills': 'clustered-tour:skills-violated'}


def oracle(c, impl):
    if e2e.outcome(impl) == 'panic':
        msg = str((impl or {}).get('panic'))
        return [{'class': e2e.panic_class(c, msg), 'what': 'solving a valid problem panicked: %s' % msg[:300]}]
    return []


def pinned_job_served_and_unassigned(c, s):
    """a plan job that a relation pins to a vehicle, which the document serves in a tour AND lists as unassigned, and that has a group"""
    pinned = {j for r in (c['problem']['plan'].get('relations') or []) for j in r.get('jobs', [])}
    grouped = {j['id'] for j in c['problem']['plan']['jobs'] if j.get('group')}
    served = {a.get('jobId') for t in s.get('tours', []) for st in t['stops'] for a in st['activities']}
    un = {u.get('jobId') for u in (s.get('unassigned') or [])}
    return bool(pinned & grouped & served & un)


def oracle_model(c, impl, model):
    s = _sol(impl)
    if s is None or e2e.unsupported(c, s):
        return []
    out = []
    m = c['matrices'][0]
    res_viols, res_amb = [], []
    if isinstance(model, tuple) and len(model) == 3 and not (model and isinstance(model[0], str)):
        main, cons, (res_viols, res_amb) = model
    elif isinstance(model, tuple) and len(model) == 2 and not (model and isinstance(model[0], str)):
        main, cons = model
    else:                                   # callers that evaluated valid_b themselves (C07) pass the plain violation list
        main, cons = model, None
    # pure-construction documents: insertion-only runs of the real heuristics (no ruin, no removal).  A hard-rule violation
    # there cannot be blamed on an unguarded removal: the insertion-time constraint itself let it through.
    docs = constructed_docs(c, impl)
    cons_bad = False
    if cons is not None:
        for (method, doc), vs in zip(docs, cons):
            for t in e2e.coq_viols(vs, 'F'):
                cls = 'construction:' + CLASS.get(t[0], t[0])
                if t[0] == 'FRequiredBreakMissing' and isinstance(t[1], int) and 0 <= t[1] < len(doc.get('tours') or []):
                    # the writer defects C01-F6 / C01-F7 show in every document it writes
                    cls = 'construction:' + e2e.rb_missing_class(c, doc['tours'][t[1]])
                elif t[0] in ('FNoTour', 'FReservedTime', 'FInfeasible') and isinstance(t[1], int) and 0 <= t[1] < len(doc.get('tours') or []) \
                        and e2e.rb_two_on_one_span(c, doc['tours'][t[1]]):
                    cls = 'construction:' + CLASS[t[0]] + '-two-required-breaks-inside-one-leg-or-stop'
                elif t[0] == 'FNoTour' and isinstance(t[1], int) and 0 <= t[1] < len(doc.get('tours') or []) and \
                        e2e.rb_missing_class(c, doc['tours'][t[1]]) == 'required-break-inside-last-activity-of-open-tour-not-reported':
                    cls = 'construction:tour-not-rebuildable-required-break-inside-last-activity-of-open-tour-not-reported'
                elif t[0] in ('FNoTour', 'FReservedTime') and isinstance(t[1], int) and 0 <= t[1] < len(doc.get('tours') or []) \
                        and e2e.rb_unreported_time(c, doc['tours'][t[1]]) > 0:
                    cls = 'construction:' + CLASS[t[0]] + '-required-break-counted-in-statistic-but-not-reported'
                if t[0] == 'FUnreachable' and reload_bridges(c, doc, t[1], t[2]):
                    # not removal-free after all: a reload marker that became trivial was removed between the two ends
                    cls = 'unreachable-leg-where-a-removed-reload-marker-fits'
                elif t[0] == 'FUnreachable' and break_bridges(c, doc, t[1], t[2]):
                    # likewise: a break that remove_invalid_breaks took out of the tour was between the two ends
                    cls = 'unreachable-leg-where-a-removed-break-fits'
                elif t[0] == 'FUnreachable' and recharge_bridges(c, doc, t[1], t[2]):
                    # likewise: a recharge marker that remove_trivial_markers took out of the tour was between the two ends
                    cls = 'unreachable-leg-where-a-removed-recharge-marker-fits'
                else:
                    cons_bad = cons_bad or t[0] == 'FUnreachable'
                out.append({'class': cls,
                            'what': 'pure construction (%s, insertions only) violates %s %s' % (method, t[0], list(t[1:]))})
    else:
        # no Coq verdict on the construction documents at hand (caller evaluated valid_b on the returned one only): python twin
        cons = [[('FUnreachable',) + x for x in e2e.unreachable_legs(c, d)
                 if not reload_bridges(c, d, x[0], x[1]) and not break_bridges(c, d, x[0], x[1])
                 and not recharge_bridges(c, d, x[0], x[1])] for _, d in docs]
        cons_bad = any(cons)
    for t in e2e.coq_viols(main, 'P'):
        if t[0] == 'PRouting':
            # the generator promises integer routing values at every departure time that can occur: this is an alarm about
            # the generated DATA (or the provider model), never silently skipped
            out.append({'class': 'routing-value-missing-or-not-integer', 'what': 'PRouting %s: general routing data outside the exact fragment' % list(t[1:])})
    out += resource_violations(c, s, res_viols, res_amb)
    mats = c['matrices']
    # time-dependent data: the generated slopes are in {-1, 0, 1}, so arrival times are monotone in the departure (FIFO) and an
    # interpolation between metric matrices is metric: a removal can only hurt when SOME matrix violates the triangle inequality
    nonmetric_d = any(violates_triangle(x['distances']) for x in mats)
    nonmetric_t = any(violates_triangle(x['travelTimes']) for x in mats)
    for t in e2e.coq_viols(main, 'F'):
        name, arg = t[0], (t[1] if len(t) > 1 else None)
        cls = CLASS.get(name, name)
        tour = s['tours'][arg] if isinstance(arg, int) and 0 <= arg < len(s['tours']) and not name.startswith('FRel') \
            and name != 'FGroup' else None
        if name == 'FGroup' and pinned_job_served_and_unassigned(c, s):
            # finding C01-F19 (seen once, not reproducible run by run; thread layout with 2 outer threads): a job pinned by a relation is
            # in its tour AND in the unassigned list of the same core solution; the other job of its group was then placed elsewhere
            cls = 'group-split-over-tours:pinned-job-of-the-group-served-and-listed-unassigned'
        elif tour is not None and not any(a.get('type') not in ('departure', 'arrival') for st in tour['stops'] for a in st['activities']):
            # a tour without any job (root cause shared with C02-F1): every rule evaluated on it is moot
            vt = e2e.vehicle_type_of(c, tour)
            cls = 'empty-tour-max-duration-vehicle' if vt is not None and (vt.get('limits') or {}).get('maxDuration') is not None else 'empty-tour'
        elif tour is not None and e2e.tour_has_cluster(tour) and name in CLUSTER_CLASS:
            # findings C01-F11 .. F13: a tour with a clustered stop (vicinity clustering)
            cls = CLUSTER_CLASS[name]
            if name == 'FClusterThreshold' and not clustered_multi_place_job(c, tour):
                # the open causes of C01-F13 (members expanded with place 0; candidates reachable from ANY place of the centre)
                # need a clustered job with several places.  With single-place jobs only, a member beyond the threshold was the
                # swapped limits of clustering_reader.rs (repaired by 794c92a): a class of its own that is NOT a known finding
                cls = 'clustered-tour:member-beyond-threshold-all-clustered-jobs-single-place'
        elif name == 'FRequiredBreakMissing' and tour is not None:
            # findings C01-F6 (moved break not written) / C01-F7 (break inside the last activity of an open tour not written)
            cls = e2e.rb_missing_class(c, tour)
        elif name in ('FNoTour', 'FReservedTime', 'FInfeasible') and tour is not None and e2e.rb_two_on_one_span(c, tour):
            # finding C01-F9: only one reserved time is applied per leg / activity
            cls = CLASS[name] + '-two-required-breaks-inside-one-leg-or-stop'
        elif name == 'FNoTour' and tour is not None and \
                e2e.rb_missing_class(c, tour) == 'required-break-inside-last-activity-of-open-tour-not-reported':
            # consequence of C01-F7: the last stop lasts longer than its activity explains
            cls = 'tour-not-rebuildable-required-break-inside-last-activity-of-open-tour-not-reported'
        elif name in ('FNoTour', 'FReservedTime') and tour is not None and e2e.rb_unreported_time(c, tour) > 0:
            # consequence of C01-F6: the stop lasts longer than its activities explain
            cls = CLASS[name] + '-required-break-counted-in-statistic-but-not-reported'
        elif name == 'FShiftStart' and tour is not None and \
                ((e2e.vehicle_type_of(c, tour) or {}).get('limits') or {}).get('maxDuration') is not None:
            cls = 'departure-outside-shift-start-max-duration-vehicle'
        elif name == 'FInfeasible' and tour is not None and departure_advanced_across_required_break(c, tour):
            # NOT a known finding (outside the documented fragment, break.md: required breaks need start.latest = start.earliest): the departure-time optimisation moves the departure later by the slack it reads off the current
            # schedule (1:1 assumption, as in C01-F5); a reserved time that lay before the first drive then falls into it (or into
            # a service) and delays every later arrival by the break's duration
            cls = 'tour-infeasible-departure-advanced-across-a-required-break'
        elif name == 'FInfeasible' and tour is not None and departure_advanced_under_td(c, tour):
            # finding C01-F5: try_advance_departure_time (departure_time.rs) shifts the departure by the waiting time / slack it
            # reads off the CURRENT schedule, i.e. it assumes every arrival moves 1:1 with the departure; with travel times that
            # depend on the departure time the arrivals move by more and a time window is missed
            cls = 'tour-infeasible-departure-advanced-with-time-dependent-durations'
        elif name == 'FMaxDistance' and nonmetric_d:
            cls = 'max-distance-exceeded-nonmetric-matrix'
        elif name == 'FRechargeDistance' and tour is not None and time_dependent_distances(c, tour):
            # finding C01-F17: the recharge rule (and every distance limit) is evaluated on the LOCAL distance delta of an insertion
            # at the current departure times; with distances that depend on the departure time the legs behind the insertion
            # point are driven later and may be longer than they were when the counter was computed
            cls = 'recharge-distance-exceeded-with-time-dependent-distances'
        elif name == 'FRechargeDistance' and nonmetric_d:
            # same root cause as C01-F1 (a removal lengthens what stays when the distances violate the triangle inequality)
            cls = 'recharge-distance-exceeded-nonmetric-matrix'
        elif name in ('FMaxDuration', 'FInfeasible') and nonmetric_t:
            cls = CLASS[name] + '-nonmetric-matrix'
        elif name == 'FUnreachable' and docs and len(docs) == len(cons) and not cons_bad:
            # every insertion is gated by ReachableConstraint (both legs next to the inserted activity); the pure-construction
            # documents of this very problem have no unreachable leg, so the leg was not accepted by an insertion: it is
            # what a removal left behind (finding C01-F4).  See notes/C01.md for what this class can hide.
            cls = 'unreachable-leg-absent-from-pure-construction'
        out.append({'class': cls, 'what': '%s %s (tour index, detail)' % (name, list(t[1:]))})
    return out


def resource_violations(c, s, res_viols, res_amb):
    """oracle violations for ValidY.resource_viols / res_ambiguous, the class derived from the structure of the failing input"""
    out = []
    ids = e2e.Ids(c)
    names = {v: k for k, v in ids.resources.items()}
    for x in res_amb or []:
        out.append({'class': 'reload-resource-of-a-stop-not-determined-by-location-and-duration',
                    'what': 'generator error: vehicle type %s shift %s has two reloads with one location and duration and different resources' % tuple(x)})
    dims = e2e.capacity_dims(c)
    for rid, d in [tuple(x) for x in res_viols or []]:
        name = names.get(rid, '#%s' % rid)
        use = e2e.py_resource_use(c, s)
        cap = [r['capacity'] for r in c['problem']['fleet'].get('resources') or [] if r['id'] == name]
        multi = e2e.resource_multi_task_contributors(c, s, name)
        if dims > 1:
            # finding C01-F14: SharedResourceConstraint::evaluate_activity asks `available.partial_cmp(demand) == Some(Less)`; two load
            # vectors that are not comparable (one dimension fits, another does not) are NOT `Less`, so the insertion is accepted
            cls = 'reload-resource-exceeded-with-multi-dimensional-capacity'
        elif multi:
            # finding C01-F15: the second and later activities of a multi-task job are evaluated on a route whose resource state was
            # reset by prevent_resource_consumption, which blocks only the intervals that ALREADY load something from a resource
            cls = 'reload-resource-exceeded-by-delivery-of-a-multi-task-job'
        else:
            cls = 'reload-resource-exceeded'
        out.append({'class': cls, 'what': 'resource %s, dimension %d: the tours load %s static deliveries at its reload stops, capacity %s%s' % (
            name, d, use.get((name, d)), cap[0] if cap else '?', '; tasks of multi-task jobs among them: %s' % multi if multi else '')})
    return out


def clustered_multi_place_job(c, tour):
    """some activity of the tour that is served as a cluster member (it carries a commute field) belongs to a job one of whose
    tasks offers several places"""
    jobs = {j['id']: j for j in c['problem']['plan']['jobs']}
    for st in tour['stops']:
        for a in st['activities']:
            if a.get('commute') is not None:
                j = jobs.get(a.get('jobId'))
                if j is None or any(len(t['places']) > 1 for _, t in e2e.tasks_of(j)):
                    return True
    return False


def time_dependent_distances(c, tour):
    """structure of finding C01-F17: the matrices of the tour's profile carry timestamps and their DISTANCES differ"""
    try:
        vt = e2e.vehicle_type_of(c, tour)
        prof = vt['profile']['matrix']
        ms = [m for m in c['matrices'] if m.get('profile') == prof and m.get('timestamp') is not None]
        return len(ms) >= 2 and any(m['distances'] != ms[0]['distances'] for m in ms)
    except Exception:  # noqa
        return False


def departure_advanced_across_required_break(c, tour):
    """structure seen outside the documented fragment (break.md): the tour's shift defines required breaks by EXACT time, its start has no `latest` equal to
    `earliest` (the departure may move), and the tour departs later than the shift's earliest start"""
    try:
        brs = e2e.tour_required_breaks(c, tour)
        if not brs or any(e2e.required_break_times(b)[2] for b in brs):
            return False
        vt = e2e.vehicle_type_of(c, tour)
        sh = vt['shifts'][tour.get('shiftIndex', 0)]
        if sh['start'].get('latest') is not None and e2e.secs(sh['start']['latest']) == e2e.secs(sh['start']['earliest']):
            return False
        facts = e2e._flat_facts(tour)
        # the route's own departure: the reported departure of the first stop, or the start of a break the writer moved in front of it
        moved = e2e.rb_moved_before_departure(c, tour)
        dep = moved[0] if moved else facts[0]['end']
        return dep > e2e.secs(sh['start']['earliest'])
    except Exception:  # noqa
        return False


def departure_advanced_under_td(c, tour):
    """structure of finding C01-F5: the matrices of the tour's profile carry timestamps and their travel times differ, and the
    tour departs LATER than the shift's earliest start (the departure-time optimisation moved it)"""
    try:
        vt = e2e.vehicle_type_of(c, tour)
        prof = vt['profile']['matrix']
        ms = [m for m in c['matrices'] if m.get('profile') == prof and m.get('timestamp') is not None]
        if len(ms) < 2 or all(m['travelTimes'] == ms[0]['travelTimes'] for m in ms):
            return False
        sh = vt['shifts'][tour.get('shiftIndex', 0)]
        first = tour['stops'][0]
        acts = first['activities']
        dep = e2e.secs(acts[0]['time']['end']) if acts and acts[0].get('time') else e2e.secs(first['time']['departure'])
        return dep > e2e.secs(sh['start']['earliest'])
    except Exception:  # noqa
        return False


def violates_triangle(vals):
    n = int(round(len(vals) ** 0.5))
    for a in range(n):
        for b in range(n):
            for k in range(n):
                if vals[a * n + k] > vals[a * n + b] + vals[b * n + k]:
                    return True
    return False


def nontrivial_key(c, impl):
    s = _sol(impl)
    if s is None or not s['tours']:
        return None
    tours, un = e2e.doc_summary(s)
    if not (un or any(len(t) >= 2 for t in tours)):
        return None
    h = hashlib.sha256(json.dumps(c['problem'], sort_keys=True).encode()).hexdigest()[:12]
    return (h, json.dumps(tours), json.dumps(sorted(un)))


def classify(c, impl):
    cfg = c['config']
    labs = ['result=' + e2e.outcome(impl),
            'parallelism=%s' % ('default' if cfg['parallelism'] is None else 'x'.join(map(str, cfg['parallelism']))),
            'outer_threads=%s' % cfg.get('outer_threads', 1),
            'quota=%s' % ('never' if cfg['quota_after_polls'] is None else 'fires'),
            'matrix=%s' % ('metric' if (c.get('meta') or {}).get('metric') else 'non-metric')]
    s = _sol(impl)
    if s is not None:
        tours, un = e2e.doc_summary(s)
        labs.append('tours=%d' % len(tours))
        labs.append('max_tour_jobs=%d' % max([len(t) for t in tours] + [0]))
    for f in (c.get('meta') or {}).get('features') or []:
        labs.append('feature=' + f)
    for r in c['problem']['plan'].get('relations') or []:
        labs.append('relation=' + r['type'] + ('+departure' if r['jobs'][:1] == ['departure'] else '')
                    + ('+arrival' if r['jobs'][-1:] == ['arrival'] else ''))
        if len(set(r['jobs'])) < len(r['jobs']):
            labs.append('relation-with-multi-task-job')
    labs += e2e.feature4_labels(c, s)
    if s is not None and e2e.unsupported(c, s):
        labs.append('skipped-not-renderable=' + str(e2e.unsupported(c, s))[:40])
    if s is not None:
        for t in s['tours']:
            seq = [(a.get('type'), a.get('jobId')) for st in t['stops'] for a in st['activities']]
            if any(k == 'break' for k, _ in seq):
                labs.append('tour-with-break')
                vt = e2e.vehicle_type_of(c, t)
                brs = e2e.optional_breaks(vt['shifts'][t.get('shiftIndex', 0)]) if vt else []
                if any(e2e.break_is_offset(b) for b in brs):
                    labs.append('tour-with-break-on-offset-break-shift')
                if any(pl.get('location') is None for b in brs for pl in b['places']):
                    labs.append('tour-with-break-on-shift-with-locationless-break')
            if any(k == 'reload' for k, _ in seq):
                labs.append('tour-with-reload')
                ivl, where = 0, {}
                for k, j in seq:
                    if k == 'reload':
                        ivl += 1
                    elif k in ('pickup', 'delivery'):
                        where.setdefault(j, set()).add(ivl)
                if any(len(v) > 1 for v in where.values()):
                    labs.append('shipment-carried-across-reload')
    if s is not None:
        jobs = {j['id']: j for j in c['problem']['plan']['jobs']}
        for t in s['tours']:
            ids = [a['jobId'] for st in t['stops'] for a in st['activities'] if a.get('jobId') in jobs]
            if any('compatibility' in jobs[i] for i in ids) and any('compatibility' not in jobs[i] for i in ids):
                labs.append('tour-mixes-compat-and-plain-jobs')
                break
    return labs


shrink_candidates = None
try:
    from props.c02 import shrink_candidates  # same problem shape: drop one job / vehicle type at a time
except Exception:  # noqa
    del shrink_candidates


MANIFEST_TEXT = ('Machine-checked proof (Coq, no axioms) over the executable model of the insertion evaluator, the cached tour state and '
                 'the schedule refresh: every accepted insertion keeps the tour feasible for the independent simulation (any matrix), so does '
                 'any construction history; any search history of accepted insertions and removals does when durations satisfy the triangle '
                 'inequality (witness theorem that it fails otherwise). The same `feasible` predicate, plus skills (allOf/oneOf/noneOf) / '
                 'limits / shift start / end location / compatibility / group / reachability / capacity-in-every-dimension checkers (each '
                 'proved sound and complete for its declarative statement), is evaluated inside Coq on every tour of every solution document '
                 'the real solver returns for generated problems under a matrix of configurations (generations, thread-pool layouts, quota '
                 'firing points). Reachability: a gated insertion keeps every leg reachable (theorem), a removal does not (witness). Capacity is '
                 'checked per reload interval (static deliveries on board from the interval start, static pickups until its end, shipments carried '
                 'across the reload): checker proved sound and complete for the declarative statement, and equal to the single-interval '
                 'simulation of the step theorems for tours without reloads.')
MANIFEST_NOTE = ('Trusted: Coq kernel + vm_compute; JSON->Gallina rendering and the rebuilding of activities from the document; harness. '
                 'The tie between the evaluator model and the code is the C06 correspondence (run by `./check C06`). The end-to-end oracle also '
                 'covers optional and required breaks, relations, vicinity clustering, general (time-dependent) routing data, recharge stations '
                 '(distance between recharges: checker proved sound and complete) and shared reload resources (total static deliveries loaded per '
                 'resource and dimension: checker proved sound and complete). Not covered: objectives override, relations naming break / reload / '
                 'recharge, non-integer scales; real interleavings only sampled.')
MANIFEST_TECHNIQUE = 'Coq proof (feasibility invariant over insertion/removal histories) + verified feasibility checker run on real solver output'
