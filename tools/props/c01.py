"""C01 — returned tours never violate a hard constraint (plugin for tools/verif.py; built on the shared end-to-end oracle e2e.py).

proof      : Properties/C01.v — every modelled construction / search step (accepted insertion, removal under the triangle
             inequality) keeps each tour `Feasible.feasible` (time windows incl. the shift end, capacity at every point).
oracle     : the SAME `Feasible.feasible` (plus skills, tour limits, shift start, end location) evaluated inside Coq on the tours
             rebuilt from every solution document the REAL solver returns (Valid.feasible_viols), for generated problems under a
             matrix of configurations: generations, thread-pool layouts (this is also the second clause of C15), quota firing points.
"""
import hashlib
import json
from props import e2e

ID = 'C01'
HARNESS = 'solve'
COQ_IMPORTS = 'From VRP Require Import Base.Tac Model.Core Spec.Valid.'
MODEL_TARGETS = ['theories/Spec/Valid.vo']
MODEL_NEEDS_IMPL = True
SHARD = 24
SIZES = {'quick': 420, 'thorough': 4200, 'search': 1800}
RULE = ('cases: generated pragmatic problems (3-10 jobs: deliveries, pickups, services, shipments, multi jobs; 1-2 places / windows; '
        '1-3 vehicle types x 1-2 ids x 1-2 shifts, open and closed ends; capacity, skills, maxDistance / maxDuration / tourSize limits; '
        'metric and non-metric integer matrices incl. the "cheap chain, expensive shortcut" shape) x 3 configurations each '
        '(max_generations 0-20, Parallelism none/(1,1)/(2,2), outer threads 1-2, quota firing after 0-89 polls or never). '
        'non-trivial = distinct (problem, document) whose document has a tour with >= 2 jobs or a binding constraint (an unassigned job).')
TRUSTED = ['rendering of the JSON documents into the reduced Coq types and the rebuilding of Core activities from a reported tour '
           '(tools/props/e2e.py, Spec/Valid.v tour_acts / match_act): an activity is attributed to the job task place by location, duration and window',
           'real thread interleavings are sampled (three layouts), not enumerated']
ASSUMPTIONS = ['problem fragment without breaks, reloads, recharges, relations (locks), groups, compatibility, tour order, clustering: those '
               'constraints are not exercised by this check', 'time-independent routing']


def generate(rng, tier, n):
    return e2e.gen_cases(rng, n, per_problem=3)


def _sol(impl):
    return impl.get('solution') if e2e.outcome(impl) == 'solution' else None


def model_term(c, impl):
    s = _sol(impl)
    if s is None or e2e.unsupported(c, s):
        return '(@nil violation)'
    ids = e2e.Ids(c)
    return '(let P := %s in let S := %s in (precond_viol P ++ feasible_viols P S))' % (e2e.g_problem(c, ids), e2e.g_solution(c, s, ids))


def compare(c, impl, model):
    return None          # the correspondence of the evaluator model is C06's; here the Coq value is the verdict (oracle_model)


CLASS = {'FNoTour': 'tour-not-rebuildable', 'FInfeasible': 'tour-infeasible', 'FSkills': 'skills-violated',
         'FMaxDistance': 'max-distance-exceeded', 'FMaxDuration': 'max-duration-exceeded', 'FTourSize': 'tour-size-exceeded',
         'FShiftStart': 'departure-outside-shift-start', 'FEndLocation': 'wrong-end-location'}


def oracle(c, impl):
    if e2e.outcome(impl) == 'panic':
        msg = str((impl or {}).get('panic'))
        return [{'class': e2e.panic_class(c, msg), 'what': 'solving a valid problem panicked: %s' % msg[:300]}]
    return []


def oracle_model(c, impl, model):
    s = _sol(impl)
    if s is None or e2e.unsupported(c, s):
        return []
    out = []
    m = c['matrices'][0]
    for t in e2e.coq_viols(model, 'F'):
        name, arg = t[0], (t[1] if len(t) > 1 else None)
        cls = CLASS.get(name, name)
        tour = s['tours'][arg] if isinstance(arg, int) and 0 <= arg < len(s['tours']) else None
        if tour is not None and not any(a.get('type') not in ('departure', 'arrival') for st in tour['stops'] for a in st['activities']):
            # a tour without any job (root cause shared with C02-F1): every rule evaluated on it is moot
            vt = e2e.vehicle_type_of(c, tour)
            cls = 'empty-tour-max-duration-vehicle' if vt is not None and (vt.get('limits') or {}).get('maxDuration') is not None else 'empty-tour'
        elif name == 'FShiftStart' and tour is not None and \
                ((e2e.vehicle_type_of(c, tour) or {}).get('limits') or {}).get('maxDuration') is not None:
            cls = 'departure-outside-shift-start-max-duration-vehicle'
        elif name == 'FMaxDistance' and violates_triangle(m['distances']):
            cls = 'max-distance-exceeded-nonmetric-matrix'
        elif name in ('FMaxDuration', 'FInfeasible') and violates_triangle(m['travelTimes']):
            cls = CLASS[name] + '-nonmetric-matrix'
        out.append({'class': cls, 'what': '%s %s (tour index / detail)' % (name, arg)})
    return out


def violates_triangle(vals):
    n = int(round(len(vals) ** 0.5))
    for a in range(n):
        for b in range(n):
            for k in range(n):
                if vals[a * n + k] > vals[a * n + b] + vals[b * n + k]:
                    return True
    return False


def nontrivial_key(c, impl):
    s = _sol(impl)
    if s is None or not s['tours']:
        return None
    tours, un = e2e.doc_summary(s)
    if not (un or any(len(t) >= 2 for t in tours)):
        return None
    h = hashlib.sha256(json.dumps(c['problem'], sort_keys=True).encode()).hexdigest()[:12]
    return (h, json.dumps(tours), json.dumps(sorted(un)))


def classify(c, impl):
    cfg = c['config']
    labs = ['result=' + e2e.outcome(impl),
            'parallelism=%s' % ('default' if cfg['parallelism'] is None else 'x'.join(map(str, cfg['parallelism']))),
            'outer_threads=%s' % cfg.get('outer_threads', 1),
            'quota=%s' % ('never' if cfg['quota_after_polls'] is None else 'fires'),
            'matrix=%s' % ('metric' if (c.get('meta') or {}).get('metric') else 'non-metric')]
    s = _sol(impl)
    if s is not None:
        tours, un = e2e.doc_summary(s)
        labs.append('tours=%d' % len(tours))
        labs.append('max_tour_jobs=%d' % max([len(t) for t in tours] + [0]))
    return labs


shrink_candidates = None
try:
    from props.c02 import shrink_candidates  # same problem shape: drop one job / vehicle type at a time
except Exception:  # noqa
    del shrink_candidates


MANIFEST_TEXT = ('Machine-checked proof (Coq, no axioms) over the executable model of the insertion evaluator, the cached tour state and '
                 'the schedule refresh: every accepted insertion keeps the tour feasible for the independent simulation (any matrix), so does '
                 'any construction history; any search history of accepted insertions and removals does when durations satisfy the triangle '
                 'inequality (witness theorem that it fails otherwise). The same `feasible` predicate, plus skills / limits / shift start / end '
                 'location checks, is evaluated inside Coq on every tour of every solution document the real solver returns for generated '
                 'problems under a matrix of configurations (generations, thread-pool layouts, quota firing points).')
MANIFEST_NOTE = ('Trusted: Coq kernel + vm_compute; JSON->Gallina rendering and the rebuilding of activities from the document; harness. '
                 'The tie between the evaluator model and the code is the C06 correspondence (run by `./check C06`). Not covered: breaks, reloads, '
                 'recharge, relations/locks, groups, compatibility, tour order, clustering, time-dependent routing; real interleavings only sampled.')
MANIFEST_TECHNIQUE = 'Coq proof (feasibility invariant over insertion/removal histories) + verified feasibility checker run on real solver output'
