"""C06 sub-stream `c06_multi` — multi-task (pickup-and-delivery) jobs through the REAL eval_multi search vs the modelled search
(Model/ObjectivesX.v m_services / m_loop / m_promote + Model/MultiSearch.v: every InsertionPosition, route-level gate), and the
property (success => the tour with the placement REALLY carried out is feasible for an independent simulation, the sub-jobs are
served in the order of a declared permutation at declared places / windows) evaluated on the implementation's own output.
Registered by `SUBSTREAMS = [..., 'c06_multi']` in tools/props/c06.py; theorems `C06_multi_search_*` in Properties/C06.v."""
import itertools
from coqterm import z, zlist, lst, nat
from props import corelib as K
from props.corelib import tz, INF

ID = 'C06'            # set by the driver to the parent's id
HARNESS = 'c06_multi'
COQ_IMPORTS = 'From VRP Require Import Base.Tac Model.Core Spec.Feasible Model.Eval Model.Objectives Model.ObjectivesX Model.MultiSearch.'
MODEL_TARGETS = ['theories/Model/MultiSearch.vo']
SHARD = 25
SIZES = {'quick': 260, 'thorough': 6000, 'search': 3000}
RULE = ('cases: random worlds (3-6 locations, metric / non-metric asymmetric matrices, open / closed tours, finite / unbounded '
        'shift ends), tours of 0-5 activities with mixed static and shipment demand (a third with tight windows), capacity '
        'sometimes moved to the boundary of the largest load; candidate = Multi job of 2 sub-jobs (pickup, delivery) or 3 sub-jobs '
        '(two pickups + one delivery, or pickup + delivery + a demand-free service), every sub-job with 1-2 places x 1-2 windows '
        '(windows around the simulated arrivals, occasionally after the shift end, location-less places), half of the jobs with an '
        'explicit list of 1-3 allowed orders (FixedJobPermutation); InsertionPosition Any (60%), Concrete i (30%, i up to '
        'beyond the last leg), Last (10%); goal minimize-cost or minimize-distance. non-trivial = distinct cases with a tour '
        'activity whose evaluation passed the route-level gate.')
TRUSTED = ['c06_multi: the Python simulation of tools/props/corelib.py applied to the tour the harness really built from the returned '
           'activities (cross-checked against the Coq `feasible` on that tour in every case); time-independent routing, '
           'SimpleActivityCost, SingleDimLoad, no reload intervals; LegSelection::Exhaustive, BestResultSelector, alternative = plain failure']
ASSUMPTIONS = ['integer-valued data below 2^40: every f64 operation of the evaluator is exact']


# ---------------------------------------------------------------- generation
def gen_sub(rng, w, tour, jid, arrs):
    n = w['n']
    se = w['veh']['shift_end']
    horizon = w['veh']['shift_start'] + 60 * (len(tour) + 1)
    places = []
    for _ in range(rng.choice([1, 1, 2])):
        tws = []
        for _ in range(rng.choice([1, 1, 1, 2])):
            k = rng.below(12)
            if k < 3:
                tws.append([0, 'inf'])
            elif k < 9:
                base = rng.choice(arrs) if arrs else rng.range(0, horizon)
                a = max(0, base + rng.range(-30, 40))
                tws.append([a, a + rng.range(0, 70)])
            elif k < 10 and se != 'inf':
                a = se + rng.range(1, 50)
                tws.append([a, a + rng.range(0, 50)])
            else:
                a = rng.range(0, horizon)
                tws.append([a, 'inf'])
        loc = None if rng.chance(1, 12) else rng.below(n)
        places.append({'loc': loc, 'svc': rng.choice([0, 0, 4, 12]), 'tws': tws})
    return {'id': jid, 'places': places, 'dem': [0, 0, 0, 0]}


def gen_job(rng, w, tour, arrs):
    nsub = 2 if rng.chance(2, 3) else 3
    subs = [gen_sub(rng, w, tour, 950 + i + 1, arrs) for i in range(nsub)]
    q = rng.range(1, 5)
    if nsub == 2:
        subs[0]['dem'], subs[1]['dem'] = [0, q, 0, 0], [0, 0, 0, q]
    else:
        q2 = rng.range(1, 3)
        if rng.chance(1, 2):
            subs[0]['dem'], subs[1]['dem'], subs[2]['dem'] = [0, q, 0, 0], [0, q2, 0, 0], [0, 0, 0, q + q2]
        else:
            subs[0]['dem'], subs[1]['dem'], subs[2]['dem'] = [0, q, 0, 0], [0, 0, 0, q], [0, 0, 0, 0]
    j = {'id': 95, 'multi': subs}
    if rng.chance(1, 2):
        allp = [list(p) for p in itertools.permutations(range(nsub))]
        allp = rng.shuffle(allp)
        j['perms'] = allp[:rng.range(1, min(3, len(allp)))]
    return j


def generate(rng, tier, n):
    cases = []
    for _ in range(n):
        w = K.gen_world(rng)
        tour = K.gen_tour(rng, w, tight=rng.chance(1, 3))
        c = dict(w)
        c['veh'] = dict(w['veh'])
        c['tour'] = tour
        c['goal'] = 'cost' if rng.chance(2, 3) else 'distance'
        t = K.full_tour(c, tour)
        _, _, sched, _ = K.simulate(c, t)
        arrs = [s[0] for s in sched]
        if rng.chance(1, 3):
            # capacity at / just above the largest load of the tour: the shipment decides
            load = sum(a['dem'][2] for a in t)
            peak = load
            for a in t:
                load += a['dem'][0] + a['dem'][1] - a['dem'][2] - a['dem'][3]
                peak = max(peak, load)
            c['veh']['cap'] = max(1, peak + rng.range(0, 3))
        c['job'] = gen_job(rng, w, tour, arrs)
        r = rng.below(10)
        c['pos'] = 'any' if r < 6 else ('last' if r < 7 else ['concrete', rng.below(len(tour) + 3)])
        cases.append(c)
    return cases


def corpus():
    # the witness of C06_multi_search_complete_refuted: the greedy search misses the feasible combination P in front of A, then D
    line = [0, 10, 20, 16, 5]
    m = [abs(x - y) for x in line for y in line]
    miss = {'n': 5, 'dur': m, 'dist': m,
            'veh': {'start': 0, 'end': 0, 'shift_start': 0, 'shift_end': 'inf', 'cap': 10, 'costs': [0, 1, 0, 0, 0]},
            'tour': [{'job': 1, 'loc': 1, 'svc': 20, 'tws': 0, 'twe': 'inf', 'dem': [0, 0, 0, 0]},
                     {'job': 2, 'loc': 2, 'svc': 0, 'tws': 0, 'twe': 'inf', 'dem': [0, 0, 0, 0]}],
            'goal': 'cost', 'pos': 'any',
            'job': {'id': 95, 'perms': [[0, 1]],
                    'multi': [{'id': 951, 'places': [{'loc': 3, 'svc': 0, 'tws': [[0, 'inf']]}], 'dem': [0, 1, 0, 0]},
                              {'id': 952, 'places': [{'loc': 4, 'svc': 0, 'tws': [[0, 30]]}], 'dem': [0, 0, 0, 1]}]}}
    # the non-vacuity example: two permutations, alternative places, a shipment already on board
    nv = dict(miss, veh=dict(miss['veh'], shift_end=200, cap=3),
              tour=[{'job': 1, 'loc': 1, 'svc': 0, 'tws': 0, 'twe': 100, 'dem': [0, 2, 0, 0]},
                    {'job': 2, 'loc': 2, 'svc': 0, 'tws': 0, 'twe': 100, 'dem': [0, 0, 0, 2]}],
              job={'id': 95, 'perms': [[0, 1], [1, 0]],
                   'multi': [{'id': 951, 'places': [{'loc': 3, 'svc': 0, 'tws': [[0, 100]]}], 'dem': [0, 1, 0, 0]},
                             {'id': 952, 'places': [{'loc': 4, 'svc': 0, 'tws': [[0, 100]]}, {'loc': 2, 'svc': 0, 'tws': [[0, 100]]}],
                              'dem': [0, 0, 0, 1]}]})
    # Concrete position behind the last leg, and Last on an empty open tour
    c3 = dict(nv, pos=['concrete', 7])
    c4 = dict(nv, veh=dict(nv['veh'], end=None, shift_end='inf'), tour=[], pos='last')
    return [miss, nv, c3, c4]


# ---------------------------------------------------------------- rendering
def perms_of(c):
    j = c['job']
    return j.get('perms') or [list(range(len(j['multi'])))]


def model_term(c):
    j = c['job']
    return 'run_c06_multi %s %s %s %s %s %s' % (K.g_world(c), lst(c['tour'], K.g_tact), lst(j['multi'], K.g_single),
                                                lst(perms_of(c), lambda p: lst(p, nat)), K.g_pos(c['pos']),
                                                '0' if c['goal'] == 'cost' else '1')


def canon_t(x):
    return 'inf' if x == 'inf' or (isinstance(x, int) and x >= INF // 2) else x


def compare(c, impl, model):
    if 'panic' in impl:
        return 'implementation panicked: %s' % impl['panic']
    sched, feas0, (verdict, steps), sched1, feas1, brute = model
    isched = [[canon_t(a), canon_t(b)] for a, b in impl['before']['sched']]
    msched = [[canon_t(a), canon_t(b)] for a, b in sched]
    if isched != msched:
        return 'schedule: impl %s model %s' % (isched, msched)
    if verdict[0] == 2:
        return 'the modelled eval_multi loop ran out of fuel'
    e = impl['eval']
    if not e['ok']:
        if verdict[0] != 0 or [e['code'], 1 if e['stopped'] else 0] != list(verdict[1:3]):
            return 'impl failure %s model %s %s' % (e, verdict, steps)
        return None
    if verdict[0] != 1:
        return 'impl success %s, model %s' % (e['acts'], verdict)
    got = [[a['index'], a['place'], a['loc'], canon_t(a['svc']), canon_t(a['tws']), canon_t(a['twe'])] for a in e['acts']]
    exp = [[canon_t(x) for x in s] for s in steps]
    if got != exp:
        return 'returned activities [index, place, loc, svc, tws, twe]: impl %s model %s' % (got, exp)
    if e['cost'] != [verdict[1]]:
        return 'cost vector: impl %s model %s' % (e['cost'], [verdict[1]])
    asched = [[canon_t(a), canon_t(b)] for a, b in e['after']['sched']]
    msched1 = [[canon_t(a), canon_t(b)] for a, b in sched1]
    if asched != msched1:
        return 'schedule with the placement carried out: impl %s model %s' % (asched, msched1)
    # python simulation vs the Coq `feasible` on the tour before and on the tour with the placement carried out
    if (feas0 == 1) != K.feasible(c, K.full_tour(c, c['tour'])):
        return 'python simulation oracle disagrees with the Coq spec `feasible` on the tour'
    t2 = reported_tour(c, e)
    if (feas1 == 1) != K.feasible(c, t2):
        return 'python simulation oracle disagrees with the Coq spec `feasible` on the tour with the placement carried out'
    return None


# ---------------------------------------------------------------- oracle (independent of the model)
def subs_by_id(c):
    return {('j%d' % s['id']): s for s in c['job']['multi']}


def reported_tour(c, e):
    """the tour the reported (activity, index) pairs describe: each inserted behind position `index` of the tour so far"""
    t = K.full_tour(c, c['tour'])
    for a, d in zip(t[1:], c['tour']):
        a['job'] = 'j%d' % d['job']
    subs = subs_by_id(c)
    for a in e['acts']:
        x = {'loc': a['loc'], 'svc': tz(a['svc']), 'tws': tz(a['tws']), 'twe': tz(a['twe']), 'dem': subs[a['job']]['dem'],
             'term': False, 'job': a['job'], 'place': a['place']}
        t = t[:a['index'] + 1] + [x] + t[a['index'] + 1:]
    return t


def applied_tour(c, e):
    """the tour the harness really built (after_acts), with the demand looked up in the case"""
    subs = subs_by_id(c)
    byjob = {('j%d' % d['job']): d for d in c['tour']}
    t = []
    for a in e['after_acts']:
        if a['job'] is None:
            dem = [0, 0, 0, 0]
        elif a['job'] in subs:
            dem = subs[a['job']]['dem']
        else:
            dem = byjob[a['job']]['dem']
        t.append({'loc': a['loc'], 'svc': tz(a['svc']), 'tws': tz(a['tws']), 'twe': tz(a['twe']), 'dem': dem,
                  'term': a['job'] is None, 'job': a['job'], 'place': a['place']})
    return t


def tag(c):
    return '%dsubs%s' % (len(c['job']['multi']), '-perms' if c['job'].get('perms') else '')


def oracle(c, impl):
    if 'panic' in impl:
        return [{'class': 'panic', 'what': 'evaluator panicked: ' + impl['panic']}]
    t = K.full_tour(c, c['tour'])
    if not K.feasible(c, t):
        return []          # the property speaks about feasible tours
    e = impl['eval']
    if not e['ok']:
        return []          # the greedy search is allowed to miss feasible combinations
    v = []
    subs = c['job']['multi']
    byid = subs_by_id(c)
    names = [a['job'] for a in e['acts']]
    orders = [['j%d' % subs[i]['id'] for i in p] for p in perms_of(c)]
    idx = [a['index'] for a in e['acts']]
    if names not in orders:
        v.append({'class': 'multi-order-not-a-declared-permutation-' + tag(c), 'what': 'returned %s, allowed %s' % (names, orders)})
    if any(b <= a for a, b in zip(idx, idx[1:])):
        v.append({'class': 'multi-indices-not-increasing-' + tag(c), 'what': 'returned indices %s' % idx})
    rt = reported_tour(c, e)
    at = applied_tour(c, e)
    key = lambda a: (a.get('job'), a['loc'], a['svc'], canon_t(a['tws']), canon_t(a['twe']))
    if [key(a) for a in rt[1:]] != [key(a) for a in at[1:]]:
        v.append({'class': 'applied-tour-differs-from-reported-indices-' + tag(c),
                  'what': 'applied %s, reported %s' % ([key(a) for a in at], [key(a) for a in rt])})
    # every returned activity is a declared place / window of its sub-job (location-less place: the location of its predecessor)
    shadow = K.full_tour(c, c['tour'])
    for a in e['acts']:
        s = byid.get(a['job'])
        ok = False
        if s is not None and a['place'] < len(s['places']) and a['index'] < len(shadow):
            p = s['places'][a['place']]
            loc = shadow[a['index']]['loc'] if p['loc'] is None else p['loc']
            ok = (a['loc'] == loc and tz(a['svc']) == tz(p['svc']) and
                  any(tz(a['tws']) == tz(x[0]) and tz(a['twe']) == tz(x[1]) for x in p['tws']))
        if not ok:
            v.append({'class': 'multi-place-not-declared-' + tag(c), 'what': 'returned activity %s is not a place / window of %s' % (a, s)})
            break
        x = {'loc': a['loc'], 'svc': tz(a['svc']), 'tws': tz(a['tws']), 'twe': tz(a['twe']), 'dem': s['dem'], 'term': False}
        shadow = shadow[:a['index'] + 1] + [x] + shadow[a['index'] + 1:]
    # the property: the tour with the placement REALLY carried out is feasible for the step-by-step simulation
    time_ok, load_ok, _, _ = K.simulate(c, at)
    if not time_ok:
        v.append({'class': 'unsound-multi-time-' + tag(c), 'what': 'the evaluator accepted a placement whose tour misses a time window / the shift end'})
    if not load_ok:
        v.append({'class': 'unsound-multi-capacity-' + tag(c), 'what': 'the evaluator accepted a placement whose tour exceeds the capacity'})
    return v


def oracle_model(c, impl, model):
    """the verified Coq checker `feasible` on the tour the model derives from the implementation-equal steps: second opinion"""
    if 'panic' in impl or not impl['eval']['ok']:
        return []
    sched, feas0, (verdict, steps), sched1, feas1, brute = model
    if feas0 == 1 and verdict[0] == 1 and feas1 != 1:
        return [{'class': 'unsound-multi-coq-simulation-' + tag(c), 'what': 'Coq `feasible` rejects the tour with the modelled placement carried out'}]
    return []


def nontrivial_key(c, impl):
    if 'panic' in impl or not c['tour']:
        return None
    e = impl['eval']
    if not e['ok'] and e['stopped'] and e['code'] in (1, 2):
        # may be the route-level gate; still a distinct case when the tour is feasible
        pass
    return (str(c['tour']), str(c['job']), str(c['pos']), str(c['veh']), c['goal'])


def brute_feasible(c, limit=4000):
    """is there ANY feasible combination (python brute force, bounded)? None when the space is too large"""
    t0 = K.full_tour(c, c['tour'])
    subs = c['job']['multi']
    nalt = max(sum(len(p['tws']) for p in s['places']) for s in subs)
    if (K.leg_count(c, t0) + len(subs)) ** len(subs) * nalt ** len(subs) > limit:
        return None
    start = 0 if c['pos'] == 'any' else ((max(K.leg_count(c, t0), 1) - 1) if c['pos'] == 'last' else c['pos'][1])

    def rec(t, lo, order):
        if not order:
            return K.feasible(c, t)
        s = subs[order[0]]
        for idx in range(lo, K.leg_count(c, t)):
            for p in s['places']:
                for w in p['tws']:
                    x = K.target_of(s, t[idx], p, w)
                    if rec(t[:idx + 1] + [x] + t[idx + 1:], idx + 1, order[1:]):
                        return True
        return False
    return any(rec(t0, start, p) for p in perms_of(c))


def classify(c, impl):
    labs = ['tour_len=%d' % len(c['tour']), 'closed' if c['veh']['end'] is not None else 'open', 'subs=%d' % len(c['job']['multi']),
            'permutations=' + ('default' if not c['job'].get('perms') else str(len(c['job']['perms']))),
            'pos=' + (c['pos'] if isinstance(c['pos'], str) else 'concrete'), 'goal=' + c['goal']]
    if 'panic' not in impl:
        e = impl['eval']
        feas = K.feasible(c, K.full_tour(c, c['tour']))
        labs.append('tour_feasible=%s' % feas)
        labs.append('verdict=' + ('success' if e['ok'] else 'fail(code=%s,stopped=%s)' % (e['code'], e['stopped'])))
        if e['ok'] and c['job'].get('perms'):
            order = [a['job'] for a in e['acts']]
            labs.append('chosen_order=' + ('given' if order == ['j%d' % s['id'] for s in c['job']['multi']] else 'permuted'))
        if not e['ok'] and feas:
            b = brute_feasible(c)
            labs.append('failure:' + ('brute-force-space-too-large' if b is None else
                                      ('greedy-miss(feasible-combination-exists)' if b else 'no-feasible-combination')))
    return labs


def shrink_candidates(c):
    for i in range(len(c['tour'])):
        d = dict(c)
        d['tour'] = c['tour'][:i] + c['tour'][i + 1:]
        yield d
    j = c['job']
    if j.get('perms') and len(j['perms']) > 1:
        for k in range(len(j['perms'])):
            d = dict(c)
            d['job'] = dict(j, perms=j['perms'][:k] + j['perms'][k + 1:])
            yield d
    for si, s in enumerate(j['multi']):
        for pi, p in enumerate(s['places']):
            if len(s['places']) > 1:
                d = dict(c)
                subs = [dict(x) for x in j['multi']]
                subs[si]['places'] = s['places'][:pi] + s['places'][pi + 1:]
                d['job'] = dict(j, multi=subs)
                yield d
