"""C18 — adaptive operator selection and termination math stay numerically sane (plugin for tools/verif.py)."""
import math
from fractions import Fraction as Fr
from coqterm import zlist, nat, boolean
from props.floats import bits, of_bits, SIGN

ID = 'C18'
HARNESS = 'c18'
COQ_IMPORTS = ('From Coq Require Import QArith Uint63.\n'
               'From VRP Require Import Base.Tac Model.SlotQ Model.SlotF Model.Reward Model.Termination.\nOpen Scope Z_scope.')
MODEL_TARGETS = ['theories/Model/SlotQ.vo', 'theories/Model/SlotF.vo', 'theories/Model/Reward.vo', 'theories/Model/Termination.vo']
SIZES = {'quick': 2200, 'thorough': 15000, 'search': 6000}
SHARD = 120        # model evaluations per coqc process (the long slot histories dominate a shard: smaller shards balance the 16 workers)
SUBSTREAMS = ['c18_selector', 'c18_term']     # the adaptive selector itself (DynamicSelective as a state machine); termination structs / statistics bit for bit
RULE = ('cases: (slot) reward histories fed to the real SlotMachine with a recording sampler - exact dyadic histories '
        '(compared as rationals with the Q model and bit for bit with the primitive-float twin) and general float histories '
        '(0, denormals, 1e-300..1e9, repeats, alternating extremes, length <= 2000; twin bit for bit + invariant oracle at every '
        'recorded step), sample() with scripted gamma draws (0, -0, tiny, huge) at n = 0 and later; (argmax/weighted) value lists '
        'with ties, NaN, +-0, inf; (reward) DynamicSelective driven over scripted fitness triples, rewards read from its telemetry, '
        '1-4 objectives, mixed signs, values near f64::MAX; (estimate) MaxGeneration/MaxTime/Composite; (minvar) MinVariation over '
        'sliding windows with thresholds on and next to the exact coefficient of variation. non-trivial = distinct case whose '
        'history has >= 2 updates / a tie / a positive reward / a window that reaches the threshold test.')
TRUSTED = ['Coq primitive floats (kernel-level IEEE-754 binary64) are the arithmetic of Rust f64 for + - * / sqrt (validated bit for bit on every run)',
           'the Q model and the float twin are the same formulas written twice (syntactic twins); the Q model carries the unbounded theorems, '
           'the float twin the f64-level theorems C18_float_* (finite prior/rewards of magnitude <= 2^480, <= 2^52 updates)',
           'axioms the C18_float_* theorems depend on (Print Assumptions; standard library only, the development declares none): '
           'ClassicalDedekindReals.sig_forall_dec, ClassicalDedekindReals.sig_not_dec, Classical_Prop.classic, '
           'FunctionalExtensionality.functional_extensionality_dep (classical real numbers, via Reals/Flocq) and the primitive float / 63-bit integer '
           'specification of Coq.Floats.FloatAxioms (Prim2SF_valid, SF2Prim_Prim2SF, Prim2SF_SF2Prim, add_spec, sub_spec, mul_spec, div_spec, sqrt_spec, '
           'abs_spec, eqb_spec, ltb_spec, leb_spec, of_uint63_spec, ...) and Uint63 (of_to_Z, add_spec, sub_spec, lsl_spec, lsr_spec, lor_spec, ...); '
           'Flocq 4.1.0 (IEEE754.PrimFloat bridge Prim2B, BinarySingleNaN correctness theorems) is a library of proofs, not an axiom',
           'rand_distr 0.4.3: Gamma::new fails iff !(shape > 0) or !(scale > 0), Normal::new fails iff !std_dev.is_finite(); Gamma sampling is assumed '
           'to return a finite non-negative number (hypothesis of C18_float_sampler_arguments_valid, which also needs draw = 0 or draw >= 2^-1022)',
           'rewards of DynamicSelective are observed through its public Display telemetry (is_experimental = true)']
ASSUMPTIONS = ['exact real arithmetic for the unbounded theorems (Q)',
               'f64-level theorems (C18_float_*, about the primitive-float twin): prior and rewards finite with |x| <= 2^480, at most 2^52 updates; '
               'gamma draw 0, -0 or finite >= 2^-1022 once n > 0 (any value, even NaN, while n = 0); outside these bounds the conclusions fail '
               '(witnesses C18_float_unbounded_reward_refuted: one reward 2^512 -> beta = NaN; C18_float_sampler_tiny_gamma_refuted: draw 5e-324 -> std_dev = inf); '
               'the f64 mean is proved to stay within representable bounds around the hull with a margin of 2^-52 * 2^m (|values| <= 2^m), not inside the hull',
               'fitness values compared are finite; MaxTime limit >= 0; MinVariation sample >= 1 (asserted by the code)',
               'cv <= thr is stated through squares (no square root in Q)']

ONE = bits(1.0)
INF = 0x7FF0000000000000
NANB = 0x7FF8000000000000


# ------------------------------------------------------------------ float helpers
def fr(b):
    """exact rational of a finite double given by its bits"""
    return Fr(of_bits(int(b)))


def is_finite_bits(b):
    b = int(b)
    return (b >> 52) & 0x7FF != 0x7FF


def is_nan_bits(b):
    b = int(b)
    return (b >> 52) & 0x7FF == 0x7FF and b & ((1 << 52) - 1) != 0


def dy(x):
    """(m, e) with x = m * 2^e for a Fraction with power-of-two denominator"""
    x = Fr(x)
    d = x.denominator
    assert d & (d - 1) == 0
    return (x.numerator, -(d.bit_length() - 1))


def dyt(x):
    m, e = dy(x)
    return '(%s, %s)' % (('(%d)' % m) if m < 0 else str(m), ('(%d)' % e) if e < 0 else str(e))


def dylist(xs):
    return '[' + '; '.join(dyt(x) for x in xs) + ']'


def rep(x):
    """is the rational exactly a double"""
    try:
        return Fr(float(x)) == x
    except OverflowError:
        return False


def rn(x):
    """correctly rounded double of a rational (Python int/int true division is correctly rounded)"""
    x = Fr(x)
    return x.numerator / x.denominator


def qpair(p):
    return Fr(p[0], p[1])


def tkey(b):
    b = int(b)
    return b if b < SIGN else -(b - SIGN) - 1


def blist(bs):
    """bit patterns as primitive-integer literals (Coq parses them much faster than Z literals)"""
    return '[' + '; '.join(('bn %d%%uint63' % (b - SIGN)) if b >= SIGN else ('bp %d%%uint63' % b) for b in bs) + ']'


def sb(xs):
    return [str(int(x)) for x in xs]


# ------------------------------------------------------------------ slot histories
def slot_exact_sim(prior, rewards):
    """exact simulation of the update formulas; returns (states, exact) where exact says every f64 intermediate is representable
       (v = beta/(alpha+1) is excluded: it is a single division of exact operands and is compared as a correctly rounded quotient)"""
    alpha, beta, mu, n = Fr(1), Fr(10), Fr(prior), 0
    exact = True
    for r in rewards:
        r = Fr(r)
        v = Fr(n)
        fac = v / (v + 1)
        d = r - mu
        inter = [d, d * d]
        if d != 0:
            inter += [fac, fac * d * d, fac * d * d / 2]
        alpha += Fr(1, 2)
        beta += fac * d * d / 2
        n += 1
        q = d / n
        mu = mu + q
        inter += [beta, q, mu]
        if not all(rep(x) for x in inter):
            exact = False
    return (alpha, beta, mu, beta / (alpha + 1), n), exact


REWARD_CORPUS = [0.0, 5e-324, 1e-323, 2.2250738585072014e-308, 1e-300, 1e-100, 1e-10, 0.001, 0.05, 0.1, 0.3, 0.5, 1.0, 1.5, 2.0, 2.5,
                 3.0, 6.0, 9.0, 12.0, 36.0, 100.0, 1e3, 1e6, 1e9]


def gen_reward_value(rng):
    k = rng.below(10)
    if k < 4:
        return rng.choice(REWARD_CORPUS)
    if k < 7:
        return rng.range(0, 6000) / 1000.0
    if k < 8:
        return rng.range(0, 48) / 8.0
    if k < 9:
        return float(rng.range(0, 10 ** rng.range(1, 9)))
    e = rng.range(1, 1023 + 30)     # up to ~1e9
    return of_bits((e << 52) | (rng.next() & ((1 << 52) - 1)))


GAMMA_DRAWS = [0.0, -0.0, 1.0, 0.001, 1e-300, 2.2250738585072014e-308, 1e-10, 0.1, 0.5, 2.0, 100.0, 1e6, 1e300]


def gen_slot(rng, tier):
    kind = rng.below(10)
    samples = []
    if kind < 3:
        # exact dyadic history: free choice at power-of-two steps, reward = current mean elsewhere
        prior = Fr(rng.choice([1, 1, 1, 0, 2, 8])) if rng.chance(3, 4) else Fr(rng.range(0, 64), 8)
        n = rng.range(1, 24)
        rs = []
        for k in range(1, n + 1):
            (_, _, mu, _, _), _ = slot_exact_sim(prior, rs)
            if k & (k - 1) == 0 or rng.chance(1, 6):
                c = rng.below(5)
                r = Fr(rng.range(0, 96), 8) if c < 3 else (Fr(0) if c == 3 else Fr(rng.range(0, 4096) * 2 ** rng.range(0, 12)))
                if rng.chance(1, 12):
                    r = -r
            else:
                r = mu
            if not rep(r):
                r = Fr(rn(r))
            rs.append(r)
        _, exact = slot_exact_sim(prior, rs)
        case = {'op': 'slot', 'prior': str(bits(float(prior))), 'rewards': sb(bits(float(r)) for r in rs), 'stride': 1,
                'exact': exact, 'kind': 'dyadic'}
    else:
        prior = 1.0 if rng.chance(4, 5) else rng.choice([0.0, 0.5, 6.0, 1e-300, 100.0])
        lk = rng.below(20)
        n = rng.range(1, 30) if lk < 15 else (rng.range(30, 300) if lk < 19 else rng.range(300, 2000))
        pat = rng.below(6)
        if pat == 0:
            rs = [gen_reward_value(rng)] * n
        elif pat == 1:
            a, b = gen_reward_value(rng), gen_reward_value(rng)
            rs = [a if i % 2 == 0 else b for i in range(n)]
        elif pat == 2:
            lo, hi = rng.choice([0.0, 5e-324, 1e-300]), rng.choice([1e9, 1e6, 36.0])
            rs = [lo if rng.chance(1, 2) else hi for _ in range(n)]
        elif pat == 3:
            rs = [rng.choice([5e-324, 1e-323, 0.0, 2.2250738585072014e-308, 1e-320]) for _ in range(n)]
        else:
            rs = [gen_reward_value(rng) for _ in range(n)]
        malformed = False
        if rng.chance(1, 25):
            rs[rng.below(n)] = rng.choice([float('inf'), float('nan'), -1.0, -1e9])
            malformed = any(x != x or x in (float('inf'), float('-inf')) for x in rs)
        stride = 1 if n <= 40 else rng.choice([7, 16, 50])
        case = {'op': 'slot', 'prior': str(bits(prior)), 'rewards': sb(bits(x) for x in rs), 'stride': stride,
                'exact': False, 'kind': 'malformed' if malformed else 'float'}
    n = len(case['rewards'])
    ks = {0, n} | {rng.below(n + 1) for _ in range(rng.below(3))}
    for k in sorted(ks):
        if n > 300 and k not in (0, n):
            continue
        samples.append([k, str(bits(rng.choice(GAMMA_DRAWS) if rng.chance(3, 4) else rng.range(1, 10 ** 6) / 1000.0))])
    case['samples'] = samples
    return case


# ------------------------------------------------------------------ reward cases
RATIOS = [0.0, 0.01, 0.049999999999999996, 0.05, 0.05000000000000001, 0.1, 0.15, 0.15000000000000002, 0.14999999999999997, 0.5, 1.0]


def gen_fit_component(rng):
    k = rng.below(8)
    if k < 5:
        m = 2 ** rng.range(0, 10)
        return Fr(m * rng.choice([1, 2, 4, 8, 8, 3, 5, 6, 7]), 8)
    if k < 6:
        return Fr(0)
    if k < 7:
        return Fr(rng.range(0, 1000))
    return -Fr(2 ** rng.range(0, 6) * rng.choice([1, 2, 4, 8]), 8)


def vary(rng, f, exact_bias=True):
    """copy of fitness f changed from a random index on"""
    g = list(f)
    if rng.chance(1, 6):
        return g
    i = rng.below(len(g))
    a = g[i]
    c = rng.below(6)
    if c < 3 and a != 0:
        # the other value is +-2^j >= |a| or a fraction of a when |a| is a power of two
        p = Fr(2) ** math.ceil(math.log2(abs(a))) if abs(a) > 0 else Fr(1)
        if p < abs(a):
            p *= 2
        g[i] = p * rng.choice([1, 1, 2, 4]) * (1 if rng.chance(5, 6) else -1)
        if g[i] == a:
            g[i] = a * 2
    elif c < 4:
        g[i] = Fr(0) if a != 0 else Fr(1)
    elif c < 5:
        g[i] = a + rng.choice([-1, 1]) * Fr(rng.range(1, 16), 8)
    else:
        g[i] = -a if a != 0 else Fr(2)
    for j in range(i + 1, len(g)):
        if rng.chance(1, 3):
            g[j] = gen_fit_component(rng)
    return g


def gen_reward(rng, tier):
    nops = rng.range(1, 4)
    nobj = rng.choice([1, 1, 2, 3, 3, 4])
    steps = []
    wild = rng.chance(1, 8)
    slow = rng.chance(1, 12)
    for _ in range(rng.range(1, 6) if not slow else rng.range(4, 9)):
        if wild:
            def w():
                k = rng.below(6)
                if k == 0:
                    return rng.choice([1.7976931348623157e308, -1.7976931348623157e308, 1e308, -1e308, 5e-324, -5e-324, 0.0])
                if k == 1:
                    return of_bits(rng.next() & ~(0x7FF << 52) | (rng.range(1, 2046) << 52))
                return rng.range(-10 ** 6, 10 ** 6) / 7.0
            new = [w() for _ in range(nobj)]
            init = [x if rng.chance(1, 2) else w() for x in new]
            best = None if rng.chance(1, 8) else [x if rng.chance(1, 2) else w() for x in new]
            st = {'new': sb(bits(x) for x in new), 'init': sb(bits(x) for x in init),
                  'best': None if best is None else sb(bits(x) for x in best)}
        else:
            new = [gen_fit_component(rng) for _ in range(nobj)]
            init = vary(rng, new)
            best = None if rng.chance(1, 10) else (vary(rng, new) if rng.chance(3, 4) else list(init))
            st = {'new': sb(bits(float(x)) for x in new), 'init': sb(bits(float(x)) for x in init),
                  'best': None if best is None else sb(bits(float(x)) for x in best)}
        st['ratio'] = str(bits(rng.choice(RATIOS)))
        if slow and rng.chance(1, 2):
            st['sleep_ms'] = rng.range(1, 4)      # exercises the median factor of the multiplier (timing dependent: compared as a set)
        steps.append(st)
    steps[-1]['many'] = True
    return {'op': 'reward', 'nops': nops, 'steps': steps, 'wild': wild}


def lex(a, b):
    for x, y in zip(a, b):
        if x != y:
            return -1 if x < y else 1
    return 0


def reward_expect(st):
    """structure of one step, from the case only: (N, compared component pairs, improvement multiplier, all finite)"""
    new = [of_bits(int(x)) for x in st['new']]
    init = [of_bits(int(x)) for x in st['init']]
    best = None if st['best'] is None else [of_bits(int(x)) for x in st['best']]
    ratio = of_bits(int(st['ratio']))
    pairs = []
    for other in (init, best):
        if other is None:
            continue
        for x, y in zip(new, other):
            if x != y:
                pairs.append((x, y))
                break
    is_new_best = best is None or lex(new, best) < 0
    ir = 1.0
    if is_new_best:
        ir = 2.0 if ratio < 0.05 else (0.75 if ratio > 0.15 else 1.0)
    return len(new), pairs, ir


C005 = Fr(0.05)


def reward_step_exact(st):
    """are all f64 intermediates of the reward of this step exactly representable (then impl == model as rationals);
       otherwise a few roundings separate them and the comparison is relative (1e-12)"""
    new = [fr(x) for x in st['new']]
    init = [fr(x) for x in st['init']]
    if st['best'] is None:
        return True
    best = [fr(x) for x in st['best']]
    inter = []

    def rel(fa, fb):
        o = lex(fa, fb)
        if o == 0:
            return Fr(0)
        for idx, (a, b) in enumerate(zip(fa, fb)):
            if a != b:
                v = abs(a - b) / max(abs(a), abs(b))
                d = v * (1 if o < 0 else -1) * (len(fa) - idx)
                inter.extend([a - b, v, d])
                return d
        return Fr(0)
    di, db = rel(new, init), rel(new, best)
    _, _, ir = reward_expect(st)
    if di > 0 and db > 0:
        r = (di + 1) + (db + 1) * 2
        inter.extend([di + 1, db + 1, (db + 1) * 2, r])
    elif di > 0:
        r = (di + 1) * C005
        inter.extend([di + 1, r])
    else:
        r = Fr(0)
    inter.append(r * Fr(ir))
    return all(rep(x) for x in inter)


# ------------------------------------------------------------------ minvar cases
def gen_minvar(rng, tier):
    sample = rng.choice([1, 2, 2, 3, 4, 4, 5, 6, 8])
    nobj = rng.choice([1, 1, 2, 3])
    is_global = rng.chance(2, 3)
    mode = rng.choice([0, 0, 0, 1, 2, 3, 4, 5])
    if mode == 0 and rng.chance(3, 4):
        sample = rng.choice([2, 2, 4, 6, 8])      # even window of m-d, m+d: variance d^2, cv = d/m exactly
    steps = []
    start = 0 if rng.chance(5, 6) else rng.range(1, 3 * sample)
    n = rng.range(sample, sample * 3 + 2)
    thr = Fr(rng.choice([1, 2, 4, 8, 16, 32]), 64)
    base = [Fr(2 ** rng.range(3, 8)) for _ in range(nobj)]
    scale = Fr(2) ** rng.choice([0, 0, 0, 0, -30, -52, -60, -100, -250, 40, 200])
    for i in range(n):
        g = start + i
        if mode == 0:
            # alternate m-d, m+d: var = d^2 (even window), cv = d/m
            d = [b * thr * rng.choice([1, 1, 1, 1, 1, 2, Fr(1, 2)]) for b in base]
            fit = [b + (dd if g % 2 == 0 else -dd) for b, dd in zip(base, d)]
        elif mode == 1:
            fit = [b + Fr(rng.range(-8, 8), 2 ** rng.range(0, 6)) for b in base]
        elif mode == 2:
            fit = [b + b * Fr(1, 2 ** min(i, 12)) for b in base]       # converging
        elif mode == 3:
            fit = [Fr(0) if rng.chance(1, 2) else Fr(rng.range(-4, 4)) for _ in base]
        elif mode == 4:
            fit = [-(b + Fr(rng.range(0, 8), 4)) for b in base]        # negative means
        else:
            fit = list(base)
        if rng.chance(1, 12):
            g += rng.range(1, 3)
            start += 1
        # objectives of tiny / huge absolute magnitude: the coefficient of variation does not depend on the scale, and a power of two
        # scales every f64 operation of get_variance_mean / get_cv exactly (no underflow: |x| >= 2^-270, squares >= 2^-560)
        fit = [x * scale for x in fit]
        steps.append({'gen': g, 'phase': rng.choice([0, 1, 2, 2]), 'fit': None if rng.chance(1, 15) else sb(bits(float(x)) for x in fit)})
    if mode == 0 and rng.chance(2, 5):
        thr = thr + rng.choice([-1, 1]) * Fr(1, 2 ** 40)
    if rng.chance(1, 20):
        thr = -thr
    return {'op': 'minvar', 'sample': sample, 'thr': str(bits(float(thr))), 'global': is_global, 'steps': steps}


def is_square(q):
    q = Fr(q)
    if q < 0:
        return False
    a, b = math.isqrt(q.numerator), math.isqrt(q.denominator)
    return a * a == q.numerator and b * b == q.denominator


def minvar_expect(c):
    """exact decision of the property per step: (fires, certain)"""
    sample, thr, glob = c['sample'], fr(c['thr']), c['global']
    rows = None
    out = []
    for st in c['steps']:
        if st['fit'] is None:
            out.append((False, True))
            continue
        fit = [fr(x) for x in st['fit']]
        if rows is None:
            rows = [[Fr(0)] * len(fit) for _ in range(sample)]
        g = st['gen']
        rows[g % sample] = fit
        res, certain = True, True
        if g < sample - 1:
            res = False
        else:
            width = max(len(r) for r in rows)
            for k in range(width):
                col = [r[k] for r in rows if len(r) > k]
                n = len(col)
                mean = sum(col) / n
                var = sum((x - mean) ** 2 for x in col) / n
                t = thr * mean
                if mean == 0:
                    gt = thr < 0
                elif mean > 0:
                    gt = t < 0 or var > t * t
                else:
                    gt = t > 0 and var < t * t
                # can f64 rounding flip the decision?  only next to the boundary of an inexact computation
                devs = [x - mean for x in col]
                partial = [sum(col[:j + 1]) for j in range(n)] + [sum(d * d for d in devs[:j + 1]) for j in range(n)]
                exact = all(rep(x) for x in [mean, var] + devs + [d * d for d in devs] + partial) and is_square(var) and \
                    (mean == 0 or rep(Fr(math.isqrt(var.numerator), math.isqrt(var.denominator)) / mean))
                if not exact:
                    scale = max(var, t * t)
                    if scale == 0 or abs(var - t * t) <= scale / 10 ** 9 or (mean != 0 and abs(t) <= abs(mean) / 10 ** 12):
                        certain = False
                if gt:
                    res = False
        fired = res if (glob or st['phase'] == 2) else False
        out.append((fired, certain))
    return out


# ------------------------------------------------------------------ generate
def generate(rng, tier, n):
    cases = []
    for _ in range(n):
        r = rng.below(100)
        if r < 32:
            cases.append(gen_slot(rng, tier))
        elif r < 42:
            from props.floats import any_bits
            k = rng.below(9)
            pool = [any_bits(rng) for _ in range(rng.range(1, 3))]
            vals = [rng.choice(pool) if rng.chance(3, 4) else any_bits(rng) for _ in range(k)]
            cases.append({'op': 'argmax', 'vals': sb(vals), 'reps': 6})
        elif r < 47:
            k = rng.range(1, 6) if rng.chance(19, 20) else 0
            cases.append({'op': 'weighted', 'weights': [rng.choice([0, 0, 1, 1, 2, 5, 10, 100, 1000]) for _ in range(k)], 'reps': 5})
        elif r < 72:
            cases.append(gen_reward(rng, tier))
        elif r < 82:
            g = rng.choice([0, 1, 2, 5, 10, 99, 100, 101, 1000, rng.range(0, 5000)])
            parts = []
            for _ in range(rng.range(0, 4)):
                k = rng.below(10)
                if k < 6:
                    parts.append(['gen', rng.choice([0, 1, g, g + 1, max(g - 1, 0), 2 * g, 3, 7, 1000, rng.range(0, 6000)])])
                elif k < 8:
                    parts.append(['time', str(bits(rng.choice([0.0, 1e-9, 1e-3, 1.0, 300.0, 1e9])))])
                else:
                    parts.append([rng.choice(['minvar', 'target'])])
            cases.append({'op': 'estimate', 'generation': g, 'parts': parts})
        else:
            cases.append(gen_minvar(rng, tier))
    return cases


def corpus():
    one = str(ONE)
    return [
        # prior 1, single denormal reward: the f64 mean becomes 0 (leaves the hull by rounding)
        {'op': 'slot', 'prior': one, 'rewards': ['1'], 'stride': 1, 'exact': False, 'kind': 'float', 'samples': [[0, one], [1, '0']]},
        # three objectives, unassigned 1 -> 0: base reward 12 > documented 6
        {'op': 'reward', 'nops': 2, 'wild': False, 'steps': [
            {'best': [one, one, one], 'init': [one, one, one], 'new': ['0', one, one], 'ratio': str(bits(0.1)), 'many': True}]},
        # one objective, opposite signs: base reward 9 > documented 6
        {'op': 'reward', 'nops': 1, 'wild': False, 'steps': [
            {'best': [one], 'init': [one], 'new': [str(bits(-1.0))], 'ratio': str(bits(0.1)), 'many': True}]},
        # |a-b| overflows
        {'op': 'reward', 'nops': 1, 'wild': True, 'steps': [
            {'best': [str(bits(1.7e308))], 'init': [str(bits(1.7e308))], 'new': [str(bits(-1.7e308))], 'ratio': str(bits(0.1))}]},
        {'op': 'estimate', 'generation': 0, 'parts': [['gen', 0]]},
        {'op': 'estimate', 'generation': 7, 'parts': [['gen', 0], ['gen', 3], ['minvar'], ['target']]},
        {'op': 'minvar', 'sample': 2, 'thr': str(bits(0.125)), 'global': True, 'steps': [
            {'gen': 0, 'phase': 1, 'fit': [str(bits(9.0))]}, {'gen': 1, 'phase': 1, 'fit': [str(bits(7.0))]},
            {'gen': 2, 'phase': 1, 'fit': [str(bits(9.0))]}]},
    ]


# ------------------------------------------------------------------ model terms
def model_term(c):
    op = c['op']
    if op == 'slot':
        rs = [int(x) for x in c['rewards']]
        t = 'let rs := %s in (run_slotF %s rs %s' % (blist(rs), c['prior'], nat(mstride(c)))
        t += ', run_samplesF %s rs [%s]' % (c['prior'], '; '.join('(%s, %s)' % (nat(k), g) for k, g in c['samples']))
        if c.get('exact'):
            t += ', [run_slot %s %s])' % (dyt(fr(c['prior'])), dylist(fr(x) for x in rs))
        else:
            t += ', @nil (list (Z * Z) * Z))'
        return t
    if op == 'argmax':
        return 'run_argmax_set %s' % zlist(int(x) for x in c['vals'])
    if op == 'weighted':
        return 'weighted_support [%s]' % '; '.join(nat(w) for w in c['weights'])
    if op == 'reward':
        if not reward_exactish(c):
            return None
        ts = []
        for st in c['steps']:
            b = '[]' if st['best'] is None else '[%s]' % dylist(fr(x) for x in st['best'])
            ts.append('run_reward %s %s %s %s' % (b, dylist(fr(x) for x in st['init']), dylist(fr(x) for x in st['new']), dyt(fr(st['ratio']))))
        return '[' + '; '.join(ts) + ']'
    if op == 'estimate':
        parts = ['(%s, %s)' % (nat(0), nat(p[1])) if p[0] == 'gen' else '(%s, %s)' % (nat(1), nat(0)) for p in c['parts'] if p[0] != 'time']
        return 'run_estimate %s [%s]' % (nat(c['generation']), '; '.join(parts))
    if op == 'minvar':
        steps = []
        for st in c['steps']:
            f = '[]' if st['fit'] is None else '[%s]' % dylist(fr(x) for x in st['fit'])
            steps.append('(%s, %s, %s)' % (nat(st['gen']), nat(st['phase']), f))
        return 'run_minvar %s %s %s [%s]' % (nat(c['sample']), dyt(fr(c['thr'])), boolean(c['global']), '; '.join(steps))
    return None


def mstride(c):
    """the model reports fewer states than the harness (printing numbers is the expensive part of a Coq evaluation):
       a multiple of the harness stride giving at most ~4 states; the last state depends on the whole history"""
    n, st = len(c['rewards']), c['stride']
    return st * max(1, -(-(n // st + 1) // 3))


def reward_exactish(c):
    for st in c['steps']:
        for key in ('new', 'init', 'best'):
            if st[key] is not None and not all(is_finite_bits(x) for x in st[key]):
                return False
            if st[key] is not None and any(abs(of_bits(int(x))) > 1e30 or (0 < abs(of_bits(int(x))) < 1e-30) for x in st[key]):
                return False
    return True


def nanmap(b):
    b = int(b)
    return -1 if is_nan_bits(b) else b


# ------------------------------------------------------------------ compare (model vs implementation)
def compare(c, impl, model):
    op = c['op']
    if 'panic' in impl:
        if op == 'weighted' and not c['weights'] and model == []:
            return None            # unwrap on an empty weight list panics, the model has no index to offer
        return 'implementation panicked: %s' % impl['panic']
    if op == 'slot':
        ftrace, fsamples, qres = model
        n, ms = len(c['rewards']), mstride(c)
        hidx = [k for k in range(n) if k % c['stride'] == 0] + [n]
        midx = [k for k in range(n) if k % ms == 0] + [n]
        at = {k: st for k, st in zip(hidx, impl['trace'])}
        if len(impl['trace']) != len(hidx):
            return 'harness trace has %d states, expected %d' % (len(impl['trace']), len(hidx))
        got = [[nanmap(x) for x in at[k][:4]] + [at[k][4]] for k in midx]
        if got != [list(x) for x in ftrace]:
            for k, (a, b) in enumerate(zip(got, ftrace)):
                if a != list(b):
                    return 'slot state after %d updates: impl %s float-twin %s' % (midx[k], a, list(b))
            return 'trace lengths differ: impl %d twin %d' % (len(got), len(ftrace))
        gs = [[nanmap(x) for x in s['args']] for s in impl['samples']]
        if gs != [list(x) for x in fsamples]:
            return 'sampler arguments: impl %s float-twin %s' % (gs, fsamples)
        if any(s['calls'] != 1 for s in impl['samples']):
            return 'sample() did not call gamma and normal exactly once'
        if c.get('exact'):
            (qs, n) = qres[0]
            last = impl['trace'][-1]
            names = ['alpha', 'beta', 'mu']
            for k in range(3):
                if fr(last[k]) != qpair(qs[k]):
                    return 'exact history: %s impl %s Q-model %s' % (names[k], fr(last[k]), qpair(qs[k]))
            if of_bits(int(last[3])) != rn(qpair(qs[3])):
                return 'exact history: v impl %r Q-model %s' % (of_bits(int(last[3])), qpair(qs[3]))
            if last[4] != n:
                return 'n: impl %s model %s' % (last[4], n)
        return None
    if op == 'argmax':
        res = impl['res']
        if not model:
            return None if all(r == -1 for r in res) else 'empty input but impl %s' % res
        bad = [r for r in res if r not in model]
        return 'random_argmax returned %s, arg-max set of the model %s' % (bad, model) if bad else None
    if op == 'weighted':
        bad = [r for r in impl['res'] if r not in model]
        return 'weighted returned %s, support of the model %s' % (bad, model) if bad else None
    if op == 'reward':
        if impl['panic_at'] is not None:
            return 'DynamicSelective panicked at step %s: %s' % (impl['panic_at']['step'], impl['panic_at']['msg'])
        if len(impl['search']) != len(c['steps']):
            return 'telemetry has %d samples for %d steps' % (len(impl['search']), len(c['steps']))
        noisy = any(s['duration'] != 0 for s in impl['search'])
        for k, (s, m) in enumerate(zip(impl['search'], model)):
            want = qpair(m)
            if not is_finite_bits(s['reward']):
                return 'step %d: reward not finite, model %s' % (k, want)
            got = fr(s['reward'])
            if noisy:
                # the median factor depends on wall-clock durations: the model value is for factor 1, the code may have used any of the four
                if want == 0:
                    if got != 0:
                        return 'step %d: reward impl %s model 0' % (k, got)
                elif not any(abs(got / want - f) <= Fr(1, 10 ** 12) for f in (Fr(3, 4), Fr(1), Fr(5, 4), Fr(3, 2))):
                    return 'step %d: reward impl %s is not the model reward %s times a median factor 0.75/1/1.25/1.5' % (k, float(got), float(want))
                continue
            if reward_step_exact(c['steps'][k]):
                if got != want:
                    return 'step %d: reward impl %s model %s' % (k, got, want)
            elif abs(got - want) > abs(want) / 10 ** 12:
                return 'step %d: reward impl %s far from model %s' % (k, float(got), float(want))
        return None
    if op == 'estimate':
        singles, comp = model
        gen_idx = [k for k, p in enumerate(c['parts']) if p[0] != 'time']
        for j, k in enumerate(gen_idx):
            if of_bits(int(impl['singles'][k])) != rn(qpair(singles[j])):
                return 'estimate of part %d: impl %r model %s' % (k, of_bits(int(impl['singles'][k])), qpair(singles[j]))
        if len(gen_idx) == len(c['parts']) and of_bits(int(impl['composite'])) != rn(qpair(comp)):
            return 'composite estimate: impl %r model %s' % (of_bits(int(impl['composite'])), qpair(comp))
        return None
    if op == 'minvar':
        exp = minvar_expect(c)
        want = [m == 'true' for m in model]
        for k, (g, w) in enumerate(zip(impl['fired'], want)):
            if exp[k][1] and g != w:
                return 'step %d (generation %d): MinVariation fired=%s model %s' % (k, c['steps'][k]['gen'], g, w)
        return None
    return None


# ------------------------------------------------------------------ oracle (the property on the implementation's own output)
def finite(b):
    return is_finite_bits(b)


def state_violations(state, seen, prior, what):
    """learning state finite and valid; mean within the hull of the seen rewards"""
    v = []
    a, b, mu, var, n = state
    if not all(finite(x) for x in (a, b, mu, var)):
        return [{'class': 'slot-state-nonfinite', 'what': '%s: non-finite learning state %s' % (what, [of_bits(int(x)) for x in (a, b, mu, var)])}]
    a, b, mu, var = (of_bits(int(x)) for x in (a, b, mu, var))
    if not a > 0:
        v.append({'class': 'slot-alpha-nonpositive', 'what': '%s: alpha=%r' % (what, a)})
    if not b > 0:
        v.append({'class': 'slot-beta-nonpositive', 'what': '%s: beta=%r' % (what, b)})
    if not var >= 0:
        v.append({'class': 'slot-variance-negative', 'what': '%s: v=%r' % (what, var)})
    if n != len(seen):
        v.append({'class': 'slot-count', 'what': '%s: n=%s after %d updates' % (what, n, len(seen))})
    if seen:
        lo, hi = min(seen), max(seen)
        if not (lo <= mu <= hi):
            scale = max(abs(prior), max(abs(x) for x in seen))
            tol = 8 * len(seen) * scale * 2.0 ** -52 + 16 * 5e-324
            dist = (lo - mu) if mu < lo else (mu - hi)
            if dist <= tol:
                v.append({'class': 'mean-outside-hull-by-rounding',
                          'what': '%s: mean %r outside [%r, %r] by %r (f64 rounding of mu + (r - mu)/n)' % (what, mu, lo, hi, dist)})
            else:
                v.append({'class': 'mean-outside-hull', 'what': '%s: mean %r outside [%r, %r]' % (what, mu, lo, hi)})
    return v


def reward_violations(c, impl):
    v = []
    names = {'op%d' % k for k in range(c['nops'])}
    noisy = any(s['duration'] != 0 for s in impl['search'])
    nonfinite_seen = False
    for k, s in enumerate(impl['search']):
        st = c['steps'][k]
        if s['name'] not in names or s['from'] not in ('best', 'diverse') or s['to'] not in ('best', 'diverse'):
            v.append({'class': 'unconfigured-operator', 'what': 'step %d picked %r' % (k, s['name'])})
        N, pairs, ir = reward_expect(st)
        if not finite(s['reward']):
            nonfinite_seen = True
            if any(math.isinf(abs(x - y)) for x, y in pairs):
                v.append({'class': 'reward-nonfinite-fitness-difference-overflow',
                          'what': 'step %d: reward %r: |a-b| overflows for finite fitness %s' % (k, of_bits(int(s['reward'])), pairs)})
            else:
                v.append({'class': 'reward-nonfinite', 'what': 'step %d: reward %r' % (k, of_bits(int(s['reward'])))})
            continue
        r = of_bits(int(s['reward']))
        if r < 0:
            v.append({'class': 'reward-negative', 'what': 'step %d: reward %r' % (k, r)})
        base = r / (ir * (1.5 if noisy else 1.0))          # lower bound of the distance reward when timing noise is present
        eps = 1e-9
        if base > 3 * (2 * N + 1) + eps:
            v.append({'class': 'reward-above-proved-bound', 'what': 'step %d: distance reward %r > 3(2N+1), N=%d' % (k, base, N)})
        elif base > 6 + eps:
            mixed = any((x < 0 < y) or (y < 0 < x) for x, y in pairs)
            if N >= 2 and base <= 3 * (N + 1) + eps:
                cls = 'reward-above-documented-6-multiobjective'
            elif mixed:
                cls = 'reward-above-documented-6-opposite-sign-fitness'
            else:
                cls = 'reward-above-documented-6'
            v.append({'class': cls, 'what': 'step %d: distance reward %r exceeds the documented [0, 6] (N=%d objectives, compared %s)' % (k, base, N, pairs)})
    if impl['panic_at'] is not None:
        if not nonfinite_seen:
            v.append({'class': 'selection-panic', 'what': 'DynamicSelective panicked at step %s: %s' % (impl['panic_at']['step'], impl['panic_at']['msg'])})
    else:
        if len(impl['search']) != len(c['steps']):
            v.append({'class': 'selection-missing', 'what': '%d samples for %d steps' % (len(impl['search']), len(c['steps']))})
    if not nonfinite_seen:
        total = 0
        last = len(c['steps']) - 1
        for p in impl['params']:
            if p['generation'] != last:
                continue
            if p['name'] not in names:
                v.append({'class': 'unconfigured-operator', 'what': 'params of %r' % p['name']})
            if not all(finite(p[x]) for x in ('alpha', 'beta', 'mu', 'v')):
                v.append({'class': 'slot-state-nonfinite', 'what': 'DynamicSelective slot %s/%s not finite' % (p['state'], p['name'])})
                continue
            a, b, var = of_bits(int(p['alpha'])), of_bits(int(p['beta'])), of_bits(int(p['v']))
            if not (a > 0 and b > 0 and var >= 0):
                v.append({'class': 'slot-state-invalid', 'what': 'DynamicSelective slot %s/%s alpha=%r beta=%r v=%r' % (p['state'], p['name'], a, b, var)})
            total += p['n']
        if c['steps'][-1].get('many') and impl['panic_at'] is None and total != len(c['steps']):
            v.append({'class': 'slot-count', 'what': 'sum of n over slots %d, steps %d' % (total, len(c['steps']))})
    return v


def oracle(c, impl):
    op = c['op']
    if 'panic' in impl:
        if op == 'weighted' and not c['weights']:
            return []
        return [{'class': 'panic-' + op, 'what': 'panicked: ' + impl['panic']}]
    v = []
    if op == 'slot':
        if c['kind'] == 'malformed':
            return []
        rs = [of_bits(int(x)) for x in c['rewards']]
        prior = of_bits(int(c['prior']))
        stride = c['stride']
        n = len(rs)
        idx = [k for k in range(n) if k % stride == 0] + [n]
        for st, k in zip(impl['trace'], idx):
            v += state_violations(st, rs[:k], prior, 'after %d updates' % k)
            if v:
                break
        for s in impl['samples']:
            shape, scale, mean, std = (of_bits(int(x)) for x in s['args'])
            g = [of_bits(int(gb)) for kk, gb in c['samples'] if kk == s['k']][0]
            if not (shape > 0 and math.isfinite(shape)):
                v.append({'class': 'gamma-shape-invalid', 'what': 'gamma shape %r after %d updates' % (shape, s['k'])})
            if not (scale > 0 and math.isfinite(scale)):
                v.append({'class': 'gamma-scale-invalid', 'what': 'gamma scale %r after %d updates' % (scale, s['k'])})
            if not math.isfinite(mean):
                v.append({'class': 'normal-mean-nonfinite', 'what': 'normal mean %r' % mean})
            if g == 0 or g >= 1e-300:
                if not (math.isfinite(std) and std >= 0):
                    v.append({'class': 'normal-stddev-invalid',
                              'what': 'normal std_dev %r for gamma draw %r after %d updates (n==0 or zero precision must fall back to 0.001)' % (std, g, s['k'])})
            if s['ret'] != str(bits(0.5)):
                v.append({'class': 'sample-not-from-normal', 'what': 'sample() did not return the normal draw'})
        return v
    if op == 'argmax':
        keys = [tkey(x) for x in c['vals']]
        for r in impl['res']:
            if not keys:
                if r != -1:
                    v.append({'class': 'argmax-empty', 'what': 'index %s for an empty list' % r})
            elif not (0 <= r < len(keys)):
                v.append({'class': 'argmax-out-of-range', 'what': 'random_argmax returned %s for %d values' % (r, len(keys))})
            elif keys[r] != max(keys):
                v.append({'class': 'argmax-not-maximal', 'what': 'random_argmax returned index %s whose value is not the maximum' % r})
            if v:
                break
        return v
    if op == 'weighted':
        for r in impl['res']:
            if not (0 <= r < len(c['weights'])):
                v.append({'class': 'weighted-out-of-range', 'what': 'weighted returned %s for %d weights' % (r, len(c['weights']))})
                break
        return v
    if op == 'reward':
        return reward_violations(c, impl)
    if op == 'estimate':
        for k, b in enumerate(list(impl['singles']) + [impl['composite']]):
            x = of_bits(int(b))
            if not (0 <= x <= 1):
                which = 'composite' if k == len(impl['singles']) else c['parts'][k][0]
                v.append({'class': 'estimate-outside-unit-interval-' + which, 'what': 'estimate %r (generation %d, parts %s)' % (x, c['generation'], c['parts'])})
        return v
    if op == 'minvar':
        exp = minvar_expect(c)
        for k, g in enumerate(impl['fired']):
            want, certain = exp[k]
            if certain and g != want:
                st = c['steps'][k]
                cls = 'minvar-fires-early' if st['gen'] < c['sample'] - 1 else ('minvar-fires-wrongly' if g else 'minvar-misses')
                v.append({'class': cls, 'what': 'step %d (generation %d, sample %d): fired=%s, exact cv test says %s' % (k, st['gen'], c['sample'], g, want)})
                break
        return v
    return v


def nontrivial_key(c, impl):
    if 'panic' in impl:
        return None
    op = c['op']
    if op == 'slot':
        return ('slot', c['prior'], tuple(c['rewards'])) if len(c['rewards']) >= 2 else None
    if op == 'argmax':
        return ('argmax', tuple(c['vals'])) if len(set(c['vals'])) < len(c['vals']) else None
    if op == 'weighted':
        return ('weighted', tuple(c['weights'])) if len(c['weights']) > 1 else None
    if op == 'reward':
        pos = any(finite(s['reward']) and of_bits(int(s['reward'])) > 0 for s in impl['search'])
        return ('reward', str(c['steps'])) if pos else None
    if op == 'estimate':
        return ('estimate', c['generation'], str(c['parts'])) if c['parts'] else None
    if op == 'minvar':
        reach = any(st['fit'] is not None and st['gen'] >= c['sample'] - 1 for st in c['steps'])
        return ('minvar', c['sample'], c['thr'], str(c['steps'])) if reach else None


def classify(c, impl):
    labs = ['op=' + c['op']]
    if c['op'] == 'slot':
        labs.append('slot:' + c['kind'] + ('-exact' if c.get('exact') else ''))
        n = len(c['rewards'])
        labs.append('slot-len:' + ('<=8' if n <= 8 else '<=40' if n <= 40 else '<=300' if n <= 300 else '>300'))
    if c['op'] == 'reward':
        labs.append('reward:' + ('wild' if c['wild'] else 'structured'))
        labs.append('reward-objectives=%d' % len(c['steps'][0]['new']))
        if any(st.get('sleep_ms') for st in c['steps']):
            labs.append('reward:with-slow-operator-steps')
        if 'panic' not in impl and any(x['duration'] != 0 for x in impl['search']):
            labs.append('reward:nonzero-duration-observed')
    if c['op'] == 'minvar' and 'panic' not in impl:
        labs.append('minvar-fired=%s' % any(impl['fired']))
        mags = [abs(fr(x)) for st in c['steps'] if st['fit'] for x in st['fit'] if fr(x) != 0]
        if mags:
            labs.append('minvar-magnitude=%s' % ('tiny(<2^-40)' if max(mags) < Fr(1, 2 ** 40) else 'huge(>2^40)' if max(mags) > 2 ** 40 else 'ordinary'))
        exp = minvar_expect(c)
        labs.append('minvar-all-steps-certain=%s' % all(e[1] for e in exp))
    return labs


def shrink_candidates(c):
    if c['op'] == 'slot' and len(c['rewards']) > 1:
        n = len(c['rewards'])
        for cut in (n // 2, n - 1):
            d = dict(c)
            d['rewards'] = c['rewards'][:cut]
            d['samples'] = [s for s in c['samples'] if s[0] <= cut]
            d['exact'] = False
            yield d
    if c['op'] in ('reward', 'minvar') and len(c['steps']) > 1:
        for k in range(len(c['steps'])):
            d = dict(c)
            d['steps'] = c['steps'][:k] + c['steps'][k + 1:]
            if d['steps']:
                yield d


MANIFEST_TEXT = ('Machine-checked proof (Coq) over an exact-arithmetic (Q) executable model of SlotMachine::{new,update,sample}, '
                 'get_relative_distance / estimate_distance_reward / estimate_reward_perf_multiplier, random_argmax, Random::weighted, '
                 'MaxGeneration/MaxTime/CompositeTermination::estimate and MinVariation (sample window, get_cv): for every reward history '
                 'alpha = 1 + n/2 > 0, beta >= 10 and non-decreasing, v >= 0, the mean is the average of the rewards hence inside their hull, '
                 'the sampler arguments are valid for every gamma draw, random_argmax/weighted return an index of a configured operator for '
                 'every random stream, 0 <= reward <= 3(2N+1) (<= 3(N+1) for non-negative fitness; the documented [0,6] only for N = 1: refuted '
                 'with witnesses), estimates lie in [0,1], MinVariation fires iff generation >= sample-1 and no objective column has cv > threshold. '
                 'The adaptive selector itself (DynamicSelective: SearchAgent::{new,search,update}, SearchAction::take, HeuristicTracker with the '
                 'RemedianUsize, search / search_many) is a state machine over (search state, operator index) with the slot machines inside; sampler '
                 'outputs (any f64 incl. NaN/inf), tie bits and durations are oracle streams: for every history selection is total and picks a '
                 'configured operator with a maximal sampled value, only the chosen slot of the row of the from-state changes, every slot is the slot '
                 'machine run on exactly the rewards routed to it (so all per-slot theorems hold for every slot after every history), rewards fed to '
                 'update lie in [0, 9(2N+1)]; zero operators: the first search panics. '
                 'Over f64: bit-exact twins over Coq primitive floats of the slot machine, the reward estimation, the selector, the termination '
                 'estimates, get_variance_mean / get_cv, MinVariation (sample and period interval), relative_distance / TargetProximity and Noise are '
                 'compared bit for bit with the real code on every run (DynamicSelective through its public API with the repeatable RNG on a fresh '
                 'thread, sampler draws replayed by a shadow), and it is proved (Flocq, universally quantified): slot machine - for finite prior and '
                 'rewards <= 2^480 and <= 2^52 updates alpha is exactly 1 + n/2, beta finite, >= 10, non-decreasing, scale 1/beta finite > 0, v, mu finite, '
                 'sampler arguments valid for every gamma draw that is 0 or >= 2^-1022, mean within 2^-52*2^m of the hull; rewards - for fitness of '
                 'magnitude <= 2^1022 the relative value is in [0,2], the distance reward finite in [0, 3(2N+1)], the multiplier one of twelve constants '
                 'in (0.5,3] for all inputs, the reward finite in [0, 9(2N+1)] (N < 2^48); selector - every history with such fitness (<= 2^52 searches, any '
                 'sampler outputs) leaves every slot of both rows finite and valid with valid sampler arguments; MaxGeneration estimate in [0,1] for all '
                 'generation, limit < 2^63 (limit 0 gives 1), MaxTime estimate in [0,1] for every elapsed >= 0 and every limit that is NaN or has a clear '
                 'sign bit (+0, denormal with overflow to +inf, +inf), composite in [0,1]; get_variance_mean finite for <= 2^30 values <= 2^480; '
                 'relative_distance finite >= 0. MinVariation period mode (clock and shuffle as oracles): fires iff period elapsed, >= 2 entries and the '
                 'threshold test passes on the retained window = the entries inside the period (monotone clock; at least two kept, except a state of exactly '
                 'three entries), compaction keeps every tenth entry in time order; TargetProximity fires iff sqrt(sum of squared relative changes) < threshold '
                 '(real square root); Noise::generate equations. The invariants are also evaluated on the implementation output.')
MANIFEST_NOTE = ('Trusted: Coq kernel + vm_compute + primitive floats; harness, generators, comparison. The f64-level theorems (C18_float_*, C18_selector_float_*) '
                 'depend on standard-library axioms only: the classical reals (ClassicalDedekindReals.sig_forall_dec, sig_not_dec, Classical_Prop.classic, '
                 'functional_extensionality_dep) and the primitive float/int specification (FloatAxioms, Uint63); they hold under explicit bounds '
                 '(|prior|, |reward| <= 2^480 finite, <= 2^52 updates, gamma draw 0 or >= 2^-1022; |fitness| <= 2^1022, N < 2^48; generation, limit < 2^63; '
                 '<= 2^30 values <= 2^480 for the variance) and fail outside (one reward 2^512 -> beta NaN; draw 5e-324 -> std_dev inf; fitness +-1.7e308 -> reward '
                 'inf; MaxTime limit -0.0 -> estimate -inf: witnesses). f64 mean can leave the hull by rounding, rewards exceed the documented [0,6] for '
                 'N >= 2 objectives or opposite-sign fitness and overflow to inf near f64::MAX (known findings). Not proved over f64: the decision of '
                 'get_cv > threshold against the real coefficient of variation (the twin is compared bit for bit; the iff-theorems are exact arithmetic), '
                 'SelectionSamplingIterator is not modelled. The wall clock of MaxTime / MinVariation period mode and the sampler draws inside '
                 'DynamicSelective are oracle arguments read off the run (bracketed clock reads, stored time stamps, shadow replay of the repeatable RNG).')
MANIFEST_TECHNIQUE = 'Coq proof over executable Q model + primitive-float twin, vm_compute differential correspondence with the Rust implementation'
