"""C05 sub-stream `c05_shared`: per-SOLUTION aggregates that are cached INSIDE per-route state - the shared reload resource
(`ReloadFeatureFactory::build_shared`: "resource still available" of every reload interval of every tour = capacity of the
resource minus what ALL reload intervals of ALL tours draw from it).  Registered by `SUBSTREAMS = ['c05_shared']` in
tools/props/c05.py; same harness binary `ops` (case key `shared` switches the goal to the shared reload feature); model
Model/CacheX.v, theorems in Properties/C05.v (C05_x_*, C05_shared_*)."""
from coqterm import z, lst, nat
from props import opslib as O
from props import c05 as P

HARNESS = 'ops'
COQ_IMPORTS = 'From VRP Require Import Base.Tac Model.Cache Model.CacheX.'
MODEL_TARGETS = ['theories/Model/CacheX.vo']
MODEL_NEEDS_IMPL = True
SHARD = 8
SIZES = {'quick': 60, 'thorough': 700, 'search': 300}
RULE = ('cases: problems whose goal holds the shared-resource reload feature built through the public API as vrp-pragmatic builds '
        'it from `resourceId` (2-4 small vehicles, 1-2 reload markers each, most of them drawing from ONE resource of limited '
        'capacity, more delivery demand than the fleet can load at once, so 2+ tours reload from the same resource) + a history '
        'of 5-14 real ruin / recreate / local / search operator calls (scripted Random; 1 step in 5 under a counting quota) that '
        'typically touch one or two of the tours; every second history observes every single applied insertion. After every '
        'step: the cached availability of every reload interval of every tour (read through the feature\'s own constraint with '
        'probe demands, exact), the route/solution state digests, schedules and the fitness vector are compared with a context '
        'rebuilt from the same tours and pending lists (empty caches, route-level handlers, accept_solution_state), with an '
        'independent recomputation from the dumped tours in Python, and the rebuilt intervals / availabilities with the Coq '
        'model (run_shared). After every observed insertion: availability and intervals against the recomputation from the '
        'tours, digests against the route-level recomputation. '
        'non-trivial = histories with a step after which 2+ tours hold a reload interval of the same resource and the tours changed.')
TRUSTED = ['the read-out of the private cached value: harness `shared_readout` bisects the largest resource demand that '
           'SharedResourceConstraint accepts at the first leg of every reload interval (a probe single that is not a job of the '
           'problem and has no capacity demand); resource demand of real jobs = static delivery, as in vrp-pragmatic',
           'harness `rebuild_pending`: tours + pending lists copied into a new SolutionContext, RouteState::default(), '
           'goal.accept_route_state on every tour, restore()',
           'the hooks RouteState/SolutionState::verif_digest and the insertion observer (cfg(reinterpretcat_vrp_verif))']
ASSUMPTIONS = ['integer data; one load dimension',
               'the availability is defined for complete solutions only: in a partial solution (decomposition) the feature refuses to '
               'estimate consumption; such states are never handed over and observed insertions inside them are not compared',
               'inside InfeasibleSearch (constraints switched off) tours are not compared at observed insertions']


# ---------------------------------------------------------------- generation
def gen_case(rng, tier, observe):
    n = rng.range(5, 8)
    dur, dist = O.gen_matrix(rng, n, True)
    nveh = rng.range(2, 4)
    cap = rng.range(2, 3)
    vehicles = []
    for _ in range(nveh):
        vehicles.append({'start': 0, 'end': rng.choice([0, 0, None]), 'shift_start': 0, 'shift_latest': None, 'shift_end': 'inf',
                         'cap': cap, 'costs': [rng.range(0, 10), rng.range(1, 3), rng.range(0, 2), 0, 0]})
    # more static delivery demand than the fleet can carry in one go: most tours need a reload
    target = nveh * cap + rng.range(cap, nveh * cap)
    jobs, total = [], 0
    while total < target and len(jobs) < 18:
        i = len(jobs) + 1
        k = rng.below(14)
        if k < 11:
            q = rng.range(1, 2) if rng.chance(1, 3) else 1
            jobs.append({'id': i, 'places': [O.gen_place(rng, n, wide=not rng.chance(1, 6))], 'dem': [0, 0, q, 0]})
            total += q
        elif k < 13:
            jobs.append({'id': i, 'places': [O.gen_place(rng, n, wide=True)], 'dem': [1, 0, 0, 0]})
        else:
            a = {'places': [O.gen_place(rng, n, True)], 'dem': [0, 1, 0, 0]}
            b = {'places': [O.gen_place(rng, n, True)], 'dem': [0, 0, 0, 1]}
            jobs.append({'id': i, 'multi': [a, b]})
    feats = {'compat': False, 'groups': False, 'order': rng.chance(1, 4)}
    if feats['order']:
        for j in jobs:
            if 'multi' not in j and rng.chance(1, 2):
                j['order'] = rng.range(1, 3)
    nres = rng.choice([1, 1, 2])
    # the first resource is what the reloads have to share: about as much as has to be loaded a second time, give or take
    resources = [max(2, target - nveh * cap + rng.range(-2, 3))] + [rng.range(2, 6) for _ in range(nres - 1)]
    reloads = []
    for v in range(nveh):
        for _ in range(rng.choice([1, 1, 1, 2])):
            k = rng.below(10)
            res = 0 if k < 8 else (nres - 1 if k < 9 else None)
            reloads.append({'id': 100 + len(reloads), 'vehicle': v, 'resource': res,
                            'places': [{'loc': rng.choice([0, 0, rng.below(n)]), 'svc': rng.choice([0, 0, 2]), 'tws': [[0, 'inf']]}]})
    hist, prev_ruin = [], False
    for _ in range(rng.range(5, 14) if tier == 'quick' else rng.range(8, 22)):
        op = O.arm_quota(rng, O.gen_op(rng, prev_ruin))
        if op['op'].startswith('search:lkh'):
            # LKHSearch re-sequences a tour without regard to the reload markers and rebuilds the pending lists (a marker can end
            # with two homes): job bookkeeping under conditional jobs is C04's subject, not a cache question
            op['op'] = 'search:rr'
        prev_ruin = op['op'].startswith('ruin')
        hist.append(op)
    return {'n': n, 'dur': dur, 'dist': dist, 'vehicles': vehicles, 'jobs': jobs, 'features': feats, 'locks': [], 'ignored': [],
            'shared': {'resources': resources, 'reloads': reloads},
            'seed': rng.next() % (2 ** 53), 'history': hist, 'observe': observe, 'stream': 'shared'}


def generate(rng, tier, n):
    return [gen_case(rng, tier, observe=(k % 2 == 0)) for k in range(n)]


# ---------------------------------------------------------------- the tours of a dump as the model / the recomputation sees them
def reload_table(c):
    caps = c['shared']['resources']
    return {r['id']: (None if r['resource'] is None else (caps[r['resource']], r['resource'])) for r in c['shared']['reloads']}


def acts_of_dump(c, r):
    """[(job, marker, res, dem)] of a dumped tour: resource demand = static delivery of a job with a demand dimension"""
    tab = reload_table(c)
    out = []
    for a in r['acts']:
        j = a['job']
        if j < 0:
            out.append((-1, False, None, None))
        elif j in tab:
            out.append((j, True, tab[j], None))
        else:
            out.append((j, False, None, a['dem'][2]))
    return out


def acts_of_obs(c, r):
    tab = reload_table(c)
    out = []
    for j, d in r['acts']:
        if j < 0:
            out.append((-1, False, None, None))
        elif j in tab:
            out.append((j, True, tab[j], None))
        else:
            out.append((j, False, None, d))
    return out


def g_sact(a):
    j, m, res, dem = a
    return '(mkSA %s %s %s %s)' % (z(j), 'true' if m else 'false',
                                  'None' if res is None else '(Some (%s, %s))' % (z(res[0]), z(res[1])),
                                  'None' if dem is None else '(Some %s)' % z(dem))


def states_tours(c, impl):
    """per dumped state: the tours with jobs, in the order of the rebuilt context (= the order of the live one)"""
    return [[acts_of_dump(c, r) for r in d['routes'] if O.route_jobs(r)] for d in O.states(impl)]


def model_term(c, impl):
    if 'panic' in impl:
        return None
    return 'run_shared %s' % lst(states_tours(c, impl), lambda ts: lst(ts, lambda t: lst(t, g_sact)))


# ---------------------------------------------------------------- independent recomputation (Python)
def py_intervals(acts):
    """get_route_intervals"""
    last = len(acts) - 1
    acc = []
    for idx, a in enumerate(acts):
        m = a[0] >= 0 and a[1]
        is_last = idx == last
        if m or is_last:
            start = acc[-1][1] + 1 if acc else 0
            end = last if is_last else idx - 1
            if m and is_last:
                acc.append((start, end - 1))
                acc.append((end, end))
            else:
                acc.append((start, end))
    return acc


def py_shared(tours):
    """{tour index: [[s, e, avail|None]]}: capacity of the resource at the interval's first activity minus the demand of all
    reload intervals of all tours that start at an activity with the same resource"""
    ivs = [py_intervals(t) for t in tours]
    total = {}
    for t, iv in zip(tours, ivs):
        for s, e in iv:
            res = t[s][2]
            if res is not None:
                total[res[1]] = total.get(res[1], 0) + sum((a[3] or 0) for a in t[s:e + 1] if a[0] >= 0)
    out = []
    for t, iv in zip(tours, ivs):
        out.append([[s, e, (t[s][2][0] - total[t[s][2][1]]) if t[s][2] is not None else None] for s, e in iv])
    return out


def dig_intervals(dig):
    for e in dig:
        if e.startswith('vuu:'):
            import re
            return [[int(a), int(b)] for a, b in re.findall(r'\((\d+),\s*(\d+)\)', e)]
    return None


# ---------------------------------------------------------------- correspondence: Coq recomputation vs the rebuilt context
def compare(c, impl, model):
    if 'panic' in impl:
        return None
    sts = O.states(impl)
    if len(model) != len(sts):
        return 'model evaluated %d states, implementation dumped %d' % (len(model), len(sts))
    for k, d in enumerate(sts):
        if d.get('partial'):
            continue
        live = [r for r in d['routes'] if O.route_jobs(r)]
        rb = {r['v']: r for r in d['rebuilt']['routes']}
        if len(model[k]) != len(live):
            return 'state %d: model has %d tours, dump %d' % (k, len(model[k]), len(live))
        for r, (ivs, entries) in zip(live, model[k]):
            f = rb.get(r['v'])
            if f is None:
                continue
            if f.get('jobs') != [a['job'] for a in r['acts']]:
                continue          # the rebuild's own clean-up changed the tour (reported by the oracle as schedule difference)
            mi = [list(p) for p in ivs]
            if dig_intervals(f['dig']) != mi:
                return 'state %d vehicle %d: reload intervals: model %s implementation %s' % (k, r['v'], mi, dig_intervals(f['dig']))
            me = [[s, None if v == 'None' else v[1]] for s, v in entries]
            fe = [[s, v] for s, _, v in f['shared']]
            if me != fe:
                return 'state %d vehicle %d: shared resource availability: model %s implementation (rebuilt) %s' % (k, r['v'], me, fe)
    return None


# ---------------------------------------------------------------- oracle: cached == recomputed
def shared_class(live, want):
    """structural class of an availability difference"""
    if [x[:2] for x in live] != [x[:2] for x in want]:
        return 'stale-reload-intervals'
    kinds = set()
    for a, b in zip(live, want):
        if a[2] != b[2]:
            if isinstance(a[2], str):
                kinds.add('unreadable')
            elif a[2] is None or b[2] is None:
                kinds.add('missing')
            else:
                kinds.add('outdated')
    return 'stale-shared-resource-availability-' + '+'.join(sorted(kinds))


WIPED = 'state-of-earlier-features-missing-on-fresh-tour-after-nested-route-state-clear'


def wiped_routes(d):
    """vehicles of the tours handed over WITHOUT any transport state although flagged fresh: what a nested
    accept_route_state_with_states (CombinedFeatureState) leaves behind - finding C05-F2.  Structural: the live digest has no
    latest-arrival / waiting vector at all, every entry it has is also in the rebuilt digest, schedules agree."""
    out = set()
    rb = {r['v']: r for r in d['rebuilt']['routes']}
    for r in d['routes']:
        f = rb.get(r['v'])
        if f is None or r['stale'] or not O.route_jobs(r):
            continue
        live, fresh = P.canon_digest(r['dig']), P.canon_digest(f['dig'])
        if any(e[0] == 'vf' for e in live) or not any(e[0] == 'vf' for e in fresh):
            continue
        if all(e in fresh for e in live) and [[a['arr'], a['dep']] for a in r['acts']] == f['sched']:
            out.add(r['v'])
    return out


def oracle(c, impl):
    if 'panic' in impl:
        return [{'class': 'panic', 'what': 'an operator panicked: ' + impl['panic'][:300]}]
    out = []
    sts = O.states(impl)
    for k, d in enumerate(sts):
        op = 'construction' if k == 0 else c['history'][k - 1]['op']
        wiped = wiped_routes(d)
        for v, kinds in P.route_diffs(d):
            if v in wiped:
                out.append({'class': WIPED,
                            'what': 'state %d (after %s), vehicle %d: the tour is flagged fresh but holds no transport state at all '
                                    '(totals, latest arrivals, waiting); the context rebuilt from the same tours has it' % (k, op, v)})
                continue
            out.append({'class': P.diff_class(kinds),
                        'what': 'state %d (after %s), vehicle %d: cached %s differs from recomputation from the tour' % (k, op, v, kinds)})
        for kind in O.solution_diffs(c, impl['names'], d):
            cls = 'solution-' + kind
            if wiped and kind == 'fitness:cost':
                cls = 'solution-fitness:cost-of-tour-without-transport-state'
            out.append({'class': cls, 'what': 'state %d (after %s): %s differs from the rebuilt context' % (k, op, kind)})
        if any(r['stale'] for r in d['routes']):
            out.append({'class': 'stale-flag-at-handover-after-' + op, 'what': 'state %d: a tour is handed over with the stale flag set' % k})
        if d.get('partial'):
            continue              # some job has no home or two (C04's subject): the feature does not estimate consumption then
        live = [r for r in d['routes'] if O.route_jobs(r)]
        rb = {r['v']: r for r in d['rebuilt']['routes']}
        want = py_shared([acts_of_dump(c, r) for r in live])
        for r, w in zip(live, want):
            f = rb.get(r['v'])
            if r['shared'] != w:
                out.append({'class': shared_class(r['shared'], w),
                            'what': 'state %d (after %s), vehicle %d: cached shared-resource availability per reload interval [start, end, '
                                    'available] %s, recomputed from the tours %s' % (k, op, r['v'], r['shared'], w)})
            if f is not None and f['shared'] != r['shared']:
                out.append({'class': shared_class(r['shared'], f['shared']),
                            'what': 'state %d (after %s), vehicle %d: cached shared-resource availability %s, context rebuilt from the '
                                    'same tours %s' % (k, op, r['v'], r['shared'], f['shared'])})
    for m in impl.get('shared_observations', []):
        if m['partial'] or 'infeasible' in m['stage']:
            continue
        rs = [r for r in m['routes']]
        want = py_shared([acts_of_obs(c, r) for r in rs])
        for r, w in zip(rs, want):
            if r['shared'] != w:
                out.append({'class': shared_class(r['shared'], w) + '-after-insertion',
                            'what': 'after insertion #%d during %s, vehicle %d: cached shared-resource availability %s, recomputed '
                                    'from the tours %s' % (m['n'], m['stage'], r['v'], r['shared'], w)})
            if 'dig' in r:
                kinds = set()
                if r['sched'] != r['fresh_sched']:
                    kinds.add('schedule')
                live, fresh = P.canon_digest(r['dig']), P.canon_digest(r['fresh_dig'])
                kinds |= set(e[0] for e in live if e not in fresh) | set(e[0] for e in fresh if e not in live)
                if kinds and 'schedule' not in kinds and not any(e[0] == 'vf' for e in live) and all(e in fresh for e in live):
                    out.append({'class': WIPED,
                                'what': 'after insertion #%d during %s, vehicle %d: an untouched tour is flagged fresh but holds no '
                                        'transport state at all' % (m['n'], m['stage'], r['v'])})
                elif kinds:
                    out.append({'class': P.diff_class(sorted(kinds)) + '-after-insertion',
                                'what': 'after insertion #%d during %s, vehicle %d: cached %s differs from the route-level '
                                        'recomputation' % (m['n'], m['stage'], r['v'], sorted(kinds))})
    seen, uniq = set(), []
    for v in out:
        if v['class'] not in seen:
            seen.add(v['class'])
            uniq.append(v)
    return uniq


def sharing_states(c, impl):
    """number of handed-over states in which 2+ tours hold a reload interval of the same resource"""
    n = 0
    for d in O.states(impl):
        per = {}
        for r in d['routes']:
            acts = acts_of_dump(c, r)
            for s, e in py_intervals(acts):
                if acts[s][2] is not None:
                    per.setdefault(acts[s][2][1], set()).add(r['v'])
        if any(len(vs) >= 2 for vs in per.values()):
            n += 1
    return n


def nontrivial_key(c, impl):
    if 'panic' in impl:
        return None
    sts = O.states(impl)
    sig = lambda d: [(r['v'], [(a['job'], a['sub']) for a in r['acts']]) for r in d['routes']]
    if all(sig(sts[k]) == sig(sts[0]) for k in range(len(sts))):
        return None
    if sharing_states(c, impl) == 0:
        return None
    return (c['seed'], tuple(o['op'] for o in c['history']))


def classify(c, impl):
    labs = ['observe=%s' % c.get('observe', False), 'resources=%d' % len(c['shared']['resources']),
            'steps_with_quota=%d' % sum(1 for o in c['history'] if o.get('quota') is not None)]
    if 'panic' in impl:
        return labs + ['panic']
    n = sharing_states(c, impl)
    labs.append('states_with_2+_tours_on_one_resource:%s' % ('0' if n == 0 else '1-3' if n <= 3 else '4+'))
    labs.append('observed_insertions>0' if impl.get('shared_observations') else 'observed_insertions=0')
    for o in c['history']:
        labs.append(o['op'])
    return labs


def shrink_candidates(c):
    h = c['history']
    for k in range(len(h) - 1, -1, -1):
        d = dict(c)
        d['history'] = h[:k] + h[k + 1:]
        yield d
