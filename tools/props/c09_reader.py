"""C09 sub-stream `c09_reader` — goals built by the REAL pragmatic reader from the `objectives` section of a problem document
(plain objectives, `multi-objective` layers with every strategy, the default objectives), and every goal context the code
hands out for them (main, and through Alternative::maybe_new each alternative), evaluated on small real solutions.
Model: Model/GoalCtx.v (read_goal / follow / ctx_total_order / ctx_fitness). Theorems: Properties/C09.v (C09_reader_*, C09_ctx_*).
Registered by `SUBSTREAMS = ['c09_reader']` in tools/props/c09.py."""
from coqterm import z, zlist
from props.floats import bits, of_bits, SIGN

ID = 'C09'            # set by the driver to the parent's id
HARNESS = 'c09_reader'
COQ_IMPORTS = 'From VRP Require Import Base.Tac Base.TotalCmp Model.CostOrder Model.InsCost Model.GoalCtx.'
MODEL_TARGETS = ['theories/Model/InsCost.vo', 'theories/Model/GoalCtx.vo']
MODEL_NEEDS_IMPL = True      # the state vectors of the solutions (values of the objectives) are what the main context reports
SHARD = 40
SIZES = {'quick': 260, 'thorough': 6000, 'search': 3000}
RULE = ('cases: (7 of 8) pragmatic problem documents (1-3 vehicle types with own start location, 2-4 delivery jobs, explicit routing matrix '
        'with entries over six orders of magnitude, half of them clustered so that "one long tour" and "two short tours" conflict) '
        'whose `objectives` section is absent (default objectives, with / without job values) or a random list of plain objectives '
        '(15 of the 16 types: all but hierarchical-areas) with 0-2 `multi-objective` layers (2-3 inner objectives, strategy `sum` or `weighted-sum` with random weights; '
        'rarely a wrong number of weights, a nested or empty multi-objective, a document with only a multi-objective: reader '
        'errors), read by the real reader; 4-6 solutions per document (random assignments of the jobs to the vehicles, the empty '
        'solution, a duplicate) built through the real insertion evaluation; every ordered pair of them is compared under the main '
        'goal context, the context returned by maybe_new without a hit, the built-in alternative and an alternative of the '
        'alternative; up to 3 moves per document (an unassigned job into a used or an unused tour, route level and activity level) '
        'whose InsertionCost estimate under every context is compared with the model applied to the estimates of the single '
        'objectives (read off the twin document that lists the same objectives as single layers); (1 of 8) small Solomon / TSPLIB texts '
        'read by the real vrp-scientific readers (goal contexts prefer-min-tours / distance-only), 3-6 solutions, every pair under the '
        'main context, the built-in alternative, the configured alternative and an alternative of it. '
        'non-trivial = distinct documents with a pair the main goal orders strictly.')
TRUSTED = ['c09_reader: for the scientific readers the state vector (unassigned, tours, distance) of a solution is read off the '
           'fitness the built-in alternative reports (positions 0, 2, 3); the model predicts every order and every other vector',
           'c09_reader: the values of the objectives of a solution are taken from the fitness vector the MAIN goal context reports '
           '(theorem C09_reader_main_fitness: in the model that vector is the identity on the state vector); the model predicts '
           'from them every order and the vector every other context reports',
           'c09_reader: the solutions are built by harness/src/bin/c09_reader.rs through eval_job_insertion_in_route + accept_insertion',
           'c09_reader: the estimate of a single objective for a move is what the twin document (same problem, the objectives of every '
           'multi-objective listed as single layers) reports in the corresponding component; that the objective of a feature estimates '
           'the same inside a combined feature is thereby assumed, not checked']
ASSUMPTIONS = ['c09_reader: documents without optional breaks (the break feature is the only non-objective-section feature that carries '
               'an objective and would be appended to the built-in alternative goal); validation rules E16xx are respected by the generator']

TYPES = ['minimize-cost', 'minimize-distance', 'minimize-duration', 'minimize-tours', 'maximize-tours', 'maximize-value',
         'minimize-unassigned', 'minimize-arrival-time', 'balance-max-load', 'balance-activities', 'balance-distance',
         'balance-duration', 'compact-tour', 'tour-order', 'fast-service', 'hierarchical-areas']
TAG = {t: k for k, t in enumerate(TYPES)}
COST = ['minimize-cost', 'minimize-distance', 'minimize-duration']
PLAIN = ['minimize-tours', 'maximize-tours', 'minimize-unassigned', 'minimize-arrival-time', 'balance-max-load',
         'balance-activities', 'balance-distance', 'balance-duration', 'compact-tour', 'fast-service']
# (hierarchical-areas needs a geography with two top-level clusters: not generated)
PATHS = [[], [[0, 0]], [[1, 0]], [[1, 0], [1, 0]]]


def jobj(t, rng):
    o = {'type': t}
    if t == 'compact-tour':
        o['job_radius'] = rng.range(1, 3)
    if t in ('minimize-unassigned', 'maximize-value') and rng.chance(1, 4):
        o['breaks'] = float(rng.range(1, 5))
    return o


def matrix(rng, m, nv, clustered):
    def mag():
        k = rng.below(4)
        return rng.range(1, 9) if k == 0 else rng.range(10, 99) if k == 1 else rng.range(1000, 9999) if k == 2 else rng.range(100000, 999999)
    home = [rng.below(nv) for _ in range(m)]
    for k in range(nv):
        home[k] = k
    d, t = [], []
    for i in range(m):
        for j in range(m):
            if i == j:
                d.append(0)
                t.append(0)
            elif clustered:
                near = home[i] == home[j]
                d.append(rng.range(1, 20) if near else rng.range(20000, 900000))
                t.append(rng.range(1, 20) if near else rng.range(200, 9000))
            else:
                d.append(mag())
                t.append(rng.range(1, 500))
    return d, t


def gen_objectives(rng, with_value, with_order):
    """a valid `objectives` list (E1600-E1607 respected) unless one of the rare reader-error variants is drawn"""
    pool = rng.shuffle(PLAIN)
    cost = rng.choice(COST)
    top = pool[:rng.below(3)]
    rest = pool[len(top):]
    layers = [jobj(t, rng) for t in top]
    multis = 0 if rng.chance(1, 4) else (2 if rng.chance(1, 6) else 1)
    cost_in_multi = multis > 0 and rng.chance(1, 2)
    for k in range(multis):
        n = rng.range(2, 3)
        inner = [rest.pop() for _ in range(n - (1 if (cost_in_multi and k == 0) else 0))]
        if cost_in_multi and k == 0:
            inner.insert(rng.below(len(inner) + 1), cost)
        inner = [jobj(t, rng) for t in inner]
        if rng.chance(1, 2):
            st = {'name': 'sum'}
        else:
            nw = len(inner)
            if rng.chance(1, 25):
                nw += rng.choice([-1, 1])
            st = {'name': 'weighted-sum', 'weights': [rng.choice([0.1, 0.3, 0.5, 0.7, 1.0, 1.0, 2.0, 10.0, 0.001, 2.5, 100.0, 0.0]) for _ in range(nw)]}
        if rng.chance(1, 30):
            inner.insert(rng.below(len(inner) + 1),
                         {'type': 'multi-objective', 'strategy': {'name': 'sum'}, 'objectives': [jobj(rest.pop(), rng)]})
        if rng.chance(1, 40) and not (cost_in_multi and k == 0):
            inner = []
        layers.insert(rng.below(len(layers) + 1), {'type': 'multi-objective', 'strategy': st, 'objectives': inner})
    if not cost_in_multi:
        layers.insert(rng.below(len(layers) + 1), jobj(cost, rng))
    if with_value:
        layers.insert(rng.below(len(layers) + 1), jobj('maximize-value', rng))
    if with_order:
        layers.insert(rng.below(len(layers) + 1), jobj('tour-order', rng))
    if rng.chance(1, 40) and multis and cost_in_multi and not with_value and not with_order:
        # only the multi-objective with the cost objective: no plain objective at all
        layers = [l for l in layers if l['type'] == 'multi-objective' and any(i['type'] in COST for i in l['objectives'])][:1]
    return layers


SCI_PATHS = [[], [[0, 1]], [[1, 0]], [[1, 1]], [[1, 1], [1, 0]]]


def gen_sci(rng):
    """a small Solomon / TSPLIB text read by the real vrp-scientific reader (goal context prefer-min-tours / distance-only),
    solutions as [[job index, vehicle index], ..]; everything fits (wide time windows, large capacity)"""
    fmt = rng.choice(['solomon', 'tsplib'])
    nj = rng.range(2, 5)
    pts = [(rng.range(0, 60), rng.range(0, 60)) for _ in range(nj + 1)]
    if rng.chance(1, 2):
        # two far clusters: one long tour against two short ones
        pts = [(30, 30)] + [((5 if i % 2 else 55) + rng.range(0, 3), (5 if i % 2 else 55) + rng.range(0, 3)) for i in range(nj)]
    if fmt == 'solomon':
        nv = rng.range(2, 3)
        lines = ['C101', '', 'VEHICLE', 'NUMBER     CAPACITY', '  %d   1000' % nv, '', 'CUSTOMER',
                 'CUST NO.  XCOORD.   YCOORD.    DEMAND   READY TIME  DUE DATE   SERVICE   TIME', '']
        lines.append('    0  %d  %d  0  0  1000000  0' % pts[0])
        for i in range(nj):
            lines.append('    %d  %d  %d  1  0  1000000  %d' % (i + 1, pts[i + 1][0], pts[i + 1][1], rng.choice([0, 10])))
    else:
        nv = nj + 1
        lines = ['NAME : test', 'COMMENT : generated', 'TYPE : CVRP', 'DIMENSION : %d' % (nj + 1), 'EDGE_WEIGHT_TYPE : EUC_2D',
                 'CAPACITY : 1000', 'NODE_COORD_SECTION']
        lines += ['%d %d %d' % (i + 1, pts[i][0], pts[i][1]) for i in range(nj + 1)]
        lines += ['DEMAND_SECTION', '1 0'] + ['%d 1' % (i + 2) for i in range(nj)] + ['DEPOT_SECTION', '1', '-1', 'EOF']
    sols = []
    for _ in range(rng.range(2, 4)):
        sols.append([[i, rng.below(min(nv, 3))] for i in rng.shuffle(range(nj)) if not rng.chance(1, 5)])
    sols.append([[i, 0] for i in range(nj)])
    sols.append([[i, i % 2] for i in range(nj)])
    if rng.chance(1, 3):
        sols.append([])
    if rng.chance(1, 3):
        sols.append(list(sols[0]))
    sols = sols[:6]
    return {'sci': {'fmt': fmt, 'text': '\n'.join(lines) + '\n'}, 'solutions': sols, 'paths': SCI_PATHS,
            'pairs': [[i, j] for i in range(len(sols)) for j in range(i + 1, len(sols))]}


def generate(rng, tier, n):
    cases = []
    for _ in range(n):
        if rng.chance(1, 8):
            cases.append(gen_sci(rng))
            continue
        nv, nj = rng.range(1, 3), rng.range(2, 4)
        m = nv + nj
        d, t = matrix(rng, m, nv, rng.chance(1, 2))
        default = rng.chance(1, 7)
        with_value = rng.chance(1, 3) if default else rng.chance(1, 5)
        with_order = (not default) and rng.chance(1, 8)
        c = {'vehicles': nv, 'jobs': nj,
             'values': [rng.range(1, 9) if with_value and (i == 0 or rng.chance(1, 2)) else 0 for i in range(nj)],
             'orders': [rng.range(1, 3) if with_order and (i == 0 or rng.chance(1, 2)) else 0 for i in range(nj)],
             'returns': [1 if rng.chance(1, 2) else 0 for _ in range(nv)],
             'durations': [rng.choice([0, 10, 300]) for _ in range(nj)],
             'costs': [[rng.choice([0, 0, 10, 1000]), rng.choice([1, 1, 2]), rng.choice([0, 0, 1])] for _ in range(nv)],
             'objectives': None if default else gen_objectives(rng, with_value, with_order),
             'times': t, 'distances': d, 'paths': PATHS}
        sols = []
        for _ in range(rng.range(3, 5)):
            jobs = rng.shuffle(range(nj))
            if with_order:
                jobs.sort(key=lambda i: c['orders'][i] or 99)      # appended in order: the soft order objective is then 0 or small
            sols.append([[i, rng.below(nv)] for i in jobs if not rng.chance(1, 5)])
        if nv >= 2:
            jobs = list(range(nj))
            sols.append([[i, 0] for i in jobs])                    # one long tour ...
            sols.append([[i, i % nv] for i in jobs])               # ... against several short ones
        if rng.chance(1, 3):
            sols.append([])
        if rng.chance(1, 3):
            sols.append(list(sols[0]))
        sols = sols[:6]
        c['solutions'] = sols
        c['pairs'] = [[i, j] for i in range(len(sols)) for j in range(i + 1, len(sols))]
        c['twin'] = twin_objectives(c['objectives'])
        c['moves'] = gen_moves(rng, sols, nj, nv)
        cases.append(c)
    return cases


def twin_objectives(objs):
    """the same objectives, every multi-objective replaced by its (plain) inner objectives as single layers"""
    if objs is None:
        return None
    out = []
    for o in objs:
        if o['type'] == 'multi-objective':
            out += [i for i in o['objectives'] if i['type'] != 'multi-objective']
        else:
            out.append(o)
    return out


def gen_moves(rng, sols, nj, nv, n=3):
    """[solution, job, vehicle]: the job is unassigned in the solution"""
    cand = []
    for si, sol in enumerate(sols):
        used = {j for j, _ in sol}
        for j in range(nj):
            if j not in used:
                for v in range(nv):
                    cand.append([si, j, v])
    return rng.shuffle(cand)[:n]


def corpus():
    # the shape of the demo of seeded/C09-6: (tours, cost) = (1, large) against (2, small) inside a weighted-sum layer
    d = [0, 100000, 1, 2, 100001,
         100000, 0, 100001, 100002, 3,
         1, 100001, 0, 1, 100000,
         2, 100002, 1, 0, 100000,
         100001, 3, 100000, 100000, 0]
    base = {'vehicles': 2, 'jobs': 3, 'values': [0, 0, 0], 'orders': [0, 0, 0], 'returns': [0, 0], 'durations': [0, 0, 0],
            'costs': [[0, 1, 0], [0, 1, 0]], 'times': d, 'distances': d, 'paths': PATHS,
            'solutions': [[[0, 0], [1, 0], [2, 0]], [[0, 0], [1, 0], [2, 1]], [[0, 0]], []],
            'pairs': [[0, 1], [0, 2], [0, 3], [1, 2], [1, 3], [2, 3]]}
    out = []
    for st in ({'name': 'sum'}, {'name': 'weighted-sum', 'weights': [1.0, 1.0]}, {'name': 'weighted-sum', 'weights': [0.3, 10.0]},
               {'name': 'weighted-sum', 'weights': [0.1, 0.7]}):
        out.append(dict(base, objectives=[{'type': 'minimize-unassigned'},
                                          {'type': 'multi-objective', 'strategy': st,
                                           'objectives': [{'type': 'minimize-tours'}, {'type': 'minimize-cost'}]}]))
    out.append(dict(base, objectives=None))
    out.append(dict(base, objectives=[{'type': 'minimize-cost'}, {'type': 'minimize-tours'}, {'type': 'minimize-unassigned'}]))
    for c in out:
        c['twin'] = twin_objectives(c['objectives'])
        c['moves'] = [[2, 1, 0], [2, 2, 1], [3, 0, 1]]
    solomon = ('C101\n\nVEHICLE\nNUMBER     CAPACITY\n  2   1000\n\nCUSTOMER\n'
               'CUST NO.  XCOORD.   YCOORD.    DEMAND   READY TIME  DUE DATE   SERVICE   TIME\n\n'
               '    0  30  30  0  0  1000000  0\n    1  5  5  1  0  1000000  0\n    2  55  55  1  0  1000000  0\n    3  6  5  1  0  1000000  0\n')
    tsplib = ('NAME : test\nCOMMENT : c\nTYPE : CVRP\nDIMENSION : 4\nEDGE_WEIGHT_TYPE : EUC_2D\nCAPACITY : 1000\nNODE_COORD_SECTION\n'
              '1 30 30\n2 5 5\n3 55 55\n4 6 5\nDEMAND_SECTION\n1 0\n2 1\n3 1\n4 1\nDEPOT_SECTION\n1\n-1\nEOF\n')
    sols = [[[0, 0], [1, 0], [2, 0]], [[0, 0], [2, 0], [1, 1]], [[0, 0]], []]
    for fmt, text in (('solomon', solomon), ('tsplib', tsplib)):
        out.append({'sci': {'fmt': fmt, 'text': text}, 'solutions': sols, 'paths': SCI_PATHS,
                    'pairs': [[i, j] for i in range(4) for j in range(i + 1, 4)]})
    return out


# ---------------------------------------------------------------- model term
def encode_objectives(objs):
    """(tag, strategy, inner tags) triples of Model/GoalCtx.v :: pobj_of"""
    out = []
    for o in objs:
        if o['type'] != 'multi-objective':
            out.append((TAG[o['type']], None, []))
        else:
            st = None if o['strategy']['name'] == 'sum' else [bits(float(w)) for w in o['strategy']['weights']]
            out.append((-1, st, [-1 if i['type'] == 'multi-objective' else TAG[i['type']] for i in o['objectives']]))
    return out


def has_value(c):
    return any(v > 0 for v in c.get('values', []))


def paths_term(paths):
    return '[' + '; '.join('[' + '; '.join('(%d, %d)' % (h, d) for h, d in p) + ']' for p in paths) + ']'


def model_term(c, impl):
    if 'panic' in impl:
        return None
    if 'sci' in c:
        return '(run_sci %s %s %s %s, @nil (list Z))' % (
            'false' if c['sci']['fmt'] == 'tsplib' else 'true', paths_term(c['paths']), sols_term(impl), pairs_term(c, impl))
    if c['objectives'] is None:
        objs = 'None'
    else:
        objs = '(Some [' + '; '.join('(%s, %s, %s)' % (z(t), 'None' if s is None else '(Some %s)' % zlist(s), zlist(i))
                                     for t, s, i in encode_objectives(c['objectives'])) + '])'
    hv = 'true' if has_value(c) else 'false'
    # every literal is written once: (fun objs ps => ..) <objs> <paths> (a `let` chain makes Coq's elaboration blow up)
    return ('((fun (objs : option (list (Z * option (list Z) * list Z))) (ps : list (list (Z * Z))) => '
            '(run_reader objs %s ps %s %s, run_reader_est objs %s ps (%s : list (list Z)))) %s %s)' % (
                hv, sols_term(impl), pairs_term(c, impl), hv, '[' + '; '.join(zlist(e) for e in move_vectors(impl)) + ']',
                objs, paths_term(c['paths'])))


def sols_term(impl):
    return '([' + '; '.join(zlist([int(x) for x in f]) for f in impl.get('fit', [])) + '] : list (list Z))'


def pairs_term(c, impl):
    pairs = ['(%d, %d)' % (i, j) for i, j in c['pairs']] if 'fit' in impl else []
    return '([' + '; '.join(pairs) + '] : list (Z * Z))'


def expand(c, impl, model):
    """the model reports the orders per (pair, path) and the fitness vectors per (path, solution) once; the rows the harness
    observes are [orders; fitness a; fitness b] per (pair, path)"""
    orders, fits = model
    if 'fit' not in impl:
        return orders                      # a reader error: [[-1, code]]
    np_, ns = len(c['paths']), len(impl['fit'])
    per_path, pos = [], 0
    for q in range(np_):
        if pos < len(fits) and len(fits[pos]) == 2 and fits[pos][0] == -1 and not impl['fit']:
            per_path.append(None)
            pos += 1
        else:
            per_path.append(fits[pos:pos + ns])
            pos += ns
    out = []
    for pi, (i, j) in enumerate(c['pairs']):
        for q in range(np_):
            out += [orders[pi * np_ + q], per_path[q][i], per_path[q][j]]
    return out


def move_vectors(impl):
    """the estimates of the single objectives of every observed move (route level, then activity level when the job fits)"""
    out = []
    for m in impl.get('est', []):
        for lvl in m['single']:
            if lvl is not None:
                out.append([int(x) for x in lvl])
    return out


def move_rows(impl):
    """the estimates of the contexts, in the order of move_vectors x paths: [1, components..]"""
    out = []
    for m in impl.get('est', []):
        for k in (0, 1):
            if m['single'][k] is not None:
                for row in m['ctx']:
                    out.append([1] + [int(x) for x in row[k]])
    return out


def norm(obs):
    return [[int(x) for x in row] for row in obs]


def compare(c, impl, model):
    if 'panic' in impl:
        return 'implementation panicked: %s' % impl['panic']
    orders, fits, mest = model            # Coq prints ((orders, fits), estimates) as a flat triple
    model = expand(c, impl, (orders, fits))
    got = norm(impl['obs'])
    if 'err' not in impl:
        gest = move_rows(impl)
        if gest != mest:
            if len(gest) != len(mest):
                return 'estimates: %d rows observed, %d rows in the model' % (len(gest), len(mest))
            k = next(i for i in range(len(gest)) if gest[i] != mest[i])
            np_ = len(c['paths'])
            return 'estimate of move vector %d %s under path %s: impl %s model %s' % (
                k // np_, move_vectors(impl)[k // np_], c['paths'][k % np_], gest[k], mest[k])
    if got != model:
        if len(got) != len(model):
            return 'reader: impl %s (%s) model %s' % (got[:2], impl.get('err', ''), model[:2])
        k = next(i for i in range(len(got)) if got[i] != model[i])
        per = 3 * len(c['paths'])
        return 'pair %s path %s field %d: impl %s model %s' % (c['pairs'][k // per], c['paths'][(k % per) // 3], k % 3, got[k], model[k])
    return None


# ---------------------------------------------------------------- the property on the implementation's own answers
def multis(c):
    return [o for o in (c.get('objectives') or []) if o['type'] == 'multi-objective']


def ctx_name(c, path):
    """which goal a path of maybe_new calls ends at: 'main' or 'alternative' (a pragmatic context has the built-in alternative only)"""
    return 'alternative' if any(h for h, _ in path) else 'main'


def alt_label(c, path):
    """the alternative a path ends at: index 0 is the built-in heuristic goal, index 1 the goal the scientific readers configure"""
    last = [d for h, d in path if h][-1]
    return 'built-in-heuristic-goal' if last == 0 else 'configured-alternative-goal'


def single_only(c, path):
    return ctx_name(c, path) == 'alternative' or not multis(c)


def zk(b):
    b = int(b)
    if b in (0, SIGN):
        return 0
    return b if b < SIGN else -(b - SIGN) - 1


def strategy_label(c):
    ms = multis(c)
    if 'sci' in c:
        return 'scientific-' + c['sci']['fmt']
    if not ms:
        return 'single-layers' if c['objectives'] is not None else 'default-objectives'
    return '+'.join(sorted({'multi-' + m['strategy']['name'] for m in ms}))


def oracle(c, impl):
    if 'panic' in impl:
        return [{'class': 'reader-panic', 'what': 'reading / building / comparing panicked: ' + impl['panic']}]
    if 'err' in impl:
        return []
    v = []
    obs = impl['obs']
    np_ = len(c['paths'])
    lab = strategy_label(c)
    table = {}
    for pi, (i, j) in enumerate(c['pairs']):
        for qi, path in enumerate(c['paths']):
            (ab, ba, aa), fa, fb = obs[3 * (pi * np_ + qi):3 * (pi * np_ + qi) + 3]
            who = ctx_name(c, path)
            where = '%s/%s' % (who, lab if who == 'main' else alt_label(c, path))
            if aa != 0:
                v.append({'class': 'goal-refl/' + where, 'what': 'total_order(a,a) != Equal under the %s goal context' % who})
            if ab != -ba:
                v.append({'class': 'goal-antisym/' + where,
                          'what': 'total_order(a,b)=%d but total_order(b,a)=%d under the %s goal context (fitness %s vs %s)'
                                  % (ab, ba, who, [of_bits(int(x)) for x in fa], [of_bits(int(x)) for x in fb])})
            if single_only(c, path):
                ka, kb = [zk(x) for x in fa], [zk(x) for x in fb]
                lex = (ka > kb) - (ka < kb)
                if len(ka) != len(kb) or lex != ab:
                    v.append({'class': 'goal-lex/' + where,
                              'what': 'the %s goal context orders %d but the fitness vectors it reports compare %d (%s vs %s)'
                                      % (who, ab, lex, [of_bits(int(x)) for x in fa], [of_bits(int(x)) for x in fb])})
                table.setdefault(qi, {})[(i, j)] = ab
                table[qi][(j, i)] = ba
                table[qi][(i, i)] = 0
                table[qi][(j, j)] = 0
    # total preorder (transitivity) of every single-layer context on the solutions of the document
    n = len(c['solutions'])
    for qi, t in table.items():
        who = ctx_name(c, c['paths'][qi])
        bad = False
        for a in range(n):
            for b in range(n):
                for d in range(n):
                    if (a, b) in t and (b, d) in t and (a, d) in t:
                        if t[(a, b)] == t[(b, d)] and t[(a, d)] != t[(a, b)]:
                            bad = True
                        if t[(a, b)] == 0 and t[(a, d)] != t[(b, d)]:
                            bad = True
        if bad:
            v.append({'class': 'goal-trans/%s' % who, 'what': 'the %s goal context (single layers) is not transitive on the solutions' % who})
    return v


def layer_conflict(c, impl):
    """is there a pair whose objectives conflict inside a multi-objective layer (one better, one worse)?"""
    if 'fit' not in impl or not multis(c):
        return False
    pos, spans = 0, []
    for o in c['objectives']:
        if o['type'] == 'multi-objective':
            spans.append((pos, pos + len(o['objectives'])))
            pos += len(o['objectives'])
        else:
            pos += 1
    fit = [[zk(x) for x in f] for f in impl['fit']]
    for i, j in c['pairs']:
        for lo, hi in spans:
            sg = [(fit[i][k] > fit[j][k]) - (fit[i][k] < fit[j][k]) for k in range(lo, hi)]
            if 1 in sg and -1 in sg:
                return True
    return False


def nontrivial_key(c, impl):
    if 'panic' in impl or 'err' in impl:
        return None
    np_ = len(c['paths'])
    if any(impl['obs'][3 * pi * np_][0] != 0 for pi in range(len(c['pairs']))):
        return ('reader', str(c.get('objectives')), tuple(c.get('distances', [])), str(c.get('sci')), str(c['solutions']))
    return None


def classify(c, impl):
    labs = ['doc=' + strategy_label(c)]
    if 'panic' in impl:
        return labs + ['panic']
    if 'err' in impl:
        return labs + ['reader-error=%s' % impl['obs'][0][1]]
    if layer_conflict(c, impl):
        labs.append('pair-conflicting-inside-multi-layer')
    if impl.get('est'):
        labs.append('estimates:' + ('multi-layer' if multis(c) else 'single-layers'))
        if any(m['single'][1] is not None for m in impl['est']):
            labs.append('estimates:activity-level')
    np_ = len(c['paths'])
    orders = {impl['obs'][3 * pi * np_][0] for pi in range(len(c['pairs']))}
    labs += ['main-order=%d' % o for o in sorted(orders)]
    return labs


def shrink_candidates(c):
    if len(c['pairs']) > 1:
        for p in c['pairs']:
            yield dict(c, pairs=[p])
    if len(c['paths']) > 1:
        for p in c['paths']:
            yield dict(c, paths=[p])
