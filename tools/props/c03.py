"""C03 — reported schedule, load, distance and cost are reproducible (plugin for tools/verif.py; shared end-to-end oracle e2e.py).

cases      : generated pragmatic problems x configurations solved by the REAL solver (harness op "solve").
oracle     : the Coq checker Valid.replay_viol evaluated (vm_compute) on (problem, returned document): arrival / departure / load /
             cumulative distance per stop, per-tour statistic (distance, duration, driving / serving / waiting / break, cost =
             fixed + distance*cd + duration*ct), total = sum of tours, reported tag = tag of the place used; every group-R
             violation is an oracle violation (oracle_model).  Plus, on the raw result: Solution.cost of the core (get_total_cost)
             equals the reported total cost.
compare    : the Coq model of create_tour (Model/Writer.v), fed with the tour rebuilt from the document and the schedule of the
             Core update_schedules model, must write EXACTLY the document's stops (times, loads, distances, activities with the
             redundant time/location removed, tags as get_job_tag finds them) and statistics.
"""
import hashlib
import json
from props import e2e

ID = 'C03'
HARNESS = 'solve'
COQ_IMPORTS = 'From VRP Require Model.Routing. From VRP Require Import Base.Tac Model.Core Spec.Valid Spec.ValidTD Spec.ValidX Spec.ValidY Model.Writer.'
MODEL_TARGETS = ['theories/Spec/Valid.vo', 'theories/Spec/ValidTD.vo', 'theories/Spec/ValidX.vo', 'theories/Spec/ValidY.vo', 'theories/Model/Writer.vo']
MODEL_NEEDS_IMPL = True
SHARD = 24
SIZES = {'quick': 900, 'thorough': 6000, 'search': 1500}
_R4 = "; round-four features, each in about 1/3 of the problems and from its own forked random stream: 2-4 extra jobs with REPLACEMENT tasks (also mixed with pickups / services / shipments), REQUIRED breaks (exact time or offset interval, 1-2 per shift, on shifts without optional breaks and reloads; documents show them as break activities inside a stop or as stops without location), VICINITY CLUSTERING (plan.clustering with the vehicles' profile, visiting continue / return, serving original with parking 0-10, thresholds taken from the matrix, 3-5 extra single-task jobs at a pair of near locations; not together with breaks, reloads, errorCodes or general routing data)"
_R5 = '; round-five features, each from its own forked random stream: RECHARGE STATIONS in about 1/3 of the problems without required breaks / clustering (recharges.maxDistance = the length of a random 2-4 leg walk from the shift start, so that tours exactly at the limit occur; 1-3 stations per shift with location, duration 0-15, sometimes a time window / tag; combined with reloads, optional breaks, capacity dimensions, errorCodes, general routing data), SHARED RELOAD RESOURCES in about 2/3 of the problems with reloads (fleet.resources with 1-2 small capacity vectors, resourceId on about 3/4 of the reloads of all shifts), REQUIRED breaks on shifts that also have reloads in about half of the remaining problems with reloads (start.latest = start.earliest); plus n/60 >= 10 cases of the moved-departure family (one vehicle whose shift start has no latest, exact-time required breaks that are over before any job window opens: the solver departs after them and nothing of them may be reported)'
RULE = ('cases: generated pragmatic problems (3-10 jobs incl. multi jobs, 1-2 places with equal or different locations / durations '
        '/ tags, 1-2 windows; 1-3 vehicle types, open and closed ends, start latest, integer fixed/distance/time prices incl. 0; '
        'metric and non-metric integer matrices with zero-distance location pairs' + _R4 + _R5 + ') x 3 configurations each. non-trivial = distinct '
        '(problem, document) with a tour that has waiting time, a stop with several activities, or two tours.')
TRUSTED = ['rendering of the JSON documents into the reduced Coq types (tools/props/e2e.py); times are RFC3339 strings on whole '
           'seconds mapped to integer seconds',
           'the tour handed to the writer model is REBUILT from the document (Valid.rebuild: activity -> job task place by '
           'location, duration, time) and scheduled by the Core model of update_schedules; the real Route is not dumped']
ASSUMPTIONS = ['integer-valued matrices, durations, times and prices: every f64 operation and `as i64` of the writer is exact, so '
               'equality is exact and the one-unit rounding allowance of the statement is not needed',
               'recharge stops are replayed like job activities (ValidY.replay5: station duration = serving time); tours with recharge stops, '
               'reloads or optional breaks and problems with general routing data (several '
               'profiles, integer scale, time-dependent matrices with integer slopes) are covered by the independent replay only (the '
               'writer model has none of them)',
               'required breaks (ValidX.replay4): the break intervals a tour reports are inputs of the replay like the visiting order; the '
               'schedule is replayed around them (adv: driving and working only outside them), two moments with nothing but break time '
               'in between compare as equal, waiting = arrival-to-start time outside the breaks (the times are a split of the duration)',
               'vicinity clustering (ValidX.replay_tour_cl, for a tour with a clustered stop): clustering.profile = the vehicles\' profile, '
               'serving original; checked: the driver\'s walk through every stop (parking, commutes against the matrix, stop departure), '
               'the legs between consecutive stop locations, loads, the statistic incl. commuting / parking with waiting = the rest of '
               'the duration; NOT replayed for such a tour: activity-by-activity arrival times against time windows and the place tags; '
               'the writer model covers neither required breaks nor clustering']


def generate(rng, tier, n):
    # plus a small family (own forked stream; the other cases are unchanged): required breaks by EXACT time early in a shift whose
    # departure the solver moves later (no start.latest, first jobs far / late)
    return e2e.gen_cases(rng, n, per_problem=3, allow=e2e.ALLOW_E2E) \
        + e2e.gen_moved_departure_break_cases(rng.fork('moved-departure-break'), max(10, n // 60))


def _sol(impl):
    return impl.get('solution') if e2e.outcome(impl) == 'solution' else None


def model_term(c, impl):
    s = _sol(impl)
    if s is None or e2e.unsupported(c, s):
        return None
    ids = e2e.Ids(c)
    # R = None: the classic fragment (replay_viol_x None = Valid.replay_viol); otherwise the departure-dependent replay of
    # Spec/ValidTD.v over the C16 provider model (several profiles, scale, time-dependent matrices)
    # problems with round-four features (required breaks ...): ValidX.replay4, the same replay around the reserved times
    return ('(let R := %s in let P := %s in let S := %s in '
            '(precond_viol P ++ %s, run_writer_enc P S, %s))') % (
        e2e.g_routing(c, ids), e2e.g_problem(c, ids), e2e.g_solution(c, s, ids), e2e.term_R(c, s, ids), e2e.term_span(c, s, ids))


# ---- the real document in the encoding of Writer.enc_tour
def _stat(st):
    t = st['times']
    return [int(st['cost']), st['distance'], st['duration'], t['driving'], t['serving'], t['waiting'], t['break']]


def _enc_doc_tour(ids, t):
    stops = []
    for s in t['stops']:
        acts = []
        for a in s['activities']:
            kind = e2e.KIND.get(a.get('type'), 99)
            acts.append((ids.job(a['jobId']) if kind in (0, 1, 2, 3) else -1, kind,
                         [] if a.get('location') is None else [a['location']['index']],
                         [] if a.get('time') is None else [e2e.secs(a['time']['start']), e2e.secs(a['time']['end'])],
                         [] if a.get('jobTag') is None else [ids.tag(a['jobTag'])]))
        stops.append((s['location']['index'], e2e.secs(s['time']['arrival']), e2e.secs(s['time']['departure']),
                      (s['load'] or [0])[0], s['distance'], acts))
    return stops, _stat(t['statistic'])


def _norm(x):
    if isinstance(x, (list, tuple)):
        return [_norm(y) for y in x]
    return x


def compare(c, impl, model):
    s = _sol(impl)
    if s is None or e2e.unsupported(c, s):
        return None
    if e2e.general_routing(c):
        # Model/Writer.v is the writer over ONE time-independent matrix: documents of problems with several profiles / scale /
        # time-dependent matrices are covered by the independent replay (Spec/ValidTD.v) only
        return None
    tours, total = model[1]
    ids = e2e.Ids(c)
    if len(tours) != len(s['tours']):
        return 'writer model: %d tours, document: %d' % (len(tours), len(s['tours']))
    skipped = False
    for k, (mt, dt) in enumerate(zip(tours, s['tours'])):
        if any(a.get('type') == 'recharge' for st in dt['stops'] for a in st['activities']):
            skipped = True                # recharge stops: ValidY.replay5 only (Model/Writer.v has no recharge activity)
            continue
        if not mt:
            continue                      # the tour cannot be rebuilt: reported by the oracle (RNoReplay)
        if e2e.tour_has_cluster(dt):
            skipped = True                # clustered stops: ValidX.replay_tour_cl only, the writer model has no commute / parking
            continue
        if e2e.tour_required_breaks(c, dt):
            # a shift with REQUIRED breaks: the reserved time stretches legs and activities (and may be taken without being
            # reported, findings C03-F5 / C01-F6): covered by the independent replay around the reserved times (ValidX.replay4) only
            skipped = True
            continue
        if any(a.get('type') in ('reload', 'break') for st in dt['stops'] for a in st['activities']):
            # Model/Writer.v has no reload intervals (loads are reset at a reload): such tours are covered by the independent
            # replay (oracle_model: replay_viol with Spec/Intervals.v loads) only, not by the writer-model correspondence
            skipped = True
            continue
        mstops, mstat = _norm(mt[0])
        dstops, dstat = _norm(_enc_doc_tour(ids, dt))
        if mstat != dstat:
            return 'tour %d statistic: writer model %s, document %s' % (k, mstat, dstat)
        if mstops != dstops:
            for i, (a, b) in enumerate(zip(mstops, dstops)):
                if a != b:
                    return 'tour %d stop %d: writer model %s, document %s' % (k, i, a, b)
            return 'tour %d: writer model has %d stops, document %d' % (k, len(mstops), len(dstops))
    if not skipped and _norm(total) != _stat(s['statistic']):
        return 'total statistic: model sum %s, document %s' % (total, _stat(s['statistic']))
    return None


CLASS = {'RNoReplay': 'tour-not-replayable', 'RArrival': 'arrival-not-reproducible', 'RDeparture': 'departure-not-reproducible',
         'RStopDeparture': 'stop-departure-differs-from-last-activity', 'RActLocation': 'activity-location-differs-from-stop',
         'RLoad': 'load-not-reproducible', 'RLoadDim': 'load-not-reproducible-in-extra-dimension', 'RDistance': 'distance-not-reproducible', 'RTag': 'tag-mismatch',
         'RStatDistance': 'statistic-distance', 'RStatDuration': 'statistic-duration', 'RStatDriving': 'statistic-driving',
         'RStatServing': 'statistic-serving', 'RStatWaiting': 'statistic-waiting', 'RStatBreak': 'statistic-break',
         'RStatCost': 'statistic-cost', 'RTotal': 'total-is-not-sum-of-tours',
         'RParking': 'parking-not-reproducible', 'RCommute': 'commute-not-reproducible', 'RStopArrival': 'stop-arrival-not-reproducible',
         'RStatCommuting': 'statistic-commuting', 'RStatParking': 'statistic-parking'}


def _flat(tour):
    out = []
    for s in tour['stops']:
        for a in s['activities']:
            out.append((a, s))
    return out


def _tag_class(c, s, k, i):
    """structural class of a tag violation at activity i (flattened index, 0 = departure) of tour k"""
    try:
        flat = _flat(s['tours'][k])
        if e2e.tour_required_breaks(c, s['tours'][k]):
            # the checker's indices refer to the tour WITHOUT its required-break activities / transit stops (ValidX.strip_tour)
            flat = [x for x in flat if x[0].get('type') != 'break']
        a, stop = flat[i]
        if a.get('type') == 'break' and a.get('jobTag') is None:
            # finding C03-F3: create_tour resolves the offset interval of a break against `start.schedule.departure`, and inside a
            # reload interval `start` is the RELOAD activity, not the tour start: behind a reload the interval is shifted by the
            # reload's departure, get_job_tag finds no intersecting place and the tag is dropped
            tour = s['tours'][k]
            vt = e2e.vehicle_type_of(c, tour)
            brs = e2e.optional_breaks(vt['shifts'][tour.get('shiftIndex', 0)])
            if any(x.get('type') == 'reload' for x, _ in _flat(tour)[:i]) and \
                    any(e2e.break_is_offset(b) and any(pl.get('tag') is not None for pl in b['places']) for b in brs):
                return 'tag-of-offset-break-lost-behind-reload', 'break at activity %d of tour %d reported without tag: a tagged offset break of the shift taken behind a reload' % (i, k)
        job = next(j for j in c['problem']['plan']['jobs'] if j['id'] == a['jobId'])
        loc = (a.get('location') or stop['location'])['index']
        for kind, task in e2e.tasks_of(job):
            if kind != e2e.KIND.get(a['type']):
                continue
            here = [pl for pl in task['places'] if pl['location']['index'] == loc]
            if len(here) >= 2 and any(pl.get('tag') == a.get('jobTag') for pl in here):
                return 'tag-of-other-place-same-location', 'job %s: reported tag %r belongs to another place of the task at location %d' % (
                    a['jobId'], a.get('jobTag'), loc)
        return 'tag-mismatch', 'job %s: reported tag %r' % (a['jobId'], a.get('jobTag'))
    except Exception as e:  # noqa
        return 'tag-mismatch', 'tag violation at tour %d activity %d (%r)' % (k, i, e)


def _rb_class(c, s, t, cls, what):
    """structural classes of the required-break findings (tour index = t[1] for every per-tour constructor)"""
    name = t[0]
    if name == 'RTotal' or len(t) < 2 or not isinstance(t[1], int) or not 0 <= t[1] < len(s['tours']):
        return cls, what
    tour = s['tours'][t[1]]
    if e2e.tour_has_cluster(tour):
        # finding C03-F9: tours with clustered stops (vicinity clustering) - one class per rule, see notes/C03.md
        return 'clustered-tour:' + cls, what + ' (tour with a clustered stop)'
    if not e2e.tour_required_breaks(c, tour):
        return cls, what
    if e2e.rb_unreported_time(c, tour) > 0:
        # finding C03-F5 (= C01-F6): the writer moved a required break in front of a drive (TransitBreakMoved), counted it in
        # times.break and delayed the departure, but wrote no break activity: nothing around it can be replayed
        return ('schedule-around-required-break-counted-in-statistic-but-not-reported',
                what + ': the tour statistic counts %d s of break that no reported break activity covers' % e2e.rb_unreported_time(c, tour))
    if e2e.rb_missing_class(c, tour) == 'required-break-inside-last-activity-of-open-tour-not-reported':
        # finding C03-F8 (= C01-F7): on an open-end tour a required break that falls into the last activity is not written (and
        # not counted), although it stretches that activity: its end / the stop's departure / duration / cost cannot be replayed
        return ('schedule-around-required-break-inside-last-activity-of-open-tour-not-reported',
                what + ': open-end tour; a required break due at %s lies inside its last activity and is not reported' % (
                    e2e.rb_missing_breaks(c, tour),))
    if e2e.rb_two_on_one_span(c, tour):
        # finding C03-F6 (= C01-F9): only ONE reserved time is applied per leg / activity; with two required breaks inside one
        # leg or stop the second one does not stretch it
        return ('schedule-with-two-required-breaks-inside-one-leg-or-stop',
                what + ': two required breaks fall into the span %s of the tour; the solver reserves only the first' % (e2e.rb_two_on_one_span(c, tour),))
    ov = e2e.rb_waiting_overlap(c, tour)
    ex = e2e.rb_driving_excess(c, tour)
    if ov + ex > 0 and name in ('RStatWaiting', 'RStatCost', 'RStatDriving'):
        vt = e2e.vehicle_type_of(c, tour)
        st = tour['statistic']
        gross = e2e.gross_waiting(tour)
        ct, cd = int(vt['costs']['time']), int(vt['costs']['distance'])
        plain = int(vt['costs'].get('fixed') or 0) + st['distance'] * cd + st['duration'] * ct
        if name == 'RStatDriving' and ex > 0:
            # second shape of finding C03-F4: the break is charged as travel time of a zero-length leg AND as break
            return ('cost-and-driving-count-required-break-at-zero-length-leg-twice',
                    what + ': reported driving %d = matrix durations of the legs + %d s of a required break reported inside a stop' % (
                        st['times']['driving'], ex))
        if name == 'RStatCost' and ex > 0 and int(st['cost']) == plain + (ov + ex) * ct:
            return ('cost-and-driving-count-required-break-at-zero-length-leg-twice',
                    what + ': reported cost %s = fixed + distance*cd + duration*ct + %d*ct' % (st['cost'], ov + ex))
        if (name == 'RStatWaiting' and st['times']['waiting'] == gross) or (name == 'RStatCost' and int(st['cost']) == plain + ov * ct):
            # finding C03-F4
            return ('cost-and-waiting-count-required-break-taken-while-waiting-twice',
                    what + ': %d s of a required break lie inside waiting time; reported waiting %d = arrival-to-start sum, '
                    'reported cost %s = fixed + distance*cd + duration*ct + %d*ct' % (ov, st['times']['waiting'], st['cost'], ov))
    return cls, what


def _subset_sums(xs):
    out = {0}
    for x in xs:
        out |= {y + x for y in out}
    return out - {0}


def oracle(c, impl):
    if e2e.outcome(impl) == 'panic':
        msg = str((impl or {}).get('panic'))
        return [{'class': e2e.panic_class(c, msg), 'what': 'solving a valid problem panicked: %s' % msg[:300]}]
    s = _sol(impl)
    if s is None:
        return []
    u = e2e.unsupported(c, s)
    if u:
        return [{'class': 'document-outside-integer-fragment', 'what': u}]
    v = []
    # get_total_cost of the core solution vs the reported total
    if impl.get('core_cost') is not None and impl['core_cost'] != int(s['statistic']['cost']):
        cls = 'core-cost-differs-from-reported-cost'
        rbt = [t for t in s['tours'] if e2e.tour_required_breaks(c, t)]
        extra = [(e2e.rb_waiting_overlap(c, t) + e2e.rb_driving_excess(c, t)) * int(e2e.vehicle_type_of(c, t)['costs']['time'])
                 for t in s['tours'] if e2e.tour_required_breaks(c, t) and e2e.vehicle_type_of(c, t)]
        if any(e2e.tour_has_cluster(t) for t in s['tours']):
            cls = 'clustered-tour:core-cost-differs-from-reported-cost'                               # C03-F9
        elif any(e2e.rb_unreported_time(c, t) > 0 for t in rbt):
            cls = 'schedule-around-required-break-counted-in-statistic-but-not-reported'              # C03-F5
        elif any(e2e.rb_missing_class(c, t) == 'required-break-inside-last-activity-of-open-tour-not-reported' for t in rbt):
            cls = 'schedule-around-required-break-inside-last-activity-of-open-tour-not-reported'     # C03-F8
        elif any(e2e.rb_two_on_one_span(c, t) for t in rbt):
            cls = 'schedule-with-two-required-breaks-inside-one-leg-or-stop'                          # C03-F6
        elif isinstance(impl['core_cost'], int) and impl['core_cost'] > int(s['statistic']['cost']) and \
                impl['core_cost'] - int(s['statistic']['cost']) in _subset_sums(e2e.rb_cost_of_breaks_before_departure(c, s)):
            # NOT a known finding (movable departure + required break, which break.md excludes): Solution.cost still charges a required break that lay inside the tour BEFORE the departure-time
            # optimisation moved the departure past it; the written tour (rightly) no longer contains it
            cls = 'core-cost-charges-required-break-that-lies-before-the-advanced-departure'
        elif extra and isinstance(impl['core_cost'], int) and int(s['statistic']['cost']) - impl['core_cost'] == sum(extra) > 0:
            # finding C03-F4: a required break taken while the vehicle waits is charged as waiting AND as break
            cls = 'cost-and-waiting-count-required-break-taken-while-waiting-twice'
        v.append({'class': cls,
                  'what': 'Solution.cost %s, reported statistic.cost %s' % (impl['core_cost'], s['statistic']['cost'])})
    return v


def oracle_model(c, impl, model):
    s = _sol(impl)
    if s is None or e2e.unsupported(c, s):
        return []
    out = []
    for t in e2e.coq_viols(model[0], 'P'):
        if t[0] == 'PRouting':
            out.append({'class': 'routing-value-missing-or-not-integer',
                        'what': 'PRouting %s: general routing data outside the exact fragment (generator / provider model)' % list(t[1:])})
    for k, start in [tuple(x) for x in (model[2] if len(model) > 2 else None) or []]:
        # ValidY.break_span_viols: a required break the tour reports begins before the tour departs (seeded change C03-6: the writer
        # measuring the tour from the shift's earliest start instead of the departure)
        out.append({'class': 'required-break-reported-before-the-tour-departs',
                    'what': 'tour %d reports a required break that begins at %s, before its departure: the break is not part of the tour '
                            '(duration and cost are counted from the departure), yet it is reported and counted in times.break' % (k, e2e.rfc(start))})
    for t in e2e.coq_viols(model[0], 'R'):
        name = t[0]
        if name == 'RTag':
            cls, what = _tag_class(c, s, t[1], t[2])
        else:
            cls, what = CLASS.get(name, name), '%s %s' % (name, list(t[1:]))
            cls, what = _rb_class(c, s, t, cls, what)
        out.append({'class': cls, 'what': what})
    return out


def _features(s):
    waiting = any(t['statistic']['times']['waiting'] > 0 for t in s['tours'])
    multi = any(len([a for a in st['activities'] if a['type'] not in ('departure', 'arrival')]) > 1
                for t in s['tours'] for st in t['stops'])
    return waiting, multi


def nontrivial_key(c, impl):
    s = _sol(impl)
    if s is None or not s['tours']:
        return None
    waiting, multi = _features(s)
    if not (waiting or multi or len(s['tours']) > 1):
        return None
    h = hashlib.sha256(json.dumps(c['problem'], sort_keys=True).encode()).hexdigest()[:12]
    return (h, json.dumps(s['tours'], sort_keys=True)[:4000])


def classify(c, impl):
    labs = ['result=' + e2e.outcome(impl)]
    s = _sol(impl)
    if e2e.general_routing(c):
        labs.append('general-routing')
        stamps = sorted(e2e.secs(m['timestamp']) for m in c['matrices'] if m.get('timestamp'))
        if stamps:
            labs.append('time-dependent-matrices')
            if s is not None and any(e2e.secs(st['time']['departure']) >= stamps[1] for t in s['tours'] for st in t['stops'][:-1]):
                labs.append('leg-departs-at-or-after-a-later-timestamp')
        if len(c['problem']['fleet'].get('profiles') or []) > 1:
            labs.append('two-profiles')
        if any((vt.get('profile') or {}).get('scale') not in (None, 1) for vt in c['problem']['fleet']['vehicles']):
            labs.append('scaled-profile')
    if s is not None:
        waiting, multi = _features(s)
        labs += ['tours=%d' % len(s['tours']), 'waiting=%s' % ('yes' if waiting else 'no'),
                 'multi-activity-stop=%s' % ('yes' if multi else 'no')]
        if any(a.get('jobTag') is not None for t in s['tours'] for st in t['stops'] for a in st['activities']):
            labs.append('tags-reported')
        if any(st['activities'][-1]['type'] != 'arrival' for t in s['tours'] for st in t['stops'][-1:]):
            labs.append('open-end-tour')
        if any(len(st['activities']) > 1 for t in s['tours'] for st in t['stops'][:1]):
            labs.append('job-at-start-location')
    labs += e2e.feature4_labels(c, s)
    if e2e.outcome(impl) == 'panic':
        labs.append('panic=' + e2e.panic_class(c, str((impl or {}).get('panic'))))
    return labs


def shrink_candidates(c):
    from props import c02
    return c02.shrink_candidates(c)


MANIFEST_TEXT = ('Machine-checked proof (Coq, no axioms) over an executable model of solution_writer.rs create_tour (the fold over a '
                 'route without breaks/reloads/commute) and get_total_cost: the statistic it writes has distance, driving and serving '
                 'equal to the independent replay from the matrix and the visiting order; duration = driving + serving + waiting + break '
                 'and cost = fixed + distance*cd + duration*ct = InsertionContext::get_total_cost for every schedule produced by the '
                 'update_schedules model; activity intervals are [max(arrival, window start), + service]; the total is the field-wise sum '
                 'of the tours. The replay checker Valid.replay_viol runs inside Coq on every document the real solver returns for '
                 'generated problems x configurations; the writer model must reproduce each document exactly (stops, loads, distances, '
                 'redundant-field removal, tags, statistics).')
MANIFEST_NOTE = ('Trusted: Coq kernel + vm_compute; JSON->Gallina rendering; harness; the tour is rebuilt from the document. Integer data => '
                 'exact equality. Grouping into stops: proved to be the forward grouping of the activities (first arrival, last departure / load, '
                 'distance when reached); its equality with the checker\'s per-stop replay is validated on every case. Known '
                 'finding: jobTag is the tag of the first tagged place at the location, not of the place used (duration ignored).')
MANIFEST_TECHNIQUE = 'Coq proof over executable writer model + verified replay checker run on real solver output + exact model/document diff'
