"""C20 — insertion cost estimates equal true objective changes for additive objectives."""
from coqterm import z, zlist, lst, nat
from props import corelib as K
from props.corelib import tz, INF

ID = 'C20'
HARNESS = 'c20'
COQ_IMPORTS = 'From VRP Require Import Base.Tac Model.Core Spec.Feasible Model.Eval Model.Objectives.'
MODEL_TARGETS = ['theories/Model/Eval.vo']
MODEL_NEEDS_IMPL = True
SHARD = 60
SUBSTREAMS = ['c20_wide', 'c20_sel']
SIZES = {'quick': 700, 'thorough': 10000, 'search': 5000}
RULE = ('cases: a target vehicle with a tour of 0-5 activities (empty tour = route taken from the registry), 0-1 other routes, '
        '0-2 ignored jobs and 0-2 other required jobs, goal layers [unassigned, tours, cost], [unassigned, tours, distance], '
        '[unassigned, value, distance] or [unassigned, value, cost] (values on the candidate and on about half of the jobs already in tours); '
        'uniform time cost rates in 3 of 4 cases; the candidate is a single job (boundary-targeted or random windows) or, in 1 of 4 cases, a '
        'pickup-and-delivery (multi) job whose two activities are placed by the real eval_multi. The quote of '
        'eval_job_insertion_in_route is compared layer by layer with fitness(recreate step with the insertion) - fitness(recreate step '
        'without it), both produced by the real InsertionHeuristic::process. non-trivial = distinct cases where the insertion succeeded.')
TRUSTED = ['time-independent routing; SimpleActivityCost; parent stream: driver costs zero (as the pragmatic format produces), one place / window '
           'per sub-job of a multi job; sub-stream c20_wide: driver with costs, alternative places / windows, permutations of sub-jobs']
ASSUMPTIONS = ['cost layer equality is claimed only for uniform time cost rates and tours without waiting before and after (as the property states); '
               'for a multi job also every intermediate shadow tour must be free of waiting',
               'the unassigned count is taken at hand-over (after finalize moves pending jobs to unassigned), see notes/C20.md']

VALUE_GOALS = ('unassigned+value+distance', 'unassigned+value+cost')


def generate(rng, tier, n):
    cases = []
    for k in range(n):
        w = K.gen_world(rng)
        if rng.chance(3, 4):
            ct = rng.range(0, 3)
            w['veh']['costs'][2:] = [ct, ct, ct]
        nowait = rng.chance(1, 2)
        tour = K.gen_tour(rng, w, tight=False)
        if nowait:
            for a in tour:
                a['tws'] = 0
        c = dict(w)
        c['tour'] = tour
        c['goal'] = rng.choice(['unassigned+tours+cost', 'unassigned+tours+cost', 'unassigned+tours+distance',
                                'unassigned+value+distance', 'unassigned+value+cost'])
        if rng.chance(1, 4):
            j = K.gen_multi(rng, w, tour)
            if rng.chance(1, 2):          # wide windows: both activities usually fit, often with other stops between them
                for s in j['multi']:
                    for p in s['places']:
                        p['tws'] = [[0, 'inf']]
        else:
            j = K.gen_boundary_single(rng, w, tour) if rng.chance(1, 2) else K.gen_single(rng, w, tour, multi_alt=rng.chance(1, 4))
        if nowait and rng.chance(3, 4):
            for s in j.get('multi', [j]):
                for p in s['places']:
                    p['tws'] = [[0, wn[1]] for wn in p['tws']]
        c['job'] = j
        others = []
        if rng.chance(1, 2):
            w2 = K.gen_world(rng)
            ov = w2['veh']
            ov['start'] = 0
            if ov['end'] is not None:
                ov['end'] = 0
            ot = K.gen_tour(rng, w, maxlen=3)
            if ot:
                others.append({'veh': ov, 'tour': [dict(a, job=a['job'] + 40) for a in ot]})
        c['others'] = others
        if c['goal'] in VALUE_GOALS:
            j['value'] = rng.range(0, 9)
            for a in tour + [a for o in others for a in o['tour']]:
                if rng.chance(1, 2):
                    a['value'] = rng.range(1, 9)
        c['ignored'] = rng.choice([0, 0, 0, 1, 2])
        c['extra_required'] = rng.choice([0, 0, 1, 2])
        cases.append(c)
    return cases


def corpus():
    # first insertion into an empty solution while ignored jobs exist (DESIGN.md 7.12)
    w = {'n': 3, 'dur': [0, 10, 10, 10, 0, 10, 10, 10, 0], 'dist': [0, 10, 10, 10, 0, 10, 10, 10, 0],
         'veh': {'start': 0, 'end': 0, 'shift_start': 0, 'shift_end': 'inf', 'cap': 10, 'costs': [5, 1, 1, 1, 1]}}
    c = dict(w, tour=[], goal='unassigned+tours+cost', others=[], ignored=2, extra_required=0,
             job={'id': 90, 'places': [{'loc': 1, 'svc': 0, 'tws': [[0, 'inf']]}], 'dem': [0, 0, 1, 0]})
    # a valued pickup-and-delivery job placed around an existing stop (its two activities are not adjacent afterwards)
    w2 = {'n': 4, 'dur': [0, 10, 20, 30, 10, 0, 10, 20, 20, 10, 0, 10, 30, 20, 10, 0], 'dist': [0, 10, 20, 30, 10, 0, 10, 20, 20, 10, 0, 10, 30, 20, 10, 0],
          'veh': {'start': 0, 'end': 0, 'shift_start': 0, 'shift_end': 'inf', 'cap': 10, 'costs': [5, 1, 1, 1, 1]}}
    sub = lambda i, loc, dem: {'id': i, 'places': [{'loc': loc, 'svc': 0, 'tws': [[0, 'inf']]}], 'dem': dem}
    c2 = dict(w2, tour=[{'job': 1, 'loc': 2, 'svc': 0, 'tws': 0, 'twe': 'inf', 'dem': [0, 0, 1, 0], 'value': 3}],
              goal='unassigned+value+distance', others=[], ignored=0, extra_required=0,
              job={'id': 95, 'multi': [sub(951, 1, [0, 2, 0, 0]), sub(952, 3, [0, 0, 0, 2])], 'value': 7})
    return [c, c2]


def is_multi(c):
    return 'multi' in c['job']


def steps_of(c, impl):
    subs = {('j%d' % s['id']): s for s in c['job']['multi']}
    out = []
    for a in impl['quote']['acts']:
        s = subs[a['job']]
        out.append('(%s, (%s, %s, %s, %s, %s, %s))' % (nat(a['index']), z(s['id']), z(a['loc']), z(tz(a['svc'])), z(tz(a['tws'])),
                                                      z(tz(a['twe'])), K.g_demand(s['dem'])))
    return '[' + '; '.join(out) + ']'


def model_term(c, impl):
    if is_multi(c):
        if 'panic' in impl or not impl['quote']['ok']:
            return None                       # eval_multi's search is not modelled; only its result is (as a certificate)
        return 'run_c20_multi %s %s %s' % (K.g_world(c), lst(c['tour'], K.g_tact), steps_of(c, impl))
    return 'run_c20 %s %s %s %s' % (K.g_world(c), lst(c['tour'], K.g_tact), K.g_single(c['job']),
                                    '0' if c['goal'].endswith('cost') else '1')


def canon_t(x):
    return 'inf' if x == 'inf' or (isinstance(x, int) and x >= INF // 2) else x


def model_quote(c, nums):
    tours_q, d0, d1, c0, c1, nw0, nw1, dq, cq = nums
    second = -c['job'].get('value', 0) if c['goal'] in VALUE_GOALS else tours_q
    return [-1, second, cq if c['goal'].endswith('cost') else dq]


def compare(c, impl, model):
    if 'panic' in impl:
        return 'implementation panicked: %s' % impl['panic']
    q = impl['quote']
    if is_multi(c):
        ok, nums, sched = model
        if ok != 1:
            return 'multi insertion certificate rejected by the model: some step does not pass the modelled evaluation'
        mq = model_quote(c, nums)
        if q['cost'] != mq:
            return 'quote vector (multi job): impl %s model %s' % (q['cost'], mq)
        if impl['inserted'] and impl['after'] is not None:
            isched = [[canon_t(a), canon_t(b)] for a, b in impl['after']['sched']]
            msched = [[canon_t(a), canon_t(b)] for a, b in sched]
            if isched != msched:
                return 'schedule after the multi insertion: impl %s model %s' % (isched, msched)
            if impl['after']['dist'] != nums[2]:
                return 'distance after: impl %s model %s' % (impl['after']['dist'], nums[2])
        return None
    res, nums, sched = model
    if q['ok']:
        if res[0] != 1:
            return 'impl success, model %s' % (res,)
        got = [q['index'], q['place'], q['loc'], canon_t(q['svc']), canon_t(q['tws']), canon_t(q['twe'])]
        exp = [canon_t(x) for x in res[1:7]]
        if got != exp:
            return 'insertion: impl %s model %s' % (got, exp)
        mq = model_quote(c, nums)
        if q['cost'] != mq:
            return 'quote vector: impl %s model %s' % (q['cost'], mq)
        if impl['inserted'] and impl['after'] is not None:
            isched = [[canon_t(a), canon_t(b)] for a, b in impl['after']['sched']]
            msched = [[canon_t(a), canon_t(b)] for a, b in sched]
            if isched != msched:
                return 'schedule after insertion: impl %s model %s' % (isched, msched)
            if impl['after']['dist'] != nums[2]:
                return 'distance after: impl %s model %s' % (impl['after']['dist'], nums[2])
    else:
        if res[0] != 0 or [q['code'], 1 if q['stopped'] else 0] != list(res[1:3]):
            return 'impl failure %s model %s' % (q, res)
    return None


def shadow_tours(c, q):
    """the tour before, after each inserted activity (python twin of the shadow tours)"""
    t = K.full_tour(c, c['tour'])
    subs = {('j%d' % s['id']): s for s in c['job'].get('multi', [])}
    out = [t]
    for a in q['acts']:
        dem = subs[a['job']]['dem'] if subs else (c['job']['dem'] or [0, 0, 0, 0])
        x = {'loc': a['loc'], 'svc': tz(a['svc']), 'tws': tz(a['tws']), 'twe': tz(a['twe']), 'dem': dem, 'term': False}
        t = t[:a['index'] + 1] + [x] + t[a['index'] + 1:]
        out.append(t)
    return out


def oracle(c, impl):
    if 'panic' in impl:
        return [{'class': 'panic', 'what': impl['panic']}]
    q = impl['quote']
    v = []
    if not q['ok']:
        if impl['inserted']:
            v.append({'class': 'inserted-without-quote', 'what': 'recreate step inserted a job the evaluator rejected'})
        return v
    if not impl['inserted']:
        return [{'class': 'quoted-not-inserted', 'what': 'evaluator quoted a success but the recreate step did not insert the job'}]
    kind = ' (multi job)' if is_multi(c) else ''
    fw, fo = impl['fit_with'], impl['fit_without']
    delta = [a - b for a, b in zip(fw, fo)]
    # layer 0: unassigned
    if delta[0] != q['cost'][0]:
        empty_before = (not c['tour']) and not c['others']
        cls = 'unassigned-ignored-counted-only-without-routes' if (empty_before and c['ignored'] > 0 and
                                                                      delta[0] == q['cost'][0] - c['ignored']) else 'unassigned-quote'
        v.append({'class': cls, 'what': 'unassigned objective changed by %s, quote %s%s' % (delta[0], q['cost'][0], kind)})
    if delta[1] != q['cost'][1]:
        name = 'value' if c['goal'] in VALUE_GOALS else 'tours'
        v.append({'class': name + '-quote', 'what': '%s objective changed by %s, quote %s%s' % (name, delta[1], q['cost'][1], kind)})
    if c['goal'].endswith('distance'):
        if delta[2] != q['cost'][2]:
            v.append({'class': 'distance-quote', 'what': 'distance objective changed by %s, quote %s%s' % (delta[2], q['cost'][2], kind)})
    else:
        costs = c['veh']['costs']
        uniform = costs[2] == costs[3] == costs[4]
        nowait = True
        for t in shadow_tours(c, q):
            _, _, s, _ = K.simulate(c, t)
            nowait = nowait and all(a['tws'] <= s[i][0] for i, a in enumerate(t) if i > 0)
        if uniform and nowait and delta[2] != q['cost'][2]:
            v.append({'class': 'cost-quote-nowait', 'what': 'cost objective changed by %s, quote %s (no waiting, uniform time cost)%s' % (delta[2], q['cost'][2], kind)})
    return v


def nontrivial_key(c, impl):
    if 'panic' in impl or not impl['quote']['ok']:
        return None
    return (str(c['tour']), str(c['job']), str(c['veh']), c['goal'])


def classify(c, impl):
    labs = ['goal=' + c['goal'], 'tour_len=%d' % len(c['tour']), 'ignored=%d' % c['ignored'], 'others=%d' % len(c['others']),
            'job=' + ('multi' if is_multi(c) else 'single')]
    if 'panic' not in impl:
        labs.append('quote=' + ('success' if impl['quote']['ok'] else 'failure'))
        if is_multi(c) and impl['quote']['ok'] and impl.get('after_jobs'):
            ids = ['j%d' % s['id'] for s in c['job']['multi']]
            pos = [i for i, j in enumerate(impl['after_jobs']) if j in ids]
            labs.append('multi_activities=' + ('adjacent' if len(pos) == 2 and pos[1] == pos[0] + 1 else 'separated'))
    return labs


MANIFEST_TEXT = ('Machine-checked proof (Coq): over the executable model of the objectives (minimize-unassigned with its ignored-jobs rule, '
                 'tours, total value, distance via estimate_leg, the cost objective via estimate_route/estimate_activity and get_total_cost) '
                 'the quote equals the realised change of the objective: unassigned (at hand-over), tours, value and distance for every tour, '
                 'position and matrix, distance also for multi-activity jobs (sum of the per-activity quotes on the shadow tours); cost for uniform '
                 'time rates when the tour has no waiting before and after. The model is tied to /repo on '
                 'every run: the quote of the real eval_job_insertion_in_route (single and pickup-delivery candidates, goals with tours or value as '
                 'second layer) and the fitness vectors of two real recreate steps (with / without the insertion) are compared with the model and '
                 'the equality is checked on the implementation output. Widened (sub-stream c20_wide, Model/ObjectivesX.v): the cost objective with '
                 'DRIVER costs next to the vehicle costs (quote = realised change when both have uniform time rates and no shadow tour has waiting; '
                 'the two fixed costs are quoted exactly when the insertion opens a new tour), and the whole search of eval_single / eval_multi '
                 '(every place x window of every sub-job on every leg of the shadow tours, MultiContext::promote over start indices and over the '
                 'allowed permutations, proved to terminate): a success carries exactly the activities whose estimates were summed, each a declared '
                 'place / window of its sub-job accepted by the constraint evaluation, hence quote = realised change for the returned activities; '
                 'the real result (quote vector, every activity: index, place index, location, duration, window), the tour after the real insertion '
                 'and the realised change are compared exactly with the modelled search on fleets built through the core API with driver costs. '
                 'Goal level (sub-stream c20_sel, Model/GoalSel.v): estimate and fitness of every additive-looking objective feature the default pragmatic goal can '
                 'contain (minimize-unassigned with any job estimator incl. the pragmatic break / cluster weights, min / max tours, arrival time, value with '
                 'job-only or actor-dependent read function, distance, duration, cost with driver and per-vehicle rates), Goal::estimate per layer order with '
                 'Sum / WeightedSum groups, the exhaustive evaluator over routes x jobs with vector costs (all exits of eval_job_insertion_in_route, '
                 'best_known_cost, evaluate_all under every schedule). Proved: the vector of realised changes of the layer values = the quoted vector for every '
                 'goal over unassigned / tours / value / distance (and cost without waiting), up to a candidate-independent shift (finding C20-F1); the CONSEQUENCE '
                 'clause: the selected insertion minimises the realised lexicographic change over ALL enumerated (job, tour, position, place, window) candidates - '
                 'unconditionally for one (route, job) pair, for the whole grid under C15\'s lower-bound hypothesis (metric matrix for the additive objectives), '
                 'refuted witness without it (prune-by-route-cost, C15-F1 = C20-F2); the cost clause is tight (witness with waiting), the quote is a LOWER bound '
                 'of the realised change under waiting and exact for a new tour / the last leg of an open tour (not with a driver paid for waiting: witness); '
                 'duration and arrival-time objectives are not additive (witnesses); time-dependent routing breaks the distance equality (witness over the C16 '
                 'provider model). Tied to /repo on every run by brute force: every accepted candidate is enumerated with the real goal.evaluate / goal.estimate and '
                 'carried out through a real recreate step; enumeration, cost vectors, selection and every fitness vector are compared with the model; the goal '
                 'built by the real pragmatic reader (break weights, value read function, multi-objective sum / weighted-sum) is compared on route level.')
MANIFEST_NOTE = ('Trusted: Coq kernel+vm_compute; harness/generators. Modelled not verified: time-dependent routing, work-balance / tour-compactness / '
                 'fast-service objectives (not additive; outside the statement); parent stream: the result of eval_multi is replayed as a certificate, sub-stream c20_wide: '
                 'the search itself is modelled (LegSelection::Exhaustive, BestResultSelector, InsertionPosition::Any, one target route with alternative = plain failure; '
                 'stochastic leg sampling, noise selectors and the comparison with a previous success of another route are not modelled). '
                 'Known findings: unassigned objective counts ignored jobs only while the solution has no routes (C20-F1); the consequence clause fails under the '
                 'route-cost prune of eval_job_insertion_in_route when an activity-level estimate is negative (C20-F2 = C15-F1).')
MANIFEST_TECHNIQUE = 'Coq proof (quote = objective delta, induction over tours) + vm_compute differential correspondence'
