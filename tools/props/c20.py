"""C20 — insertion cost estimates equal true objective changes for additive objectives."""
from coqterm import z, zlist, lst, nat
from props import corelib as K
from props.corelib import tz, INF

ID = 'C20'
HARNESS = 'c20'
COQ_IMPORTS = 'From VRP Require Import Base.Tac Model.Core Spec.Feasible Model.Eval Model.Objectives.'
MODEL_TARGETS = ['theories/Model/Eval.vo']
SHARD = 60
SIZES = {'quick': 600, 'thorough': 10000, 'search': 5000}
RULE = ('cases: a target vehicle with a tour of 0-5 activities (empty tour = route taken from the registry), 0-1 other routes, '
        '0-2 ignored jobs and 0-2 other required jobs, goal layers [unassigned, tours, cost] or [unassigned, tours, distance]; '
        'uniform time cost rates in 3 of 4 cases; the candidate is a single job (boundary-targeted or random windows). The quote of '
        'eval_job_insertion_in_route is compared layer by layer with fitness(recreate step with the insertion) - fitness(recreate step '
        'without it), both produced by the real InsertionHeuristic::process. non-trivial = distinct cases where the insertion succeeded.')
TRUSTED = ['time-independent routing; SimpleActivityCost; driver costs zero (as the pragmatic format produces)']
ASSUMPTIONS = ['cost layer equality is claimed only for uniform time cost rates and tours without waiting before and after (as the property states)',
               'the unassigned count is taken at hand-over (after finalize moves pending jobs to unassigned), see notes/C20.md']


def generate(rng, tier, n):
    cases = []
    for k in range(n):
        w = K.gen_world(rng)
        if rng.chance(3, 4):
            ct = rng.range(0, 3)
            w['veh']['costs'][2:] = [ct, ct, ct]
        nowait = rng.chance(1, 2)
        tour = K.gen_tour(rng, w, tight=False)
        if nowait:
            for a in tour:
                a['tws'] = 0
        c = dict(w)
        c['tour'] = tour
        c['goal'] = rng.choice(['unassigned+tours+cost', 'unassigned+tours+cost', 'unassigned+tours+distance'])
        j = K.gen_boundary_single(rng, w, tour) if rng.chance(1, 2) else K.gen_single(rng, w, tour, multi_alt=rng.chance(1, 4))
        if nowait and rng.chance(3, 4):
            for p in j['places']:
                p['tws'] = [[0, wn[1]] for wn in p['tws']]
        c['job'] = j
        others = []
        if rng.chance(1, 2):
            w2 = K.gen_world(rng)
            ov = w2['veh']
            ov['start'] = 0
            if ov['end'] is not None:
                ov['end'] = 0
            ot = K.gen_tour(rng, w, maxlen=3)
            if ot:
                others.append({'veh': ov, 'tour': [dict(a, job=a['job'] + 40) for a in ot]})
        c['others'] = others
        c['ignored'] = rng.choice([0, 0, 0, 1, 2])
        c['extra_required'] = rng.choice([0, 0, 1, 2])
        cases.append(c)
    return cases


def corpus():
    # first insertion into an empty solution while ignored jobs exist (DESIGN.md 7.12)
    w = {'n': 3, 'dur': [0, 10, 10, 10, 0, 10, 10, 10, 0], 'dist': [0, 10, 10, 10, 0, 10, 10, 10, 0],
         'veh': {'start': 0, 'end': 0, 'shift_start': 0, 'shift_end': 'inf', 'cap': 10, 'costs': [5, 1, 1, 1, 1]}}
    c = dict(w, tour=[], goal='unassigned+tours+cost', others=[], ignored=2, extra_required=0,
             job={'id': 90, 'places': [{'loc': 1, 'svc': 0, 'tws': [[0, 'inf']]}], 'dem': [0, 0, 1, 0]})
    return [c]


def model_term(c):
    return 'run_c20 %s %s %s %s' % (K.g_world(c), lst(c['tour'], K.g_tact), K.g_single(c['job']),
                                    '0' if c['goal'].endswith('cost') else '1')


def canon_t(x):
    return 'inf' if x == 'inf' or (isinstance(x, int) and x >= INF // 2) else x


def compare(c, impl, model):
    if 'panic' in impl:
        return 'implementation panicked: %s' % impl['panic']
    res, nums, sched = model
    q = impl['quote']
    if q['ok']:
        if res[0] != 1:
            return 'impl success, model %s' % (res,)
        got = [q['index'], q['place'], q['loc'], canon_t(q['svc']), canon_t(q['tws']), canon_t(q['twe'])]
        exp = [canon_t(x) for x in res[1:7]]
        if got != exp:
            return 'insertion: impl %s model %s' % (got, exp)
        tours_q, d0, d1, c0, c1, nw0, nw1, dq, cq = nums
        mq = [-1, tours_q, cq if c['goal'].endswith('cost') else dq]
        if q['cost'] != mq:
            return 'quote vector: impl %s model %s' % (q['cost'], mq)
        if impl['inserted'] and impl['after'] is not None:
            isched = [[canon_t(a), canon_t(b)] for a, b in impl['after']['sched']]
            msched = [[canon_t(a), canon_t(b)] for a, b in sched]
            if isched != msched:
                return 'schedule after insertion: impl %s model %s' % (isched, msched)
            if impl['after']['dist'] != d1:
                return 'distance after: impl %s model %s' % (impl['after']['dist'], d1)
    else:
        if res[0] != 0 or [q['code'], 1 if q['stopped'] else 0] != list(res[1:3]):
            return 'impl failure %s model %s' % (q, res)
    return None


def oracle(c, impl):
    if 'panic' in impl:
        return [{'class': 'panic', 'what': impl['panic']}]
    q = impl['quote']
    v = []
    if not q['ok']:
        if impl['inserted']:
            v.append({'class': 'inserted-without-quote', 'what': 'recreate step inserted a job the evaluator rejected'})
        return v
    if not impl['inserted']:
        return [{'class': 'quoted-not-inserted', 'what': 'evaluator quoted a success but the recreate step did not insert the job'}]
    fw, fo = impl['fit_with'], impl['fit_without']
    delta = [a - b for a, b in zip(fw, fo)]
    # layer 0: unassigned
    if delta[0] != q['cost'][0]:
        empty_before = (not c['tour']) and not c['others']
        cls = 'unassigned-ignored-counted-only-without-routes' if (empty_before and c['ignored'] > 0 and
                                                                      delta[0] == q['cost'][0] - c['ignored']) else 'unassigned-quote'
        v.append({'class': cls, 'what': 'unassigned objective changed by %s, quote %s' % (delta[0], q['cost'][0])})
    if delta[1] != q['cost'][1]:
        v.append({'class': 'tours-quote', 'what': 'tours objective changed by %s, quote %s' % (delta[1], q['cost'][1])})
    if c['goal'].endswith('distance'):
        if delta[2] != q['cost'][2]:
            v.append({'class': 'distance-quote', 'what': 'distance objective changed by %s, quote %s' % (delta[2], q['cost'][2])})
    else:
        costs = c['veh']['costs']
        uniform = costs[2] == costs[3] == costs[4]
        t0 = K.full_tour(c, c['tour'])
        _, _, s0, _ = K.simulate(c, t0)
        x = {'loc': q['loc'], 'svc': tz(q['svc']), 'tws': tz(q['tws']), 'twe': tz(q['twe']), 'dem': c['job']['dem'], 'term': False}
        t1 = t0[:q['index'] + 1] + [x] + t0[q['index'] + 1:]
        _, _, s1, _ = K.simulate(c, t1)
        nowait0 = all(a['tws'] <= s0[i][0] for i, a in enumerate(t0) if i > 0)
        nowait1 = all(a['tws'] <= s1[i][0] for i, a in enumerate(t1) if i > 0)
        if uniform and nowait0 and nowait1 and delta[2] != q['cost'][2]:
            v.append({'class': 'cost-quote-nowait', 'what': 'cost objective changed by %s, quote %s (no waiting, uniform time cost)' % (delta[2], q['cost'][2])})
    return v


def nontrivial_key(c, impl):
    if 'panic' in impl or not impl['quote']['ok']:
        return None
    return (str(c['tour']), str(c['job']), str(c['veh']), c['goal'])


def classify(c, impl):
    labs = ['goal=' + c['goal'], 'tour_len=%d' % len(c['tour']), 'ignored=%d' % c['ignored'], 'others=%d' % len(c['others'])]
    if 'panic' not in impl:
        labs.append('quote=' + ('success' if impl['quote']['ok'] else 'failure'))
    return labs


MANIFEST_TEXT = ('Machine-checked proof (Coq): over the executable model of the objectives (minimize-unassigned with its ignored-jobs rule, '
                 'tours, total value, distance via estimate_leg, the cost objective via estimate_route/estimate_activity and get_total_cost) '
                 'the quote equals the realised change of the objective: unassigned (at hand-over), tours, value and distance for every tour, '
                 'position and matrix; cost for uniform time rates when the tour has no waiting before and after. The model is tied to /repo on '
                 'every run: the quote of the real eval_job_insertion_in_route and the fitness vectors of two real recreate steps (with / without the '
                 'insertion) are compared with the model and the equality is checked on the implementation output.')
MANIFEST_NOTE = ('Trusted: Coq kernel+vm_compute; harness/generators. Modelled not verified: time-dependent routing, work-balance / tour-compactness / '
                 'fast-service objectives (not additive; outside the statement), multi-jobs (quote = sum of per-activity quotes on the shadow tour: validated only). '
                 'Known finding: unassigned objective counts ignored jobs only while the solution has no routes.')
MANIFEST_TECHNIQUE = 'Coq proof (quote = objective delta, induction over tours) + vm_compute differential correspondence'
