"""C13 sub-stream c13_bind — do capacity and time windows of a problem READ FROM A SCIENTIFIC FILE bind exactly as the file says?

Python generates an abstract Solomon / Li&Lim / TSPLIB instance, prints it (as in c13.py), and a route:
  op "extend": a base route that IS feasible by the textbook definition (built greedily from the instance) plus one
               candidate (customer, or Li&Lim request = pickup then delivery) appended at the end.  The harness reads the text
               with the real reader, builds the base route in a RouteContext and asks the REAL constraints of the problem's
               own goal (eval_job_insertion_in_route, InsertionPosition::Last).
               oracle  : accepted  <=>  textbook feasibility of base ++ candidate, computed from the abstract instance
                         (for a Li&Lim request, whose sub-jobs the evaluator inserts one after the other: accepted => feasible, and
                         feasible with AND without the delivery => accepted)
               compare : accepted  <=>  Spec/Feasible.v on the tour of the problem the Coq model reads from the same
                         characters (run_bind: time / load verdicts of base and of base ++ candidate)
  op "solve" : a short run of the real Solver; every route of the result must be feasible by the textbook definition
               (oracle, incl. pickup-before-delivery on the same route for Li&Lim) and by the model (compare).  Which jobs stay
               unassigned is not judged (the solver is a heuristic).
Travel times are the rounded Euclidean distances (`--round`); unrounded instances are generated with all points on one
horizontal or vertical line, where the exact distance is an integer and both matrices coincide."""
from props import c13 as base

HARNESS = 'c13_bind'
COQ_IMPORTS = 'From VRP Require Import Base.Tac Model.Scientific Model.SciText Model.SciBind.\nFrom Coq Require Import String.'
MODEL_TARGETS = ['theories/Model/SciBind.vo']
SIZES = {'quick': 420, 'thorough': 4000, 'search': 2500}
SHARD = 100
RULE = ('cases: abstract instances as in the main stream (1-8 customers / 1-4 requests, demands near the capacity, windows '
        'near the arrival times), printed with random layout; 80% op extend: a textbook-feasible base route (0-5 stops) and one '
        'candidate appended at the end, tuned so that about half of the candidates are infeasible by exactly one unit of load '
        'or time (capacity = load, due date = arrival, depot due date = return time) - verdict of the real '
        'eval_job_insertion_in_route on the problem the real reader produced vs. the textbook verdict (oracle) and vs. '
        'Spec/Feasible.v on the model\'s problem (compare); 20% op solve: routes of a short real Solver run checked route by route. '
        'non-trivial = distinct (text, route) with a base of >= 1 stop.')
TRUSTED = ['textbook feasibility (Solomon VRPTW / Li&Lim PDPTW / CVRP) as written in tools/props/c13_bind.py::textbook; its Coq '
           'counterpart sol_route_ok / lil_route_ok / tsp_route_ok is proved equal to Spec/Feasible.v on the read problem',
           'the harness builds the base route with Tour::insert_last + GoalContext::accept_route_state (public API), as the other harnesses do']
ASSUMPTIONS = ['travel time = rounded Euclidean distance (integer); unrounded instances only with collinear points']


# ------------------------------------------------------------------ textbook feasibility on the abstract instance
def dist(a, b):
    return base.isqrt_round((a[0] - b[0]) ** 2 + (a[1] - b[1]) ** 2)


def stops_of(I, route):
    """route: list of stop keys -> list of dicts xy, s, e, srv, delta (load change), static (pre-loaded delivery)"""
    out = []
    if I['fmt'] == 'solomon':
        by = {c['id']: c for c in I['custs']}
        for k in route:
            c = by[k]
            out.append({'xy': (c['x'], c['y']), 's': c['s'], 'e': c['e'], 'srv': c['srv'], 'delta': -c['dem'], 'static': c['dem']})
    elif I['fmt'] == 'tsplib':
        by = {nd['id'] - 1: nd for nd in I['nodes']}
        for k in route:
            nd = by[k]
            out.append({'xy': (nd['x'], nd['y']), 's': 0, 'e': None, 'srv': 0, 'delta': -nd['dem'], 'static': nd['dem']})
    else:
        for kind, r in route:
            rq = I['reqs'][r]
            n = rq['p'] if kind == 'p' else rq['d']
            out.append({'xy': (n['x'], n['y']), 's': n['s'], 'e': n['e'], 'srv': n['srv'],
                        'delta': rq['q'] if kind == 'p' else -rq['q'], 'static': 0})
    return out


def depot_of(I):
    if I['fmt'] == 'tsplib':
        dn = [nd for nd in I['nodes'] if nd['id'] == I['depot']][0]
        return {'xy': (dn['x'], dn['y']), 's': 0, 'e': None}
    d = I['depot']
    return {'xy': (d['x'], d['y']), 's': d['s'], 'e': d['e']}


def textbook(I, route):
    """(time ok, load ok, arrivals, return time, loads) of the route by the textbook definition"""
    stops = stops_of(I, route)
    dep = depot_of(I)
    cap = I['cap']
    load = sum(s['static'] for s in stops)
    loads = [load]
    load_ok = load <= cap
    for s in stops:
        load += s['delta']
        loads.append(load)
        if load > cap:
            load_ok = False
    t, pos, time_ok, arrivals = dep['s'], dep['xy'], True, []
    for s in stops:
        arr = t + dist(pos, s['xy'])
        arrivals.append(arr)
        if s['e'] is not None and arr > s['e']:
            time_ok = False
        t = max(arr, s['s']) + s['srv']
        pos = s['xy']
    back = t + dist(pos, dep['xy'])
    if dep['e'] is not None and back > dep['e']:
        time_ok = False
    return time_ok, load_ok, arrivals, back, loads


def paired(route):
    """Li&Lim: every request on the route has its pickup exactly once, before its delivery exactly once"""
    seen = {}
    for kind, r in route:
        seen.setdefault(r, []).append(kind)
    return all(v == ['p', 'd'] for v in seen.values())


def key_ids(I, route):
    """job ids as the model sees them (Z): customer id / node id - 1 / node id of the Li&Lim sub-job 'c<id>'"""
    if I['fmt'] == 'lilim':
        return [I['reqs'][r]['p' if kind == 'p' else 'd']['id'] for kind, r in route]
    return list(route)


def impl_ids(I, route):
    return [('c%d' % x) if I['fmt'] == 'lilim' else str(x) for x in key_ids(I, route)]


# ------------------------------------------------------------------ generation
def collinear(rng, I):
    """put all points on one horizontal / vertical line (exact integer distances; rounded == unrounded)"""
    axis = rng.below(2)
    c0 = rng.range(-20, 20)

    def fix(n):
        if axis:
            n['x'] = c0
        else:
            n['y'] = c0
    if I['fmt'] == 'tsplib':
        for nd in I['nodes']:
            fix(nd)
    elif I['fmt'] == 'solomon':
        fix(I['depot'])
        for c in I['custs']:
            fix(c)
    else:
        fix(I['depot'])
        for r in I['reqs']:
            fix(r['p'])
            fix(r['d'])


def relax(rng, I):
    nodes = []
    if I['fmt'] == 'solomon':
        nodes = I['custs']
        total = sum(c['dem'] for c in I['custs'])
    elif I['fmt'] == 'lilim':
        nodes = [n for r in I['reqs'] for n in (r['p'], r['d'])]
        total = sum(r['q'] for r in I['reqs'])
    else:
        total = sum(nd['dem'] for nd in I['nodes'])
    I['cap'] = max(I['cap'], total + rng.below(3))
    for n in nodes:
        if rng.chance(3, 4):
            n['e'] = n['s'] + rng.range(2000, 4000)
    if I['fmt'] != 'tsplib':
        I['depot']['e'] = rng.range(6000, 9000)


def candidates(I):
    if I['fmt'] == 'solomon':
        return [c['id'] for c in I['custs']]
    if I['fmt'] == 'tsplib':
        return [nd['id'] - 1 for nd in I['nodes'] if nd['id'] != I['depot']]
    return list(range(len(I['reqs'])))


def ext(I, k):
    return [('p', k), ('d', k)] if I['fmt'] == 'lilim' else [k]


def gen_instance(rng, fmt):
    want = 1 if rng.chance(1, 5) else 3
    for _ in range(40):
        I = base.GEN[fmt](rng)
        ks = candidates(I)
        ids = base.job_ids_of(I) if fmt != 'lilim' else [n['id'] for r in I['reqs'] for n in (r['p'], r['d'])]
        if len(ks) >= want and len(set(ids)) == len(ids):
            # generous windows first; the tuning step tightens what should bind
            return I
    return None


def tune(rng, I, basert, k):
    """make the candidate's feasibility hinge on one unit: returns a label"""
    full = basert + ext(I, k)
    t_ok, l_ok, arrivals, back, loads = textbook(I, full)
    what = rng.below(7)
    if I['fmt'] == 'tsplib':
        what = rng.choice([0, 1, 6])
    if what == 0:                                  # capacity exactly reached
        peak = max(loads)
        if peak >= 0:
            I['cap'] = peak
            return 'cap=peak'
    elif what == 1:                                # one unit short
        peak = max(loads)
        if peak >= 1:
            I['cap'] = peak - 1
            return 'cap=peak-1'
    elif what in (2, 3):                           # due date of the last stop = its arrival (or one less)
        stops = stops_of(I, full)
        arr = arrivals[-1]
        tgt = arr if what == 2 else arr - 1
        if tgt >= stops[-1]['s'] and tgt >= 0:
            n = last_node(I, full)
            n['e'] = tgt
            return 'due=arrival' if what == 2 else 'due=arrival-1'
    elif what in (4, 5):                           # depot due date = return time (or one less)
        tgt = back if what == 4 else back - 1
        if tgt >= 0 and I['fmt'] != 'tsplib':
            I['depot']['e'] = tgt
            return 'depot-due=return' if what == 4 else 'depot-due=return-1'
    return 'untuned'


def last_node(I, route):
    if I['fmt'] == 'solomon':
        return [c for c in I['custs'] if c['id'] == route[-1]][0]
    kind, r = route[-1]
    return I['reqs'][r]['p' if kind == 'p' else 'd']


def make_extend(rng, fmt):
    I = gen_instance(rng, fmt)
    if I is None:
        return None
    rounded = rng.chance(3, 4)
    if not rounded:
        collinear(rng, I)
    # relax (2 of 3): wide windows / big capacity, so that what `tune` tightens afterwards is the one thing that decides;
    # then grow a feasible base greedily
    if rng.chance(2, 3):
        relax(rng, I)
    ks = rng.shuffle(candidates(I))
    basert = []
    maxlen = rng.choice([0, 1, 1, 2, 2, 3, 5])
    for k in ks[:-1]:
        if len(basert) >= maxlen * (2 if fmt == 'lilim' else 1):
            break
        trial = basert + ext(I, k)
        if fmt == 'lilim' and rng.chance(1, 3) and basert:
            # interleave: the pickup somewhere, the delivery somewhere after it
            i = rng.below(len(basert) + 1)
            j = rng.range(i, len(basert))
            trial = basert[:i] + [('p', k)] + basert[i:j] + [('d', k)] + basert[j:]
        t_ok, l_ok = textbook(I, trial)[:2]
        if t_ok and l_ok:
            basert = trial
    used = {(x[1] if fmt == 'lilim' else x) for x in basert}
    rest = [k for k in ks if k not in used]
    if not rest:
        return None
    k = rest[0]
    label = tune(rng, I, basert, k)
    # the tuning may have broken the base: keep only cases whose base is still feasible
    bt, bl = textbook(I, basert)[:2]
    if not (bt and bl):
        return None
    text = base.PRINT[fmt](rng, I, rng.chance(1, 4))
    return {'op': 'extend', 'fmt': fmt, 'text': text, 'rounded': rounded, 'inst': I, 'route': [list(x) if fmt == 'lilim' else x for x in basert],
            'k': k, 'base': impl_ids(I, basert), 'cand': str(k), 'tuned': label}


def make_solve(rng, fmt):
    I = gen_instance(rng, fmt)
    if I is None:
        return None
    rounded = rng.chance(3, 4)
    if not rounded:
        collinear(rng, I)
    text = base.PRINT[fmt](rng, I, rng.chance(1, 4))
    return {'op': 'solve', 'fmt': fmt, 'text': text, 'rounded': rounded, 'inst': I, 'generations': rng.choice([1, 5, 20])}


def generate(rng, tier, n):
    cases = []
    while len(cases) < n:
        fmt = rng.choice(['solomon', 'solomon', 'lilim', 'lilim', 'tsplib'])
        c = make_extend(rng, fmt) if rng.below(100) < 80 else make_solve(rng, fmt)
        if c is not None:
            cases.append(c)
    return cases


# ------------------------------------------------------------------ model side
FMT = {'solomon': 0, 'lilim': 1, 'tsplib': 2}
MODEL_NEEDS_IMPL = True


def route_of_ids(I, ids):
    """implementation job ids of a route -> stop keys of the abstract instance (None when an id is unknown)"""
    out = []
    if I['fmt'] == 'lilim':
        by = {}
        for r, rq in enumerate(I['reqs']):
            by['c%d' % rq['p']['id']] = ('p', r)
            by['c%d' % rq['d']['id']] = ('d', r)
        for x in ids:
            if x not in by:
                return None
            out.append(by[x])
        return out
    ks = set(candidates(I))
    for x in ids:
        try:
            v = int(x)
        except ValueError:
            return None
        if v not in ks:
            return None
        out.append(v)
    return out


def routes_for(c, impl):
    I = c['inst']
    if c['op'] == 'extend':
        basert = [tuple(x) if I['fmt'] == 'lilim' else x for x in c['route']]
        # [base, base + first activity of the candidate, base + candidate]; the middle one matters for a Li&Lim request:
        # eval_multi inserts the sub-jobs one after the other, the route with the pickup alone must itself be feasible
        return [basert, basert + ext(I, c['k'])[:1], basert + ext(I, c['k'])]
    if 'panic' in impl or impl.get('status') != 'ok':
        return []
    rs = [route_of_ids(I, r) for r in impl['routes']]
    return [r for r in rs if r is not None]


def model_term(c, impl):
    I = c['inst']
    rs = routes_for(c, impl)
    return 'run_bind %d %s %s' % (FMT[c['fmt']], base.coq_str(c['text']), '[' + '; '.join(base.zl(key_ids(I, r)) for r in rs) + ']')


def compare(c, impl, model):
    mstat, verdicts = model
    if 'panic' in impl:
        return 'impl panicked on a well-formed instance: %s (model status %d)' % (impl['panic'], mstat)
    if impl['status'] != 'ok' or mstat != 0:
        return 'status: impl %s (%s), model %d' % (impl['status'], impl.get('err'), mstat)
    for v in verdicts:
        if v[0] != 1:
            return 'model does not know a job id of the route'
    if c['op'] == 'extend':
        (_, bt, bl), (_, pt, pl), (_, ft, fl) = verdicts
        if not (bt and bl):
            return 'model: the base route is infeasible (time %d, load %d) though feasible by the textbook definition' % (bt, bl)
        full, first = bool(ft and fl), bool(pt and pl)
        if impl['accepted'] and not full:
            return 'candidate %s after %s: real constraints accept, model time %d load %d' % (c['cand'], c['base'], ft, fl)
        if not impl['accepted'] and full and first:
            return 'candidate %s after %s: real constraints reject (code %s), model: feasible (also with the first activity alone)' % (
                c['cand'], c['base'], impl.get('code'))
        return None
    rs = routes_for(c, impl)
    if len(rs) != len(impl['routes']):
        return 'a route of the solution mentions a job the instance does not have: %s' % impl['routes']
    for r, v in zip(impl['routes'], verdicts):
        if not (v[1] and v[2]):
            return 'solution route %s is infeasible for the model (time %d, load %d)' % (r, v[1], v[2])
    return None


def oracle(c, impl):
    I, fmt = c['inst'], c['fmt']
    if 'panic' in impl:
        return [{'class': 'bind-%s-panic' % fmt, 'what': 'well-formed instance: %s' % impl['panic']}]
    if impl['status'] != 'ok':
        return [{'class': 'bind-%s-rejected' % fmt, 'what': 'well-formed instance rejected: %s' % impl.get('err')}]
    v = []
    if c['op'] == 'extend':
        basert = [tuple(x) if fmt == 'lilim' else x for x in c['route']]
        full = basert + ext(I, c['k'])
        t_ok, l_ok, arrivals, back, loads = textbook(I, full)
        want = t_ok and l_ok
        # a Li&Lim request is inserted pickup first: when the route with the pickup alone is infeasible (possible although the
        # pair is feasible: rounded distances violate the triangle inequality by up to one unit) the sequential evaluator
        # cannot find the insertion - no claim is made about that case
        p_t, p_l = textbook(I, basert + ext(I, c['k'])[:1])[:2]
        if want and not impl['accepted'] and not (p_t and p_l):
            return v
        if want != impl['accepted']:
            if impl['accepted']:
                why = 'capacity' if not l_ok else 'time-window'
                v.append({'class': 'bind-%s-%s-not-enforced' % (fmt, why),
                          'what': 'candidate %s appended to %s accepted, but the file says: loads %s (capacity %s), arrivals %s, return %s'
                                  % (c['cand'], c['base'], loads, I['cap'], arrivals, back)})
            else:
                v.append({'class': 'bind-%s-feasible-rejected' % fmt,
                          'what': 'candidate %s appended to %s rejected (code %s), but it is feasible by the file: loads %s (capacity %s), '
                                  'arrivals %s, return %s' % (c['cand'], c['base'], impl.get('code'), loads, I['cap'], arrivals, back)})
        elif impl['accepted']:
            got = [a[0] for a in impl['acts']]
            if got != impl_ids(I, ext(I, c['k'])):
                v.append({'class': 'bind-%s-inserted-activities' % fmt, 'what': 'inserted %s for candidate %s' % (impl['acts'], c['cand'])})
        return v
    for r in impl['routes']:
        keys = route_of_ids(I, r)
        if keys is None:
            v.append({'class': 'bind-%s-solution-unknown-job' % fmt, 'what': 'route %s' % r})
            continue
        t_ok, l_ok, arrivals, back, loads = textbook(I, keys)
        if not l_ok:
            v.append({'class': 'bind-%s-solution-overload' % fmt, 'what': 'route %s: loads %s, capacity %s' % (r, loads, I['cap'])})
        if not t_ok:
            v.append({'class': 'bind-%s-solution-late' % fmt, 'what': 'route %s: arrivals %s, return %s' % (r, arrivals, back)})
        if fmt == 'lilim' and not paired(keys):
            v.append({'class': 'bind-lilim-solution-unpaired', 'what': 'route %s' % r})
    served = [x for r in impl['routes'] for x in r]
    if len(set(served)) != len(served):
        v.append({'class': 'bind-%s-solution-job-twice' % fmt, 'what': 'routes %s' % impl['routes']})
    return v


def nontrivial_key(c, impl):
    if 'panic' in impl or impl.get('status') != 'ok':
        return None
    if c['op'] == 'extend':
        return ('extend', c['text'], repr(c['base']), c['cand']) if c['base'] else None
    return ('solve', c['text']) if any(len(r) >= 2 for r in impl['routes']) else None


def classify(c, impl):
    labs = ['op=' + c['op'], 'fmt=' + c['fmt'], 'rounded=' + str(c['rounded'])]
    if 'panic' in impl or impl.get('status') != 'ok':
        return labs + ['result=error']
    if c['op'] == 'extend':
        labs += ['tuned=' + c['tuned'], 'accepted=' + str(impl['accepted']), 'base-stops=' + str(min(len(c['base']), 4))]
    else:
        labs += ['routes=' + str(min(len(impl['routes']), 3)), 'unassigned=' + str(min(len(impl['unassigned']), 2))]
    return labs
