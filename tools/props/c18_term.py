"""C18 sub-stream `c18_term` — the termination criteria and the statistics behind them, called directly through the public API of
rosomaxa and compared BIT FOR BIT with the binary64 twins of Model/TermF.v (and, for the window logic of the period mode, with
Model/Termination2.v which the twin shares):
  estimate      MaxGeneration / MaxTime / CompositeTermination::{estimate, is_termination} (generation and limit up to 2^62, limit 0,
                time limits 0 / denormal / inf / NaN; the clock of MaxTime is bracketed by two clock reads of the harness, the model is
                evaluated at both ends and must enclose the implementation's value)
  stats         get_mean_slice / get_variance / get_cv / relative_distance on arbitrary slices
  minvar        MinVariation with a sample interval: every decision equals the float twin (no "uncertain" steps as in the parent stream)
  minvar_period MinVariation with a period interval: real wall clock; the time stamp the code stored in the window state is the clock
                oracle of the model, the survivors of the > 1000 compaction determine the shuffle oracle; decisions and window states compared
  target        TargetProximity::is_termination and relative_distance
  noise         Noise::{generate, generate_multi} with a scripted Random
Registered by `SUBSTREAMS = [..., 'c18_term']` in tools/props/c18.py; theorems C18_period_*, C18_target_*, C18_noise_*, C18_float_estimate_*,
C18_float_stats_* in Properties/C18.v."""
import math
from fractions import Fraction as Fr
from coqterm import nat, boolean
from props.floats import bits, of_bits, any_bits
from props import c18 as P

ID = 'C18'
HARNESS = 'c18_term'
COQ_IMPORTS = ('From Coq Require Import Floats Uint63.\n'
               'From VRP Require Import Base.Tac Model.SlotF Model.Selector Model.SelectorF Model.Termination Model.Termination2 Model.TermF.\n'
               'Open Scope Z_scope.\nOpen Scope uint63_scope.')
MODEL_TARGETS = ['theories/Model/Termination2.vo', 'theories/Model/TermF.vo']
MODEL_NEEDS_IMPL = True
SHARD = 40
SIZES = {'quick': 280, 'thorough': 4000, 'search': 2000}
RULE = ('cases: (estimate) generation / limit from {0, 1, near each other, 2^53+1, 2^62}, 0-4 parts (gen / time / minvar / target), time limits '
        '0, 5e-324, 1e-300 .. 1e9, inf, NaN; (stats) slices of 0-12 floats: dyadic, all equal, tiny / huge magnitude, mixed signs, -0.0, arbitrary '
        'bit patterns of magnitude <= 2^400; (minvar) the generator of the parent stream plus windows of arbitrary floats next to the '
        'threshold; (minvar_period) batches of 10-12 concurrently run sub-cases: period 1 s with 5-12 calls spread over 0-2.3 s of wall clock '
        '(drains, the keep-two rule, windows of 1, 2, 3, more entries), short runs below the period, and > 1000 calls (compaction: shuffle, keep '
        'every tenth, sort); (target) 1-4 objectives, thresholds on and next to the exact distance; (noise) hit / no hit, value 0, addition '
        'and ratio mode. non-trivial = an estimate with >= 1 part, a slice of >= 2 values, a window that reaches the threshold test, a '
        'period batch, a target with a best solution, a noise draw that hits.')
TRUSTED = ['c18_term: the wall clock cannot be scripted (rosomaxa Timer wraps Instant): MaxTime is compared through an enclosure (the model evaluated '
           'at a clock value read before and at one read after the call must enclose the estimate); for MinVariation period mode the time stamp the '
           'code pushed into its window state (read back from the Stateful store of the harness context) is taken as the clock value',
           'c18_term: the shuffle of the > 1000 compaction is not observable; a permutation consistent with the observed survivors is used as oracle '
           '(any such permutation gives the same state: the compaction cases use a period far above the elapsed time and constant fitness)']
ASSUMPTIONS = ['c18_term: MaxTime limit is not negative (limit -0.0 gives estimate -inf: C18_float_estimate_max_time_negative_zero_refuted)',
               'c18_term: f64-level theorems about get_variance_mean: |value| <= 2^480, at most 2^30 values']

TWO53 = 2 ** 53


# ------------------------------------------------------------------ generation
def gen_estimate(rng):
    g = rng.choice([0, 1, 2, 5, 10, 99, 100, 101, 1000, rng.range(0, 5000), TWO53 + 1, TWO53 + 2, 2 ** 62, 2 ** 62 + 1025, rng.next() >> 2])
    parts = []
    for _ in range(rng.range(0, 4)):
        k = rng.below(10)
        if k < 5:
            parts.append(['gen', rng.choice([0, 1, g, g + 1, max(g - 1, 0), 2 * g if g < 2 ** 61 else g, 3, 7, 1000, rng.range(0, 6000), TWO53 + 1, 2 ** 62])])
        elif k < 8:
            parts.append(['time', str(bits(rng.choice([0.0, 5e-324, 1e-300, 1e-9, 1e-6, 1e-4, 1e-3, 0.01, 1.0, 300.0, 1e9, float('inf'), float('nan')])))])
        else:
            parts.append([rng.choice(['minvar', 'target'])])
    return {'op': 'estimate', 'generation': g, 'parts': parts, 'sleep_ms': rng.choice([0, 0, 0, 1, 2])}


def gen_float(rng, kind):
    if kind == 0:
        return float(Fr(rng.range(-64, 64), 8))
    if kind == 1:
        return float(rng.range(1, 1000))
    if kind == 2:
        return rng.range(-10 ** 6, 10 ** 6) / 7.0
    if kind == 3:
        e = rng.range(1023 - 400, 1023 + 400)
        return of_bits((rng.below(2) << 63) | (e << 52) | (rng.next() & ((1 << 52) - 1)))
    return rng.choice([0.0, -0.0, 5e-324, -5e-324, 1.0, -1.0, 2.2250738585072014e-308, 1e-300, 1e300 * 1e-180, 0.1, 0.3])


def gen_stats(rng):
    n = rng.choice([0, 1, 1, 2, 2, 3, 3, 4, 5, 6, 8, 12])
    kind = rng.below(6)
    if kind == 5:
        x = gen_float(rng, rng.below(5))
        vals = [x] * n
    else:
        vals = [gen_float(rng, kind if kind < 5 else rng.below(5)) for _ in range(n)]
    if rng.chance(1, 6):
        s = 2.0 ** rng.choice([-300, -60, 60, 300])
        vals = [v * s for v in vals]
        vals = [v for v in vals if math.isfinite(v)]
    m = len(vals) if rng.chance(3, 4) else rng.range(0, len(vals) + 1)
    other = [(v if rng.chance(1, 3) else gen_float(rng, rng.below(5))) for v in vals[:m]] + ([gen_float(rng, 0)] if m > len(vals) else [])
    return {'op': 'stats', 'vals': P.sb(bits(v) for v in vals), 'other': P.sb(bits(v) for v in other)}


def gen_minvar(rng, tier):
    if rng.chance(2, 3):
        return P.gen_minvar(rng, tier)
    # windows of arbitrary floats: a base per objective, relative perturbations of a few ulps up to ten percent, threshold of the same order
    sample = rng.choice([1, 2, 3, 4, 5, 8])
    nobj = rng.choice([1, 1, 2, 3])
    base = [gen_float(rng, rng.choice([1, 2, 3])) for _ in range(nobj)]
    rel = rng.choice([1e-16, 1e-12, 1e-6, 1e-3, 0.1])
    steps = []
    g = 0
    for _ in range(rng.range(sample, 3 * sample + 2)):
        fit = [b * (1 + rel * rng.range(-8, 8) / 8.0) for b in base]
        fit = [x if math.isfinite(x) else 1.0 for x in fit]
        steps.append({'gen': g, 'phase': rng.choice([0, 1, 2, 2]), 'fit': None if rng.chance(1, 15) else P.sb(bits(x) for x in fit)})
        g += 1 if rng.chance(11, 12) else rng.range(1, 3)
    thr = rel * rng.choice([0.25, 0.5, 0.7, 1.0, 1.5])
    return {'op': 'minvar', 'sample': sample, 'thr': str(bits(thr if rng.chance(19, 20) else -thr)), 'global': rng.chance(2, 3), 'steps': steps,
            'rel': rel}


def gen_period_sub(rng, tier, k):
    nobj = rng.choice([1, 1, 2])
    thr = Fr(rng.choice([1, 2, 4, 8, 16]), 64)
    base = [Fr(2 ** rng.range(3, 8)) for _ in range(nobj)]

    def fit(i, mode):
        if mode == 0:
            d = [b * thr * rng.choice([2, 2, Fr(1, 2), Fr(1, 4), 0]) for b in base]
            return [b + (dd if i % 2 == 0 else -dd) for b, dd in zip(base, d)]
        if mode == 1:
            return list(base)
        return [b + b * Fr(1, 2 ** min(i, 10)) for b in base]
    mode = rng.below(3)
    steps = []
    if k < 6:
        period = 1
        budget = 2300
        i = 0
        n = rng.range(5, 12)
        while i < n and budget > 0:
            ms = rng.choice([0, 0, 1, 20, 150, 300, 450, 700, 1100])
            ms = min(ms, budget)
            budget -= ms
            f = fit(i, mode)
            steps.append({'sleep_ms': ms, 'phase': rng.choice([0, 1, 2, 2]), 'fit': None if rng.chance(1, 12) else P.sb(bits(float(x)) for x in f)})
            i += 1
    elif k < 8:
        period = rng.choice([1, 5, 1000])
        for i in range(rng.range(3, 8)):
            steps.append({'sleep_ms': rng.choice([0, 0, 1, 5]), 'phase': rng.choice([1, 2]), 'fit': P.sb(bits(float(x)) for x in fit(i, mode))})
    else:
        period = 1000
        f = P.sb(bits(float(x)) for x in base)
        steps.append({'sleep_ms': 0, 'phase': 2, 'fit': f, 'rep': 1000 + rng.range(1, 12)})
        for i in range(rng.range(0, 3)):
            steps.append({'sleep_ms': rng.choice([0, 1]), 'phase': 2, 'fit': f})
    return {'period': period, 'thr': str(bits(float(thr))), 'global': rng.chance(2, 3), 'steps': steps}


def gen_target(rng):
    n = rng.choice([1, 1, 2, 3, 4])
    kind = rng.below(4)
    target = [gen_float(rng, rng.choice([0, 1])) if kind < 3 else gen_float(rng, rng.below(5)) for _ in range(n)]
    if rng.chance(1, 12):
        best = None
    else:
        best = []
        for t in target[:n if rng.chance(5, 6) else rng.range(0, n)]:
            c = rng.below(5)
            best.append(t if c == 0 else (t * 2 if c == 1 else (t / 2 if c == 2 else (-t if c == 3 else gen_float(rng, rng.below(5))))))
    thr = rng.choice([0.5, 0.5, 1.0, 0.25, 0.1, 2.0, 0.0, -1.0, 0.7071067811865476, 1.4142135623730951, 1.5, math.sqrt(0.5) * 0.5])
    if rng.chance(1, 4):
        thr = of_bits(bits(thr) + rng.choice([-1, 1])) if thr > 0 else thr
    return {'op': 'target', 'target': P.sb(bits(x) for x in target), 'thr': str(bits(thr)), 'best': None if best is None else P.sb(bits(x) for x in best)}


def gen_noise(rng):
    draws = []
    for _ in range(rng.range(1, 6)):
        lo = rng.choice([-0.1, -0.5, 0.0, 0.9, -1.0])
        hi = lo + rng.choice([0.0, 0.1, 0.2, 1.0])
        u = lo if hi == lo else lo + (hi - lo) * rng.range(0, 7) / 8.0
        draws.append({'add': rng.chance(1, 2), 'prob': str(bits(rng.choice([0.0, 0.05, 0.5, 1.0, 2.0, -1.0]))), 'lo': str(bits(lo)), 'hi': str(bits(hi)),
                      'hit': rng.chance(2, 3), 'u': str(bits(u)), 'value': str(bits(gen_float(rng, rng.below(5))))})
    return {'op': 'noise', 'draws': draws}


def generate(rng, tier, n):
    cases = []
    nbatch = 2 if tier == 'quick' else max(2, n // 400)
    for _ in range(nbatch):
        kinds = [9, 6, 7] + [rng.below(6) for _ in range(rng.range(7, 9))]      # one compaction, two short runs, the rest with drains
        cases.append({'op': 'minvar_period', 'subs': [gen_period_sub(rng, tier, k) for k in kinds]})
    for _ in range(max(0, n - nbatch)):
        r = rng.below(100)
        if r < 22:
            cases.append(gen_estimate(rng))
        elif r < 47:
            cases.append(gen_stats(rng))
        elif r < 72:
            cases.append(gen_minvar(rng, tier))
        elif r < 90:
            cases.append(gen_target(rng))
        else:
            cases.append(gen_noise(rng))
    return cases


def corpus():
    one = str(bits(1.0))
    return [
        {'op': 'estimate', 'generation': 0, 'parts': [['gen', 0]], 'sleep_ms': 0},
        {'op': 'estimate', 'generation': TWO53 + 1, 'parts': [['gen', TWO53 + 2], ['time', str(bits(0.0))], ['time', str(bits(5e-324))]], 'sleep_ms': 1},
        {'op': 'stats', 'vals': [str(bits(-0.0))], 'other': [str(bits(0.0))]},
        {'op': 'stats', 'vals': [str(bits(0.1))] * 3, 'other': [str(bits(0.3))] * 3},
        # target 1 vs best 2: relative change 1/2, distance 0.5: `distance < threshold` is false at 0.5
        {'op': 'target', 'target': [one], 'thr': str(bits(0.5)), 'best': [str(bits(2.0))]},
        {'op': 'target', 'target': [one], 'thr': str(bits(0.5000000000000001)), 'best': [str(bits(2.0))]},
        {'op': 'noise', 'draws': [{'add': True, 'prob': one, 'lo': str(bits(-0.1)), 'hi': str(bits(0.1)), 'hit': True, 'u': str(bits(0.05)), 'value': str(bits(10.0))},
                                  {'add': False, 'prob': one, 'lo': str(bits(0.9)), 'hi': str(bits(1.1)), 'hit': True, 'u': one, 'value': str(bits(0.0))}]},
    ]


# ------------------------------------------------------------------ model terms
def b1(x):
    x = int(x)
    return ('(bn %d%%uint63)' % (x - P.SIGN)) if x >= P.SIGN else ('(bp %d%%uint63)' % x)


def bl(xs):
    return P.blist([int(x) for x in xs])


def zz(n):
    return '(%d)%%Z' % n


def est_term(c, elapsed):
    """elapsed: per part the bits of the clock value used for a time part"""
    ps = []
    for p, el in zip(c['parts'], elapsed):
        if p[0] == 'gen':
            ps.append('(0%%Z, %s, 0%%Z)' % zz(p[1]))
        elif p[0] == 'time':
            ps.append('(1%%Z, %s, %s)' % (b1(p[1]), b1(el)))
        else:
            ps.append('(2%Z, 0%Z, 0%Z)')
    return 'run_estimateF %s [%s]' % (zz(c['generation']), '; '.join(ps))


def period_steps(sub, res):
    """steps of the model for one sub-case from the observed calls; None when the clock value of the compaction call is uncertain"""
    calls = res['calls']
    out = []
    k = 0
    len_before = 0
    for st in sub['steps']:
        for _ in range(st.get('rep', 1)):
            call = calls[k]
            k += 1
            perm = []
            if st['fit'] is None:
                out.append((0, perm, st['phase'], None))
                continue
            if len_before >= 1000:
                if call['t0'] != call['t1']:
                    return None
                elapsed = call['t0']
                # survivors (time stamps, sorted) -> a permutation whose positions 0, 10, 20, .. are entries with those time stamps
                before_times = [e[0] for e in out_state_times(out)] + [elapsed]
                surv = [e[0] for e in call['entries']]
                pool = {}
                for i, t in enumerate(before_times):
                    pool.setdefault(t, []).append(i)
                keep = []
                for t in surv:
                    if not pool.get(t):
                        return None
                    keep.append(pool[t].pop(0))
                rest = [i for i in range(len(before_times)) if i not in set(keep)]
                perm = []
                ki, ri = 0, 0
                for pos in range(len(before_times)):
                    if pos % 10 == 0 and ki < len(keep):
                        perm.append(keep[ki])
                        ki += 1
                    else:
                        perm.append(rest[ri])
                        ri += 1
            else:
                elapsed = call['last']
            out.append((elapsed, perm, st['phase'], st['fit']))
            len_before = call['len']
    return out


def out_state_times(steps):
    """time stamps of the pushes so far (no drain / compaction before the first compaction in the generated compaction cases)"""
    return [(s[0],) for s in steps if s[3] is not None]


def model_term(c, impl):
    op = c['op']
    if 'panic' in impl:
        return None
    if op == 'estimate':
        lo = [br[0] for br in impl['brackets']]
        hi = [br[1] for br in impl['brackets']]
        clo = [impl['cbracket'][0]] * len(c['parts'])
        chi = [impl['cbracket'][1]] * len(c['parts'])
        return '[%s; %s; %s; %s]' % (est_term(c, lo), est_term(c, hi), est_term(c, clo), est_term(c, chi))
    if op == 'stats':
        return 'run_statsF %s %s' % (bl(c['vals']), bl(c['other']))
    if op == 'minvar':
        steps = []
        for st in c['steps']:
            f = '[]' if st['fit'] is None else '[%s]' % bl(st['fit'])
            steps.append('(%s, %s, %s)' % (nat(st['gen']), nat(st['phase']), f))
        return 'run_minvarF %s %s %s [%s]' % (nat(c['sample']), b1(c['thr']), boolean(c['global']), '; '.join(steps))
    if op == 'minvar_period':
        ts = []
        for sub, res in zip(c['subs'], impl['subs']):
            steps = None if 'panic' in res else period_steps(sub, res)
            if steps is None:
                ts.append('(@nil (list int))')
                continue
            ss = []
            for (el, perm, ph, fit) in steps:
                f = '[]' if fit is None else '[%s]' % bl(fit)
                ss.append('(%s, %s, %s, %s)' % (zz(el), ('(map Z.to_nat [%s]%%Z)' % '; '.join(str(i) for i in perm)) if perm else '(@nil nat)', nat(ph), f))
            ts.append('run_minvar_periodF %s %s %s [%s]' % (zz(sub['period']), b1(sub['thr']), boolean(sub['global']), '; '.join(ss)))
        return '[%s]' % '; '.join(ts)
    if op == 'target':
        b = '[]' if c['best'] is None else '[%s]' % bl(c['best'])
        return 'run_targetF %s %s %s' % (bl(c['target']), b1(c['thr']), b)
    if op == 'noise':
        ds = ['(%s, %s, %s, %s)' % (boolean(d['add']), boolean(d['hit']), b1(d['u']), b1(d['value'])) for d in c['draws']]
        return 'run_noiseF [%s]' % '; '.join(ds)
    return None


# ------------------------------------------------------------------ compare
def dec(mag, flag):
    if flag == 2:
        return -1
    return mag + (P.SIGN if flag == 1 else 0)


def decs(xs):
    return [dec(xs[i], xs[i + 1]) for i in range(0, len(xs), 2)]


def fval(b):
    return of_bits(b) if b >= 0 else float('nan')


def compare(c, impl, model):
    op = c['op']
    if 'panic' in impl:
        return 'implementation panicked: %s' % impl['panic']
    if op == 'estimate':
        (slo, _), (shi, _), (_, clo), (_, chi) = model
        slo, shi, clo, chi = decs(slo), decs(shi), decs(clo)[0], decs(chi)[0]
        has_time = any(p[0] == 'time' for p in c['parts'])
        for k, p in enumerate(c['parts']):
            got = P.nanmap(impl['singles'][k])
            if p[0] != 'time':
                if got != slo[k]:
                    return 'estimate of part %d %s: impl %r model %r' % (k, p, fval(got), fval(slo[k]))
            elif not (fval(slo[k]) <= fval(got) <= fval(shi[k])):
                return 'MaxTime estimate %r outside the enclosure [%r, %r] of the model (limit %r)' % (fval(got), fval(slo[k]), fval(shi[k]), of_bits(int(p[1])))
        got = P.nanmap(impl['composite'])
        if not has_time:
            if got != clo:
                return 'composite estimate: impl %r model %r' % (fval(got), fval(clo))
        elif not (fval(clo) <= fval(got) <= fval(chi)):
            return 'composite estimate %r outside the enclosure [%r, %r] of the model' % (fval(got), fval(clo), fval(chi))
        return None
    if op == 'stats':
        want = decs(model)
        got = [P.nanmap(impl[k]) for k in ('mean', 'variance', 'cv', 'distance')]
        if got != want:
            return 'mean / variance / cv / relative_distance: impl %s model %s' % ([fval(x) for x in got], [fval(x) for x in want])
        return None
    if op == 'minvar':
        want = [m == 1 for m in model]
        if want != list(impl['fired']):
            k = [i for i, (a, b) in enumerate(zip(want, impl['fired'])) if a != b]
            return 'MinVariation (sample) decisions differ from the float twin at steps %s: impl %s model %s' % (k, impl['fired'], want)
        return None
    if op == 'minvar_period':
        for j, (sub, res, m) in enumerate(zip(c['subs'], impl['subs'], model)):
            if 'panic' in res:
                return 'sub-case %d panicked: %s' % (j, res['panic'])
            if not m:
                continue            # clock value of the compaction call uncertain: not comparable
            if len(m) != len(res['calls']):
                return 'sub-case %d: %d calls, model %d steps' % (j, len(res['calls']), len(m))
            for k, (call, ms) in enumerate(zip(res['calls'], m)):
                fired, ln, last, tsum = ms[0] == 1, ms[1], ms[2], ms[3]
                if call['fired'] != fired:
                    return 'sub-case %d call %d: MinVariation (period %ds) fired=%s, model %s (window of the model: %s)' % (
                        j, k, sub['period'], call['fired'], fired, ms[4:])
                if call['len'] != ln or (call['last'] or 0) != last:
                    return 'sub-case %d call %d: window has %d entries (last %s), model %d (last %d)' % (j, k, call['len'], call['last'], ln, last)
                if call['entries'] is not None:
                    times = [e[0] for e in call['entries']]
                    if sum(times) != tsum or (len(ms) > 4 and times != list(ms[4:])):
                        return 'sub-case %d call %d: time stamps of the window %s, model %s' % (j, k, times, ms[4:])
        return None
    if op == 'target':
        fired = model[0] == 1
        dist = dec(model[1], model[2])
        if impl['fired'] != fired or P.nanmap(impl['distance']) != dist:
            return 'TargetProximity fired=%s distance %r, model fired=%s distance %r' % (impl['fired'], fval(P.nanmap(impl['distance'])), fired, fval(dist))
        return None
    if op == 'noise':
        want = decs(model)
        got = []
        for d in impl['draws']:
            got += [P.nanmap(d['generate'])] + [P.nanmap(x) for x in d['multi']]
        if got != want:
            return 'Noise::generate / generate_multi: impl %s model %s' % ([fval(x) for x in got], [fval(x) for x in want])
        return None
    return None


# ------------------------------------------------------------------ oracle
def unit(b):
    x = fval(P.nanmap(b))
    return 0 <= x <= 1


def window_expect(entries, thr):
    """exact decision of the property on a window given as fitness vectors: (no objective has cv > thr, certain)"""
    rows = [[P.fr(x) for x in e] for e in entries]
    res, certain = True, True
    width = max([len(r) for r in rows] + [0])
    for k in range(width):
        col = [r[k] for r in rows if len(r) > k]
        n = len(col)
        mean = sum(col) / n
        var = sum((x - mean) ** 2 for x in col) / n
        t = thr * mean
        if mean == 0:
            gt = thr < 0
        elif mean > 0:
            gt = t < 0 or var > t * t
        else:
            gt = t > 0 and var < t * t
        scale = max(var, t * t)
        if scale != 0 and abs(var - t * t) <= scale / 10 ** 6:
            certain = False
        if scale == 0 and var == 0 and t == 0 and mean != 0:
            certain = False
        if gt:
            res = False
    return res, certain


def oracle(c, impl):
    op = c['op']
    if 'panic' in impl:
        return [{'class': 'panic-' + op, 'what': 'panicked: ' + impl['panic']}]
    v = []
    if op == 'estimate':
        for k, p in enumerate(c['parts']):
            if not unit(impl['singles'][k]):
                v.append({'class': 'estimate-outside-unit-interval-' + p[0], 'what': 'estimate %r (generation %d, part %s)' % (of_bits(int(impl['singles'][k])), c['generation'], p)})
            if p[0] == 'gen' and impl['fired'][k] != (c['generation'] >= p[1]):
                v.append({'class': 'max-generation-fires-wrongly', 'what': 'generation %d limit %d fired=%s' % (c['generation'], p[1], impl['fired'][k])})
            if p[0] == 'time':
                lim = of_bits(int(p[1]))
                lo, hi = of_bits(int(impl['brackets'][k][0])), of_bits(int(impl['brackets'][k][1]))
                if (lo > lim and not impl['fired'][k]) or (not (hi > lim) and impl['fired'][k]):
                    v.append({'class': 'max-time-fires-wrongly', 'what': 'elapsed in [%r, %r] limit %r fired=%s' % (lo, hi, lim, impl['fired'][k])})
        if not unit(impl['composite']):
            v.append({'class': 'estimate-outside-unit-interval-composite', 'what': 'estimate %r (generation %d, parts %s)' % (of_bits(int(impl['composite'])), c['generation'], c['parts'])})
        return v
    if op == 'stats':
        vals = [of_bits(int(x)) for x in c['vals']]
        if all(abs(x) <= 2.0 ** 480 for x in vals):
            for k in ('mean', 'variance'):
                if not P.is_finite_bits(impl[k]):
                    v.append({'class': 'stats-nonfinite', 'what': '%s of %s is %r' % (k, vals, of_bits(int(impl[k])))})
        return v
    if op == 'minvar':
        # windows of arbitrary floats with relative spread below 1e-3 are ill-conditioned for the two-pass variance in f64 (the rounding of
        # the mean is of the order of the spread): the exact-rational evaluation of the property says nothing reliable about the f64 decision
        # there; those cases are compared with the binary64 twin only
        if c.get('rel') is not None and c['rel'] < 1e-3:
            return []
        return P.oracle(c, impl)
    if op == 'minvar_period':
        for j, (sub, res) in enumerate(zip(c['subs'], impl['subs'])):
            if 'panic' in res:
                v.append({'class': 'panic-minvar-period', 'what': 'sub-case %d panicked: %s' % (j, res['panic'])})
                continue
            thr = P.fr(sub['thr'])
            period = sub['period'] * 1000
            k = 0
            pushed = []          # (time, fitness) of every push, in order
            for st in sub['steps']:
                for _ in range(st.get('rep', 1)):
                    call = res['calls'][k]
                    k += 1
                    if st['fit'] is None:
                        if call['fired']:
                            v.append({'class': 'minvar-period-fires-without-best', 'what': 'sub-case %d call %d fired without a best solution' % (j, k - 1)})
                        continue
                    if call['entries'] is None or call['last'] is None:
                        continue
                    elapsed = call['last']
                    pushed.append(elapsed)
                    window = call['entries']
                    gate = sub['global'] or st['phase'] == 2
                    if elapsed < period or len(window) < 2 and len(pushed) < 2:
                        if call['fired']:
                            v.append({'class': 'minvar-period-fires-early', 'what': 'sub-case %d call %d: fired at %d ms, period %d ms' % (j, k - 1, elapsed, period)})
                        continue
                    # the window the decision was taken on is the state after the call; it must contain every pushed entry that is inside the period
                    inside = [t for t in pushed if t >= elapsed - period]
                    wt = [e[0] for e in window]
                    if len(pushed) <= 1000 and wt[-len(inside):] != inside and len(inside) <= len(wt):
                        v.append({'class': 'minvar-period-window-loses-entries', 'what': 'sub-case %d call %d: window %s does not end with the entries of the period %s' % (j, k - 1, wt, inside)})
                        continue
                    want, certain = window_expect([e[1] for e in window], thr)
                    want = want and gate
                    if certain and call['fired'] != want:
                        cls = 'minvar-period-fires-wrongly' if call['fired'] else 'minvar-period-misses'
                        v.append({'class': cls, 'what': 'sub-case %d call %d at %d ms (period %d ms, window of %d): fired=%s, exact cv test says %s' % (
                            j, k - 1, elapsed, period, len(window), call['fired'], want)})
            if v:
                break
        return v
    if op == 'target':
        if c['best'] is None:
            if impl['fired']:
                v.append({'class': 'target-proximity-fires-without-best', 'what': 'fired without a best solution'})
            return v
        ta = [of_bits(int(x)) for x in c['target']]
        be = [of_bits(int(x)) for x in c['best']]
        thr = of_bits(int(c['thr']))
        if not all(math.isfinite(x) for x in ta + be) or not math.isfinite(thr):
            return v
        s = Fr(0)
        for a, b in zip(ta, be):
            a, b = Fr(a), Fr(b)
            d = max(abs(a), abs(b))
            if d != 0:
                s += (abs(a - b) / d) ** 2
        t = Fr(thr)
        want = t > 0 and s < t * t
        margin = abs(s - t * t) > max(s, t * t) / 10 ** 9 if t > 0 else True
        if margin and impl['fired'] != want:
            v.append({'class': 'target-proximity-fires-wrongly' if impl['fired'] else 'target-proximity-misses',
                      'what': 'target %s best %s threshold %r: fired=%s, distance^2 = %s' % (ta, be, thr, impl['fired'], float(s))})
        return v
    if op == 'noise':
        for d, r in zip(c['draws'], impl['draws']):
            value = of_bits(int(d['value']))
            want_calls = [['is_hit', d['prob']]] + ([['uniform_real', d['lo'], d['hi']]] if d['hit'] else [])
            if r['calls'] != want_calls:
                v.append({'class': 'noise-draws', 'what': 'generate(%r) asked the random source %s, expected %s' % (value, r['calls'], want_calls)})
            if not d['hit'] and P.nanmap(r['generate']) != P.nanmap(d['value']):
                v.append({'class': 'noise-changes-value-without-hit', 'what': 'generate(%r) = %r without a hit' % (value, of_bits(int(r['generate'])))})
        return v
    return v


def nontrivial_key(c, impl):
    if 'panic' in impl:
        return None
    op = c['op']
    if op == 'estimate':
        return ('estimate', c['generation'], str(c['parts'])) if c['parts'] else None
    if op == 'stats':
        return ('stats', tuple(c['vals']), tuple(c['other'])) if len(c['vals']) >= 2 else None
    if op == 'minvar':
        return P.nontrivial_key(c, impl)
    if op == 'minvar_period':
        return ('period', str(c['subs']))
    if op == 'target':
        return ('target', str(c)) if c['best'] is not None else None
    if op == 'noise':
        return ('noise', str(c['draws'])) if any(d['hit'] for d in c['draws']) else None


def classify(c, impl):
    labs = ['op=' + c['op']]
    if 'panic' in impl:
        return labs
    if c['op'] == 'minvar':
        labs.append('minvar-fired=%s' % any(impl['fired']))
    if c['op'] == 'minvar_period':
        for sub, res in zip(c['subs'], impl['subs']):
            if 'panic' in res:
                continue
            labs.append('period-sub:fired=%s' % any(x['fired'] for x in res['calls']))
            if any(st.get('rep', 1) > 1 for st in sub['steps']):
                labs.append('period-sub:compaction')
            lens = [x['len'] for x in res['calls']]
            if any(b < a + 1 and a < 1000 for a, b in zip(lens, lens[1:])):
                labs.append('period-sub:drain')
    if c['op'] == 'target':
        labs.append('target-fired=%s' % impl['fired'])
    if c['op'] == 'estimate' and any(p[0] == 'time' for p in c['parts']):
        labs.append('estimate:with-max-time')
    return labs


def shrink_candidates(c):
    if c['op'] == 'minvar' and len(c['steps']) > 1:
        for k in range(len(c['steps'])):
            d = dict(c)
            d['steps'] = c['steps'][:k] + c['steps'][k + 1:]
            if d['steps']:
                yield d
    if c['op'] == 'minvar_period' and len(c['subs']) > 1:
        for k in range(len(c['subs'])):
            d = dict(c)
            d['subs'] = [c['subs'][k]]
            yield d
